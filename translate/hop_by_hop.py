"""Gen/HopByHop.lean: what the C04 model needs from the staged tree.

* registry: (id, name, list, hopbyhop) for every Http::HdrType, dumped by executing the staged code
  (harness/c04.cc --dump-registry walks Http::HeaderLookupTable.lookup(id)); enumerator identifiers are read from the staged
  src/http/RegisteredHeadersHash.gperf text and joined on the name.
* switchCases: the `case Http::HdrType::X:` groups of copyOneHeaderFromClientsideRequestToUpstreamRequest (src/http.cc),
  each label paired with the *class* of the statements of its group. A class is recognised by comparing the group's
  comment-stripped, whitespace-normalised statement text with the texts below (the texts the hand-written model in
  SquidModel/Hop/Request.lean transcribes); any other text is class 0 (= unknown to the model), which makes the model
  answer `unknown-body` and the theorems about that header fail.
* replyDeletesProxyAuthenticate / replyRemovesHopByHop / ...: the statements of clientReplyContext::buildReplyHeader
  (src/client_side_reply.cc) and HttpHeader::removeHopByHopEntries / removeConnectionHeaderEntries (src/HttpHeader.cc)
  that the reply-side model transcribes, recognised the same way.
"""
import re, subprocess

# class number -> normalised statement text of a switch group (see Request.lean `Body`)
BODIES = {
    1: 'break;',
    2: 'if (!flags.toOrigin && request->peer_login && (strcmp(request->peer_login, "PASS") == 0 || '
       'strcmp(request->peer_login, "PROXYPASS") == 0 || strcmp(request->peer_login, "PASSTHRU") == 0)) { '
       'hdr_out->addEntry(e->clone()); } break;',
    3: 'if (!flags.toOriginPeer()) { hdr_out->addEntry(e->clone()); } else { if (request->peer_login && '
       '(strcmp(request->peer_login, "PASS") == 0 || strcmp(request->peer_login, "PASSTHRU") == 0 || '
       'strcmp(request->peer_login, "PROXYPASS") == 0)) { hdr_out->addEntry(e->clone()); } } break;',
    4: 'if (request->peer_domain) hdr_out->putStr(Http::HdrType::HOST, request->peer_domain); else if '
       '(request->flags.redirected && !Config.onoff.redir_rewrites_host) hdr_out->addEntry(e->clone()); else { '
       'SBuf authority = request->url.authority(); hdr_out->putStr(Http::HdrType::HOST, authority.c_str()); } break;',
    5: 'if (hdr_out->has(Http::HdrType::IF_MODIFIED_SINCE)) break; else if (Config.onoff.cache_miss_revalidate || '
       '!request->flags.cachable || request->flags.auth) hdr_out->addEntry(e->clone()); break;',
    6: 'if (hdr_out->hasListMember(Http::HdrType::IF_MATCH, "*", \',\') || Config.onoff.cache_miss_revalidate || '
       '!request->flags.cachable || request->flags.auth) hdr_out->addEntry(e->clone()); break;',
    7: 'if (request->method == Http::METHOD_TRACE || request->method == Http::METHOD_OPTIONS) { const int64_t hops = '
       'e->getInt64(); if (hops > 0) hdr_out->putInt64(Http::HdrType::MAX_FORWARDS, hops - 1); } break;',
    8: 'if (!Config.onoff.via) hdr_out->addEntry(e->clone()); break;',
    9: 'if (!we_do_ranges) hdr_out->addEntry(e->clone()); break;',
    10: 'if (!flags.chunked_request) hdr_out->addEntry(e->clone()); break;',
    11: 'if (!flags.front_end_https) hdr_out->addEntry(e->clone()); break;',
    # the default: group
    12: 'if (strConnection.size()>0 && strListIsMember(&strConnection, e->name, \',\')) { debugs(11, 2, "\'" << e->name << '
        '"\' header cropped by Connection: definition"); return; } hdr_out->addEntry(e->clone());',
}
BODY_NAMES = {0: "unknown", 1: "drop", 2: "proxyAuthorization", 3: "authorization", 4: "host", 5: "ifModifiedSince", 6: "ifNoneMatch",
              7: "maxForwards", 8: "via", 9: "range", 10: "contentLength", 11: "frontEndHttps", 12: "connectionFilter"}

# statements of the reply side the model transcribes: name -> (file, function header regex, normalised statement that must be present)
REPLY_FACTS = {
    "replyDeletesProxyAuthenticate": (
        "src/client_side_reply.cc", r"clientReplyContext::buildReplyHeader\(\)\s*\{",
        'if ( !request->peer_login || (strcmp(request->peer_login,"PASS") != 0 && strcmp(request->peer_login,"PASSTHRU") != 0)) { '
        '#if USE_ADAPTATION if (!http->requestSatisfactionMode()) #endif reply->header.delById(Http::HdrType::PROXY_AUTHENTICATE); } '
        'reply->header.removeHopByHopEntries();'),
    "replyPutsOwnConnection": (
        "src/client_side_reply.cc", r"clientReplyContext::buildReplyHeader\(\)\s*\{",
        'hdr->putStr(Http::HdrType::CONNECTION, request->flags.proxyKeepalive ? "keep-alive" : "close");'),
    "replyPutsOwnChunked": (
        "src/client_side_reply.cc", r"clientReplyContext::buildReplyHeader\(\)\s*\{",
        'if (maySendChunkedReply && reply->bodySize(request->method) < 0) { debugs(88, 3, "clientBuildReplyHeader: chunked reply"); '
        'request->flags.chunkedReply = true; hdr->putStr(Http::HdrType::TRANSFER_ENCODING, "chunked"); }'),
    "removeHopByHopBody": (
        "src/HttpHeader.cc", r"HttpHeader::removeHopByHopEntries\(\)\s*\{",
        'removeConnectionHeaderEntries(); const HttpHeaderEntry *e; HttpHeaderPos pos = HttpHeaderInitPos; int headers_deleted = 0; '
        'while ((e = getEntry(&pos))) { Http::HdrType id = e->id; if (Http::HeaderLookupTable.lookup(id).hopbyhop) { '
        'delAt(pos, headers_deleted); CBIT_CLR(mask, id); } }'),
    "removeConnectionEntriesBody": (
        "src/HttpHeader.cc", r"HttpHeader::removeConnectionHeaderEntries\(\)\s*\{",
        'if (has(Http::HdrType::CONNECTION)) { String strConnection; (void) getList(Http::HdrType::CONNECTION, &strConnection); '
        'const HttpHeaderEntry *e; HttpHeaderPos pos = HttpHeaderInitPos; int headers_deleted = 0; while ((e = getEntry(&pos))) { '
        'if (strListIsMember(&strConnection, e->name, \',\')) delAt(pos, headers_deleted); } if (headers_deleted) refreshMask(); }'),
    "requestOwnChunked": (
        "src/http.cc", r"HttpStateData::httpBuildRequestHeader\([^)]*\)\s*\{",
        'if (flags.chunked_request) { hdr_out->putStr(Http::HdrType::TRANSFER_ENCODING, "chunked"); }'),
    "requestOwnConnection": (
        "src/http.cc", r"HttpStateData::httpBuildRequestHeader\([^)]*\)\s*\{",
        'if (!hdr_out->has(Http::HdrType::CONNECTION)) hdr_out->putStr(Http::HdrType::CONNECTION, flags.keepalive ? "keep-alive" : "close");'),
    "requestJoinsConnection": (
        "src/http.cc", r"HttpStateData::httpBuildRequestHeader\([^)]*\)\s*\{",
        'String strConnection (hdr_in->getList(Http::HdrType::CONNECTION)); while ((e = hdr_in->getEntry(&pos))) '
        'copyOneHeaderFromClientsideRequestToUpstreamRequest(e, strConnection, request, hdr_out, we_do_ranges, flags);'),
}


def strip_comments(text):
    """remove /* */ and // comments, keeping string and char literals intact"""
    out, i, n = [], 0, len(text)
    while i < n:
        c = text[i]
        if c == '"' or c == "'":
            j = i + 1
            while j < n and text[j] != c:
                j += 2 if text[j] == "\\" else 1
            out.append(text[i:j + 1])
            i = j + 1
        elif text.startswith("/*", i):
            j = text.find("*/", i + 2)
            i = n if j < 0 else j + 2
            out.append(" ")
        elif text.startswith("//", i):
            j = text.find("\n", i)
            i = n if j < 0 else j
        else:
            out.append(c)
            i += 1
    return "".join(out)


def norm(text):
    """token-level normal form: white space only survives between two identifier characters"""
    t = re.sub(r"\s+", " ", text).strip()
    return re.sub(r"(?<![A-Za-z0-9_]) | (?![A-Za-z0-9_])", "", t)


def block_after(text, start):
    """text[start] == '{' -> (inside text, index after the matching '}'), skipping literals"""
    assert text[start] == "{"
    depth, i, n = 0, start, len(text)
    while i < n:
        c = text[i]
        if c == '"' or c == "'":
            j = i + 1
            while j < n and text[j] != c:
                j += 2 if text[j] == "\\" else 1
            i = j + 1
            continue
        if c == "{":
            depth += 1
        elif c == "}":
            depth -= 1
            if depth == 0:
                return text[start + 1:i], i + 1
        i += 1
    raise AssertionError("unbalanced braces")


def function_body(src, header_re):
    """comment-stripped body of the function *definition* matching header_re (the regex ends at the opening brace)"""
    text = strip_comments(src)
    m = None
    for m in re.finditer(header_re, text):
        pass
    assert m, "function not found: " + header_re
    body, _ = block_after(text, m.end() - 1)
    return body


def switch_groups(stage):
    """-> ([(labels, normalised statements)], default statements)"""
    body = function_body(stage.read("src/http.cc"),
                         r"\ncopyOneHeaderFromClientsideRequestToUpstreamRequest\(const HttpHeaderEntry \*e,[^)]*\)\s*\{")
    m = re.search(r"switch\s*\(\s*e->id\s*\)\s*\{", body)
    assert m, "switch (e->id) not found"
    sw, end = block_after(body, m.end() - 1)
    assert norm(body[end:]) == "", "statements after the switch: %r" % norm(body[end:])[:200]
    assert norm(body[:m.start()]).startswith("debugs(") and norm(body[:m.start()]).count(";") == 1, "statements before the switch"
    # (the debugs() text contains no ';')
    # labels at depth 0 of the switch block
    groups, labels, cur, depth, i, n = [], [], [], 0, 0, len(sw)
    lab = re.compile(r"(case\s+Http::HdrType::(\w+)\s*:|default\s*:)")
    stmts_start = None
    pieces = []   # (kind, payload)
    while i < n:
        c = sw[i]
        if c == '"' or c == "'":
            j = i + 1
            while j < n and sw[j] != c:
                j += 2 if sw[j] == "\\" else 1
            cur.append(sw[i:j + 1])
            i = j + 1
            continue
        if depth == 0:
            mm = lab.match(sw, i)
            if mm and (i == 0 or not (sw[i - 1].isalnum() or sw[i - 1] == "_")):
                if norm("".join(cur)):
                    pieces.append(("stmts", norm("".join(cur))))
                cur = []
                pieces.append(("label", mm.group(2) or "default"))
                i = mm.end()
                continue
        if c == "{":
            depth += 1
        elif c == "}":
            depth -= 1
        cur.append(c)
        i += 1
    if norm("".join(cur)):
        pieces.append(("stmts", norm("".join(cur))))
    default = None
    for kind, p in pieces:
        if kind == "label":
            labels.append(p)
        else:
            assert labels, "statements before the first label"
            if "default" in labels:
                assert labels == ["default"], "default: shares a group with case labels"
                default = p
            else:
                groups.append((labels, p))
            labels = []
    assert not labels, "labels without statements"
    assert default is not None, "no default: group"
    return groups, default


def classify(stmts):
    for k, t in BODIES.items():
        if stmts == norm(t):
            return k
    return 0


def registry(stage):
    from props import C04
    exe = C04.build_exe(stage)
    r = subprocess.run([exe, "--dump-registry"], capture_output=True, text=True, check=True)
    rows = []
    for line in r.stdout.splitlines():
        f = line.split()
        if len(f) == 4:
            rows.append((int(f[0]), bytes.fromhex(f[1]) if f[1] != "-" else b"", int(f[2]), int(f[3])))
    assert rows and [x[0] for x in rows] == list(range(len(rows))), "registry ids are not 0..n-1"
    idents = {}
    for line in stage.read("src/http/RegisteredHeadersHash.gperf").split("%%")[1].splitlines():
        m = re.match(r"\s*([^,\s]+)\s*,\s*Http::HdrType::(\w+)\s*,", line)
        if m:
            idents[m.group(1)] = m.group(2)
    return rows, idents


def generate(stage):
    rows, idents = registry(stage)
    by_ident = {}
    for rid, name, lst, hop in rows:
        ident = idents.get(name.decode("latin-1"))
        if ident:
            by_ident[ident] = rid
    groups, default = switch_groups(stage)
    B = lambda x: "true" if x else "false"
    reg_lines = ["  (%d, [%s], %s, %s)%s  -- %s" % (rid, ", ".join(str(c) for c in name), B(lst), B(hop), "," if i + 1 < len(rows) else "", name.decode("latin-1"))
                 for i, (rid, name, lst, hop) in enumerate(rows)]
    cases, seen = [], set()
    unknown = []
    for labels, stmts in groups:
        k = classify(stmts)
        if k in (0, 12):
            k = 0
            unknown.append((labels, stmts))
        for l in labels:
            assert l in by_ident, "case label %s is not a registered header" % l
            assert l not in seen, "duplicate case label " + l
            seen.add(l)
            cases.append((by_ident[l], k, l))
    dk = classify(default)
    if dk != 12:
        dk = 0
    case_lines = ["  (%d, %d)%s  -- %s: %s" % (rid, k, "," if i + 1 < len(cases) else "", l, BODY_NAMES[k]) for i, (rid, k, l) in enumerate(cases)]
    facts = {}
    for name, (path, hdr, stmt) in REPLY_FACTS.items():
        try:
            facts[name] = norm(stmt) in norm(function_body(stage.read(path), hdr))
        except AssertionError:
            facts[name] = False
    text = """-- GENERATED by translate/hop_by_hop.py (do not edit): data for the C04 model.
-- registry: Http::HeaderLookupTable dumped by executing the staged code; (id, name, list, hopbyhop)
-- switchCases: (HdrType, class of the statements) for every `case` label of
--   copyOneHeaderFromClientsideRequestToUpstreamRequest (src/http.cc); classes: %s
--   0 = the statements are not the ones SquidModel/Hop/Request.lean transcribes
import SquidModel.Base.Bytes
namespace SquidModel.Gen.HopByHop

def registry : List (Nat × List UInt8 × Bool × Bool) := [
%s
]

/-- `Http::HdrType::enumEnd_` -/
def enumEnd : Nat := %d

namespace Id
%s
end Id

def switchCases : List (Nat × Nat) := [
%s
]

/-- class of the statements of the `default:` group (12 = the Connection-list filter the model transcribes, else 0) -/
def defaultBody : Nat := %d

-- statements of src/client_side_reply.cc, src/HttpHeader.cc, src/http.cc that the model transcribes are present verbatim
%s

end SquidModel.Gen.HopByHop
""" % (", ".join("%d=%s" % kv for kv in sorted(BODY_NAMES.items())), "\n".join(reg_lines), len(rows),
       "\n".join("def %s : Nat := %d" % (i, r) for i, r in sorted(by_ident.items(), key=lambda kv: kv[1])),
       "\n".join(case_lines), dk,
       "\n".join("def %s : Bool := %s" % (k, B(v)) for k, v in sorted(facts.items())))
    info = {"records": len(rows), "case_labels": len(cases), "unknown_groups": [l for l, _ in unknown], "default_known": dk == 12,
            "facts_missing": [k for k, v in facts.items() if not v]}
    return "SquidModel/Gen/HopByHop.lean", text, info
