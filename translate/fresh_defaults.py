"""Gen/FreshDefaults.lean: the configuration defaults and constants the C12 freshness model rests on.

Read from the staged source text:
  * src/cf.data.pre      DEFAULT: of minimum_expiry_time, max_stale, negative_ttl, reload_into_ims, refresh_all_ims,
                         offline_mode, vary_ignore_expire, and the shipped refresh_pattern lines (CONFIG_START block)
  * src/RefreshPattern.h the built-in rule (min, pct, max, max_stale) used when no refresh_pattern matches
  * src/refresh.cc       the FRESH_*/STALE_* reason codes and the fresh/stale split (reason < 200)
  * src/store.cc         the "Date more than 24 hours old" window of StoreEntry::timestampsSet
  * src/HttpHdrCc.h      MAX_STALE_ANY
"""
import re

UNITS = {"second": 1, "seconds": 1, "minute": 60, "minutes": 60, "hour": 3600, "hours": 3600, "day": 86400, "days": 86400,
         "week": 604800, "weeks": 604800, "fortnight": 1209600, "fortnights": 1209600, "month": 2592000, "months": 2592000,
         "year": 31557600, "years": 31557600}


def directive(text, name):
    m = re.search(r"^NAME: %s\b.*?(?=^NAME: |\Z)" % re.escape(name), text, re.S | re.M)
    if not m:
        raise RuntimeError("cf.data.pre: no directive " + name)
    return m.group(0)


def default_of(text, name):
    blk = directive(text, name)
    m = re.search(r"^DEFAULT: (.*)$", blk, re.M)
    if not m:
        raise RuntimeError("cf.data.pre: no DEFAULT for " + name)
    return m.group(1).strip()


def seconds(s):
    m = re.fullmatch(r"(-?\d+)\s+(\w+)", s)
    if not m or m.group(2) not in UNITS:
        raise RuntimeError("cannot read time value %r" % s)
    return int(m.group(1)) * UNITS[m.group(2)]


def onoff(s):
    if s not in ("on", "off"):
        raise RuntimeError("cannot read on/off value %r" % s)
    return s == "on"


def lean_bool(b):
    return "true" if b else "false"


def lean_str(s):
    return '"' + s.replace("\\", "\\\\").replace('"', '\\"') + '"'


def generate(stage):
    cf = stage.read("src/cf.data.pre")
    vals = {
        "minimumExpiryTime": seconds(default_of(cf, "minimum_expiry_time")),
        "maxStale": seconds(default_of(cf, "max_stale")),
        "negativeTtl": seconds(default_of(cf, "negative_ttl")),
    }
    flags = {
        "reloadIntoIms": onoff(default_of(cf, "reload_into_ims")),
        "refreshAllIms": onoff(default_of(cf, "refresh_all_ims")),
        "offlineMode": onoff(default_of(cf, "offline_mode")),
        "varyIgnoreExpire": onoff(default_of(cf, "vary_ignore_expire")),
    }
    if default_of(cf, "refresh_pattern") != "none":
        raise RuntimeError("refresh_pattern has a built-in DEFAULT now: revisit the model")
    blk = directive(cf, "refresh_pattern")
    m = re.search(r"^CONFIG_START\n(.*?)^CONFIG_END", blk, re.S | re.M)
    rules = []
    for line in (m.group(1).splitlines() if m else []):
        t = line.split()
        if not t or t[0] != "refresh_pattern":
            continue
        t = t[1:]
        ci = False
        if t[0] == "-i":
            ci = True
            t = t[1:]
        regex, mn, pct, mx = t[0], int(t[1]), t[2], int(t[3])
        if not pct.endswith("%"):
            raise RuntimeError("refresh_pattern percentage %r" % pct)
        # parse_refreshpattern: minutes -> seconds, both cropped to one year
        mn = min(mn, 60 * 24 * 365) * 60
        mx = min(max(mx, 0), 60 * 24 * 365) * 60
        rules.append((regex, ci, mn, int(pct[:-1]), mx, t[4:]))

    rp = stage.read("src/RefreshPattern.h")
    m = re.search(r"#define REFRESH_DEFAULT_MAX static_cast<time_t>\((\d+)\)", rp)
    c = re.search(r"min\((-?\d+)\), pct\(([\d.]+)\), max\(REFRESH_DEFAULT_MAX\),\s*next\(nullptr\),\s*max_stale\((-?\d+)\)", rp)
    if not m or not c:
        raise RuntimeError("RefreshPattern.h: constructor defaults not found")
    pct100 = float(c.group(2)) * 100
    if abs(pct100 - round(pct100)) > 1e-9:
        raise RuntimeError("built-in pct is not a whole percentage")
    builtin = (int(c.group(1)), int(round(pct100)), int(m.group(1)), int(c.group(3)))

    rf = stage.read("src/refresh.cc")
    m = re.search(r"enum \{\s*(FRESH_REQUEST_MAX_STALE_ALL.*?)\};", rf, re.S)
    if not m:
        raise RuntimeError("refresh.cc: reason code enum not found")
    codes, cur = [], -1
    for item in m.group(1).split(","):
        item = item.strip()
        if not item:
            continue
        if "=" in item:
            n, v = [x.strip() for x in item.split("=")]
            cur = int(v)
        else:
            n, cur = item, cur + 1
        codes.append((n, cur))
    m = re.search(r"return \(Config\.onoff\.offline \|\| reason < (\d+)\) \? 0 : 1;", rf)
    if not m:
        raise RuntimeError("refresh.cc: refreshCheckHTTP split not found")
    stale_from = int(m.group(1))
    m = re.search(r"if \(reason < (\w+)\)\s*/\* Does not need refresh", rf)
    if not m or dict(codes).get(m.group(1)) != stale_from:
        raise RuntimeError("refresh.cc: refreshIsCachable split changed")

    st = stage.read("src/store.cc")
    m = re.search(r"else if \(served_date < \(squid_curtime - ([\d *]+)\) \)", st)
    if not m:
        raise RuntimeError("store.cc: 24-hour Date sanity window not found")
    window = 1
    for f in m.group(1).split("*"):
        window *= int(f)

    cc = stage.read("src/HttpHdrCc.h")
    m = re.search(r"MAX_STALE_ANY\s*=\s*(0x[0-9a-fA-F]+|\d+)", cc)
    if not m:
        raise RuntimeError("HttpHdrCc.h: MAX_STALE_ANY not found")
    max_stale_any = int(m.group(1), 0)

    def camel(n):
        p = n.lower().split("_")
        return p[0] + "".join(x.capitalize() for x in p[1:])

    lines = ["-- GENERATED by translate/fresh_defaults.py from src/cf.data.pre, src/RefreshPattern.h, src/refresh.cc, src/store.cc,",
             "-- src/HttpHdrCc.h (do not edit)",
             "namespace SquidModel.Gen.FreshDefaults", "",
             "-- squid.conf defaults (cf.data.pre DEFAULT: lines), times in seconds"]
    for k, v in vals.items():
        lines.append("def %s : Int := %d" % (k, v))
    for k, v in flags.items():
        lines.append("def %s : Bool := %s" % (k, lean_bool(v)))
    lines += ["", "-- the implicit rule `DefaultRefresh` (RefreshPattern constructor): min, percent, max, max_stale",
              "def builtinMin : Int := %d" % builtin[0], "def builtinPct : Nat := %d" % builtin[1],
              "def builtinMax : Int := %d" % builtin[2], "def builtinMaxStale : Int := %d" % builtin[3], "",
              "-- refresh_pattern lines shipped in the default squid.conf: (regex, -i, min s, percent, max s, options)",
              "def shippedRules : List (String × Bool × Int × Nat × Int × List String) := ["]
    lines.append(",\n".join("  (%s, %s, %d, %d, %d, [%s])" % (lean_str(r[0]), lean_bool(r[1]), r[2], r[3], r[4], ", ".join(lean_str(o) for o in r[5])) for r in rules) + "]")
    lines += ["", "-- refreshCheck() reason codes"]
    for n, v in codes:
        lines.append("def %s : Nat := %d" % (camel(n), v))
    lines += ["/-- refreshCheckHTTP / refreshIsCachable: reasons below this value mean FRESH -/",
              "def staleFrom : Nat := %d" % stale_from, "",
              "/-- StoreEntry::timestampsSet: a Date older than this many seconds is replaced by the current time -/",
              "def dateSanityWindow : Int := %d" % window, "",
              "/-- HttpHdrCc::MAX_STALE_ANY -/", "def maxStaleAny : Int := %d" % max_stale_any, "",
              "end SquidModel.Gen.FreshDefaults", ""]
    return "SquidModel/Gen/FreshDefaults.lean", "\n".join(lines), {"rules": len(rules), "codes": len(codes), "minimum_expiry_time": vals["minimumExpiryTime"]}
