"""Scriptable ICAP server stub (RFC 3507) for end-to-end scenarios (built for C60).

One python process hosts the stub; a scenario's ICAP behaviour is plain data looked up by the scenario id embedded in the
encapsulated HTTP request line (/s<id>/...), like e2e/rig.Origin does for origin behaviour.

Service names carry what the OPTIONS reply announces:  <rq|rs>_p<N|n>_u<0|1>[_...]
    rq/rs  Methods: REQMOD / RESPMOD          p<N> Preview: N (+ Transfer-Preview: *), pn = no Preview header
    u1     Allow: 204, 206                    u0   Allow: 204
Anything after these three fields is ignored (squid.conf may use it to tell e.g. bypass=0 and bypass=1 services apart).

Behaviour of one ICAP transaction = dict
    at    'h'  act right after the ICAP header and the encapsulated HTTP header(s), reading no body byte
          'p'  act after the whole preview (its last-chunk) was read; same as 'h' when no preview was offered
          'c<n>' read the preview, send 100 Continue if the preview did not carry ieof, read n more body bytes, act
          'e'  like c but read the body to its last-chunk
    act   '204' | '200' (adapted head + chunked body) | '200n' (adapted head, null-body) | '200r' (REQMOD request satisfaction:
          an HTTP response) | '206' (adapted head + body prefix + use-original-body=uob) | 'e<code>' (ICAP status <code>,
          null-body) | 'g' (bytes that are not ICAP) | 'x' (close without a reply) | 'r' (reset without a reply) |
          '100' (a 100 Continue nobody asked for, then 204)
    head  bytes of the adapted HTTP head (200/200n/200r/206)
    body  adapted body bytes (200/200r/206)          uob   use-original-body value (206)
    chunk size of the chunks the adapted body is sent in (default: one chunk)
    cut   number of bytes of the ICAP reply after which the stub stops writing (None = whole reply)
    end   what happens after the (possibly cut) reply: 'k' keep the connection, 'c' close, 'r' reset
    seg   write segmentation: 0 = one write, n > 0 = writes of n bytes (bounded number of writes, tiny pauses between them)
    gate  name of an event the stub sets as soon as it has acted (origin/client stubs may hold back virgin bytes until then)
    trailer  bytes of an ICAP trailer block announced with Trailer:/Allow: trailers (optional)
What arrived is recorded per scenario id: records(sid) -> list of dicts (method, service, icap headers, encapsulated heads,
preview bytes, ieof, body bytes read, whether the body ended, what the stub did).
"""
import re, socket, threading, time

VERIF_SLOW = 1.0
try:
    from . import rig as _rig
    VERIF_SLOW = _rig.VERIF_SLOW
except Exception:   # stand-alone use
    pass


class _Rd:
    """buffered socket reader with a deadline per call"""

    def __init__(self, sock):
        self.s = sock
        self.buf = b""
        self.eof = False

    def _fill(self, timeout):
        if self.eof:
            return False
        self.s.settimeout(timeout)
        try:
            d = self.s.recv(65536)
        except (socket.timeout, OSError):
            return False
        if not d:
            self.eof = True
            return False
        self.buf += d
        return True

    def until(self, marker, timeout):
        t1 = time.time() + timeout
        while True:
            i = self.buf.find(marker)
            if i != -1:
                r = self.buf[:i + len(marker)]
                self.buf = self.buf[i + len(marker):]
                return r
            left = t1 - time.time()
            if left <= 0 or not self._fill(left):
                return None

    def exact(self, n, timeout):
        t1 = time.time() + timeout
        while len(self.buf) < n:
            left = t1 - time.time()
            if left <= 0 or not self._fill(left):
                return None
        r = self.buf[:n]
        self.buf = self.buf[n:]
        return r

    def some(self, n, timeout):
        """1..n bytes, or b'' on eof/timeout"""
        if not self.buf and not self._fill(timeout):
            return b""
        r = self.buf[:n]
        self.buf = self.buf[len(r):]
        return r


class _Chunks:
    """incremental reader of an ICAP (chunked) body; can stop in the middle of a chunk"""

    def __init__(self, rd, timeout):
        self.rd = rd
        self.t = timeout
        self.left = 0          # bytes left in the current chunk
        self.ended = False     # saw a last-chunk
        self.ieof = False
        self.broken = False

    def read(self, want):
        """reads until `want` more body bytes arrived (None = until the next last-chunk); returns the bytes"""
        out = bytearray()
        while not self.ended and not self.broken and (want is None or len(out) < want):
            if self.left == 0:
                line = self.rd.until(b"\r\n", self.t)
                if line is None:
                    self.broken = True
                    break
                m = re.match(rb"([0-9a-fA-F]+)\s*(;[^\r]*)?\r\n", line)
                if not m:
                    self.broken = True
                    break
                n = int(m.group(1), 16)
                if n == 0:
                    if m.group(2) and b"ieof" in m.group(2):
                        self.ieof = True
                    if self.rd.until(b"\r\n", self.t) is None:   # no trailers expected from squid
                        self.broken = True
                    self.ended = True
                    break
                self.left = n
            take = self.left if want is None else min(self.left, want - len(out))
            d = self.rd.some(take, self.t)
            if not d:
                self.broken = True
                break
            out += d
            self.left -= len(d)
            if self.left == 0:
                if self.rd.exact(2, self.t) is None:
                    self.broken = True
        return bytes(out)

    def resume(self):
        """after 100 Continue a new chunk sequence follows"""
        self.ended = False


def chunked(body, size=None, last_ext=b""):
    if size is None or size <= 0:
        size = len(body) or 1
    parts = []
    for i in range(0, len(body), size):
        part = body[i:i + size]
        parts.append(b"%x\r\n" % len(part) + part + b"\r\n")
    parts.append(b"0" + last_ext + b"\r\n\r\n")
    return b"".join(parts)


def reply_parts(method, beh, istag=b'"vf-c60-1"'):
    """(icap head, encapsulated http head, chunked body stream [+ trailer]) of the reply a behaviour asks for; None for acts without a reply"""
    act = beh.get("act", "204")
    tag = b"ISTag: " + istag + b"\r\n"
    if act == "204":
        return (b"ICAP/1.0 204 No Content\r\n" + tag + b"Encapsulated: null-body=0\r\n\r\n", b"", b"")
    if re.fullmatch(r"e\d+", act):
        return (b"ICAP/1.0 %d Scripted\r\n" % int(act[1:]) + tag + b"Encapsulated: null-body=0\r\n\r\n", b"", b"")
    if act == "g":
        return (b"HELLO THIS IS NOT ICAP\r\n\r\n", b"", b"")
    if act in ("200x", "206x"):       # a body without any encapsulated HTTP head
        bname = b"res-body" if method == "RESPMOD" else b"req-body"
        status = b"206 Partial Content" if act == "206x" else b"200 OK"
        return (b"ICAP/1.0 " + status + b"\r\n" + tag + b"Encapsulated: " + bname + b"=0\r\n\r\n", b"", chunked(beh.get("body", b""), beh.get("chunk")))
    if act in ("200", "200n", "200r", "206"):
        head = beh["head"]
        is_resp = method == "RESPMOD" or act == "200r"
        hname = b"res-hdr" if is_resp else b"req-hdr"
        bname = b"res-body" if is_resp else b"req-body"
        trailer = beh.get("trailer")
        extra = b""
        if trailer is not None:
            extra = b"Trailer: X-Vf-Trailer\r\nAllow: trailers\r\n"
        status = b"206 Partial Content" if act == "206" else b"200 OK"
        if act == "200n":
            return (b"ICAP/1.0 " + status + b"\r\n" + tag + extra + b"Encapsulated: " + hname + b"=0, null-body=%d\r\n\r\n" % len(head), head, trailer or b"")
        ext = b"; use-original-body=%d" % beh.get("uob", 0) if act == "206" else b""
        return (b"ICAP/1.0 " + status + b"\r\n" + tag + extra + b"Encapsulated: " + hname + b"=0, " + bname + b"=%d\r\n\r\n" % len(head), head,
                chunked(beh.get("body", b""), beh.get("chunk"), ext) + (trailer or b""))
    return None


def body_offset(body_len, chunk, n):
    """offset into chunked(body, chunk) right after the n-th body byte (n >= 1), or of the last-chunk when n is None"""
    size = chunk if chunk and chunk > 0 else (body_len or 1)
    pos = 0
    done = 0
    for i in range(0, body_len, size):
        part = min(size, body_len - i)
        pos += len(b"%x\r\n" % part)
        if n is not None and done + part >= n:
            return pos + (n - done)
        pos += part + 2
        done += part
    return pos


class IcapStub:
    def __init__(self, istag=b'"vf-c60-1"'):
        self.sock = socket.socket()
        self.sock.setsockopt(socket.SOL_SOCKET, socket.SO_REUSEADDR, 1)
        self.sock.bind(("127.0.0.1", 0))
        self.sock.listen(256)
        self.port = self.sock.getsockname()[1]
        self.istag = istag
        self.behav = {}
        self.seen = {}
        self.events = {}
        self.options_seen = []
        self.lock = threading.Lock()
        self.running = True
        self.T = 8.0 * VERIF_SLOW
        threading.Thread(target=self._accept, daemon=True).start()

    # ---- scenario interface
    def uri(self, service):
        return "icap://127.0.0.1:%d/%s" % (self.port, service)

    def on(self, sid, beh):
        self.behav[str(sid)] = beh

    def records(self, sid):
        with self.lock:
            return list(self.seen.get(str(sid), []))

    def event(self, name):
        with self.lock:
            if name not in self.events:
                self.events[name] = threading.Event()
            return self.events[name]

    def forget(self, sid):
        with self.lock:
            self.behav.pop(str(sid), None)
            self.seen.pop(str(sid), None)

    def close(self):
        self.running = False
        try:
            self.sock.close()
        except OSError:
            pass

    # ---- server
    def _accept(self):
        while self.running:
            try:
                c, _ = self.sock.accept()
            except OSError:
                return
            c.setsockopt(socket.IPPROTO_TCP, socket.TCP_NODELAY, 1)
            threading.Thread(target=self._serve, args=(c,), daemon=True).start()

    @staticmethod
    def service_info(name):
        m = re.match(r"(rq|rs)_p(n|\d+)_u([01])", name)
        if not m:
            return None
        return {"method": "REQMOD" if m.group(1) == "rq" else "RESPMOD", "preview": None if m.group(2) == "n" else int(m.group(2)),
                "allow206": m.group(3) == "1"}

    def _options(self, c, service):
        info = self.service_info(service)
        if info is None:
            c.sendall(b"ICAP/1.0 404 ICAP Service not found\r\nISTag: " + self.istag + b"\r\nEncapsulated: null-body=0\r\n\r\n")
            return
        h = [b"ICAP/1.0 200 OK", b"Methods: " + info["method"].encode(), b"Service: verif-icap-stub", b"ISTag: " + self.istag,
             b"Options-TTL: 36000", b"Allow: 204" + (b", 206" if info["allow206"] else b"")]
        if info["preview"] is not None:
            h += [b"Preview: %d" % info["preview"], b"Transfer-Preview: *"]
        h += [b"Encapsulated: null-body=0", b"", b""]
        c.sendall(b"\r\n".join(h))

    def _serve(self, c):
        rd = _Rd(c)
        try:
            while True:
                head = rd.until(b"\r\n\r\n", 60.0)
                if head is None:
                    return
                lines = head.split(b"\r\n")
                m = re.match(rb"(\S+) icap://[^/]+/(\S*) ICAP/1\.0", lines[0])
                if not m:
                    c.sendall(b"ICAP/1.0 400 Bad request\r\nEncapsulated: null-body=0\r\n\r\n")
                    return
                method, service = m.group(1).decode(), m.group(2).decode("latin-1")
                hdrs = {}
                for l in lines[1:]:
                    if b":" in l:
                        n, v = l.split(b":", 1)
                        hdrs[n.strip().lower().decode("latin-1")] = v.strip().decode("latin-1")
                if method == "OPTIONS":
                    with self.lock:
                        self.options_seen.append(service)
                    self._options(c, service)
                    continue
                if not self._transaction(c, rd, method, service, hdrs):
                    return
        except OSError:
            pass
        finally:
            try:
                c.close()
            except OSError:
                pass

    def _transaction(self, c, rd, method, service, hdrs):
        """-> True when the connection may serve another request"""
        enc = [(a.strip().split("=")[0], int(a.strip().split("=")[1])) for a in hdrs.get("encapsulated", "null-body=0").split(",")]
        body_off = enc[-1][1]
        has_body = enc[-1][0] != "null-body"
        http = rd.exact(body_off, self.T)
        if http is None:
            return False
        parts = {}
        for i, (name, off) in enumerate(enc[:-1]):
            parts[name] = http[off:enc[i + 1][1]]
        m = re.search(rb"/s([A-Za-z0-9]+)/", parts.get("req-hdr", b"").split(b"\r\n")[0])
        sid = m.group(1).decode() if m else "?"
        preview = int(hdrs["preview"]) if "preview" in hdrs else None
        rec = {"sid": sid, "method": method, "service": service, "hdrs": hdrs, "parts": parts, "has_body": has_body, "preview_offered": preview,
               "preview": b"", "ieof": False, "rest": b"", "ended": False, "did": [], "allow": hdrs.get("allow", "")}
        with self.lock:
            self.seen.setdefault(sid, []).append(rec)
        beh = self.behav.get(sid) or {"at": "e", "act": "204", "end": "k"}
        gate = beh.get("gate")
        ch = _Chunks(rd, self.T)
        try:
            at = beh.get("at", "e")
            if has_body and at != "h":
                if preview is not None:
                    rec["preview"] = ch.read(None)
                    rec["ieof"] = ch.ieof
                    if ch.broken:
                        rec["did"].append("preview-broken")
                        return False
                if at != "p":
                    if preview is not None and not ch.ieof:
                        c.sendall(b"ICAP/1.0 100 Continue\r\n\r\n")
                        rec["did"].append("100")
                        ch.resume()
                    if preview is None or not ch.ieof:
                        want = None if at == "e" else int(at[1:])
                        rec["rest"] = ch.read(want)
                        if ch.broken:
                            rec["did"].append("body-broken")
                            rec["ended"] = False
                            return False
                rec["ended"] = ch.ended
            elif not has_body:
                rec["ended"] = True
            keep = self._act(c, rec, beh)
        finally:
            if gate:
                # give squid a moment to digest the reply before the held-back virgin bytes start to flow
                time.sleep(0.03 * VERIF_SLOW)
                self.event(gate).set()
        if keep == "fin":
            self._fin(c)
            return False
        if not keep:
            return False
        # drain what squid still sends for this transaction so that the connection can be reused
        if has_body and not ch.ended:
            rec["rest"] += ch.read(None)
            rec["ended"] = ch.ended
            if ch.broken:
                return False
        return True

    def _reply_bytes(self, rec, beh):
        parts = reply_parts(rec["method"], beh, self.istag)
        return None if parts is None else b"".join(parts)

    def _act(self, c, rec, beh):
        act = beh.get("act", "204")
        if act == "x":
            rec["did"].append("close")
            self._half_close(c)
            return "fin"
        if act == "r":
            rec["did"].append("reset")
            self._reset(c)
            return False
        if act == "100":
            c.sendall(b"ICAP/1.0 100 Continue\r\n\r\n")
            rec["did"].append("stray-100")
            act = "204"
            beh = dict(beh, act="204")
        wire = self._reply_bytes(rec, beh)
        if wire is None:
            rec["did"].append("bad-act")
            return False
        cut = beh.get("cut")
        if cut is not None:
            wire = wire[:cut]
        seg = beh.get("seg", 0)
        gate = beh.get("gate")
        rec["did"].append(act + ("/cut%d" % cut if cut is not None else ""))
        try:
            if seg and seg > 0 and len(wire) > seg:
                n = 0
                pos = 0
                while pos < len(wire):
                    step = seg if n < 64 else len(wire) - pos
                    c.sendall(wire[pos:pos + step])
                    pos += step
                    n += 1
                    time.sleep(0.002)
            elif gate and len(wire) > 16384:
                # a long reply: the decisive part first, then let the held-back virgin bytes flow (a client that waits for the gate
                # does not read, and squid would stop reading us)
                c.sendall(wire[:8192])
                time.sleep(0.03 * VERIF_SLOW)
                self.event(gate).set()
                c.sendall(wire[8192:])
            else:
                c.sendall(wire)
        except OSError:
            rec["did"].append("send-failed")
            return False
        end = beh.get("end", "k")
        if end == "r":
            self._reset(c)
            return False
        if end == "c" or cut is not None:
            self._half_close(c)
            return "fin"
        return True

    @staticmethod
    def _half_close(c):
        try:
            c.shutdown(socket.SHUT_WR)
        except OSError:
            pass

    def _fin(self, c):
        """orderly close: FIN was sent (_half_close), now discard what the peer still sends (closing with unread data would turn the FIN into a RST)"""
        try:
            c.settimeout(self.T)
            while c.recv(65536):
                pass
        except OSError:
            pass

    @staticmethod
    def _reset(c):
        try:
            c.setsockopt(socket.SOL_SOCKET, socket.SO_LINGER, b"\x01\x00\x00\x00\x00\x00\x00\x00")
            c.close()
        except OSError:
            pass
