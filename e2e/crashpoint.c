/*
 * LD_PRELOAD fault injector for the C16 crash-consistency check.
 *
 * Every operation that changes a file below $CRASHPOINT_DIR is an *event*: write/pwrite/pwrite64/writev/pwritev ("W"),
 * unlink/remove ("U"), rename ("R"), truncate/ftruncate ("F") and open/openat with O_TRUNC of an existing non-empty file ("T").
 * Events are numbered 1, 2, ... by a counter shared by all processes of the squid instance (a 64-byte file, $CRASHPOINT_STATE,
 * mapped MAP_SHARED), so that helper processes (unlinkd, diskd) and I/O threads take part in the same numbering.
 *
 *   CRASHPOINT_AT=N      the whole process group is SIGKILLed when event N is about to happen (events 1..N-1 are on disk,
 *                        event N is not) ...
 *   CRASHPOINT_TORN=k    ... unless event N is a write and k > 0: then the first min(k, len-1) bytes of it are written first
 *                        (a torn write: a byte prefix of the new data over the old content)
 *   CRASHPOINT_LOG=path  every event is appended as one line: <n> <pid> <kind> <path relative to the dir> <offset> <length> <hex of the first 160 bytes>
 *   CRASHPOINT_META=0    count only the write family
 *
 * Nothing in the squid source is touched.
 */
#define _GNU_SOURCE
#include <dlfcn.h>
#include <errno.h>
#include <fcntl.h>
#include <signal.h>
#include <stdarg.h>
#include <stdint.h>
#include <stdio.h>
#include <stdlib.h>
#include <string.h>
#include <sys/mman.h>
#include <sys/stat.h>
#include <sys/types.h>
#include <sys/uio.h>
#include <unistd.h>

static ssize_t (*real_write)(int, const void *, size_t);
static ssize_t (*real_pwrite)(int, const void *, size_t, off_t);
static ssize_t (*real_pwrite64)(int, const void *, size_t, off64_t);
static ssize_t (*real_writev)(int, const struct iovec *, int);
static ssize_t (*real_pwritev)(int, const struct iovec *, int, off_t);
static int (*real_unlink)(const char *);
static int (*real_remove)(const char *);
static int (*real_rename)(const char *, const char *);
static int (*real_truncate)(const char *, off_t);
static int (*real_ftruncate)(int, off_t);
static int (*real_open)(const char *, int, ...);
static int (*real_open64)(const char *, int, ...);

static char dirPrefix[4096];
static size_t dirLen;
static volatile uint64_t *counter;
static uint64_t crashAt;
static long tornBytes;
static int logFd = -1;
static int countMeta = 1;
static int ready;
static pid_t readyPid;

static void
init(void)
{
    if (ready)
        return;
    ready = 1;
    readyPid = getpid();
    real_write = dlsym(RTLD_NEXT, "write");
    real_pwrite = dlsym(RTLD_NEXT, "pwrite");
    real_pwrite64 = dlsym(RTLD_NEXT, "pwrite64");
    real_writev = dlsym(RTLD_NEXT, "writev");
    real_pwritev = dlsym(RTLD_NEXT, "pwritev");
    real_unlink = dlsym(RTLD_NEXT, "unlink");
    real_remove = dlsym(RTLD_NEXT, "remove");
    real_rename = dlsym(RTLD_NEXT, "rename");
    real_truncate = dlsym(RTLD_NEXT, "truncate");
    real_ftruncate = dlsym(RTLD_NEXT, "ftruncate");
    real_open = dlsym(RTLD_NEXT, "open");
    real_open64 = dlsym(RTLD_NEXT, "open64");
    const char *d = getenv("CRASHPOINT_DIR");
    const char *s = getenv("CRASHPOINT_STATE");
    if (!d || !s || !*d)
        return;
    if (!realpath(d, dirPrefix))
        snprintf(dirPrefix, sizeof(dirPrefix), "%s", d);
    dirLen = strlen(dirPrefix);
    int fd = real_open(s, O_RDWR);
    if (fd < 0)
        return;
    void *m = mmap(NULL, 64, PROT_READ | PROT_WRITE, MAP_SHARED, fd, 0);
    close(fd);
    if (m == MAP_FAILED)
        return;
    counter = (volatile uint64_t *)m;
    const char *a = getenv("CRASHPOINT_AT");
    crashAt = a ? strtoull(a, NULL, 10) : 0;
    const char *t = getenv("CRASHPOINT_TORN");
    tornBytes = t ? strtol(t, NULL, 10) : 0;
    const char *mt = getenv("CRASHPOINT_META");
    if (mt && *mt == '0')
        countMeta = 0;
    const char *l = getenv("CRASHPOINT_LOG");
    if (l && *l) {
        int lf = real_open(l, O_WRONLY | O_APPEND);
        if (lf >= 0) {
            /* keep the log away from the descriptors squid is going to use and close on exec */
            logFd = fcntl(lf, F_DUPFD_CLOEXEC, 900);
            if (logFd < 0)
                logFd = lf;
            else
                close(lf);
        }
    }
}

__attribute__((constructor)) static void
ctor(void)
{
    init();
}

/* path (relative to the directory) of a watched file, or NULL */
static const char *
watchedPath(const char *path, char *buf, size_t bufLen)
{
    if (!counter || !path)
        return NULL;
    char abs[4096];
    if (path[0] != '/') {
        char cwd[2048];
        if (!getcwd(cwd, sizeof(cwd)))
            return NULL;
        snprintf(abs, sizeof(abs), "%s/%s", cwd, path);
        path = abs;
    }
    if (strncmp(path, dirPrefix, dirLen) != 0 || (path[dirLen] != '/' && path[dirLen] != 0))
        return NULL;
    snprintf(buf, bufLen, "%s", path[dirLen] ? path + dirLen + 1 : ".");
    return buf;
}

static const char *
watchedFd(int fd, char *buf, size_t bufLen)
{
    if (!counter || fd < 0)
        return NULL;
    char link[64], target[4096];
    snprintf(link, sizeof(link), "/proc/self/fd/%d", fd);
    ssize_t n = readlink(link, target, sizeof(target) - 1);
    if (n <= 0)
        return NULL;
    target[n] = 0;
    if (target[0] != '/')
        return NULL;
    return watchedPath(target, buf, bufLen);
}

static void
die(void)
{
    kill(0, SIGKILL);      /* the whole process group: squid -N and its helpers */
    kill(getpid(), SIGKILL);
    _exit(137);
}

static void
logEvent(uint64_t n, char kind, const char *rel, long long off, long long len, const unsigned char *data, size_t dataLen)
{
    if (logFd < 0)
        return;
    char line[1024];
    int p = snprintf(line, sizeof(line), "%llu %d %c %s %lld %lld ", (unsigned long long)n, (int)getpid(), kind, rel, off, len);
    size_t k = dataLen < 160 ? dataLen : 160;
    if (!k)
        line[p++] = '-';
    for (size_t i = 0; i < k && p < (int)sizeof(line) - 4; ++i)
        p += snprintf(line + p, sizeof(line) - p, "%02x", data[i]);
    line[p++] = '\n';
    real_write(logFd, line, p);
}

/* -> 0 go ahead; -1 die now; k > 0: write k bytes, then die */
static long
event(char kind, const char *rel, long long off, long long len, const unsigned char *data, size_t dataLen)
{
    const uint64_t n = __atomic_add_fetch(counter, 1, __ATOMIC_SEQ_CST);
    if (crashAt && n > crashAt) {
        /* another thread is dying at the crash point: nothing after it may reach the disk */
        for (;;)
            pause();
    }
    if (crashAt && n == crashAt) {
        if (kind == 'W' && tornBytes > 0 && len > 1) {
            long k = tornBytes < len ? tornBytes : len - 1;
            logEvent(n, 'P', rel, off, k, data, (size_t)k < dataLen ? (size_t)k : dataLen);
            return k;
        }
        logEvent(n, 'K', rel, off, len, NULL, 0);
        return -1;
    }
    logEvent(n, kind, rel, off, len, data, dataLen);
    return 0;
}

ssize_t
write(int fd, const void *buf, size_t len)
{
    init();
    const int savedErrno = errno;
    char rel[4096];
    if (watchedFd(fd, rel, sizeof(rel))) {
        off_t off = lseek(fd, 0, SEEK_CUR);
        if (fcntl(fd, F_GETFL) & O_APPEND) {
            struct stat sb;
            if (fstat(fd, &sb) == 0)
                off = sb.st_size;
        }
        const long k = event('W', rel, (long long)off, (long long)len, buf, len);
        if (k < 0)
            die();
        if (k > 0) {
            real_write(fd, buf, (size_t)k);
            die();
        }
    }
    errno = savedErrno;
    return real_write(fd, buf, len);
}

ssize_t
pwrite(int fd, const void *buf, size_t len, off_t off)
{
    init();
    const int savedErrno = errno;
    char rel[4096];
    if (watchedFd(fd, rel, sizeof(rel))) {
        const long k = event('W', rel, (long long)off, (long long)len, buf, len);
        if (k < 0)
            die();
        if (k > 0) {
            real_pwrite(fd, buf, (size_t)k, off);
            die();
        }
    }
    errno = savedErrno;
    return real_pwrite(fd, buf, len, off);
}

ssize_t
pwrite64(int fd, const void *buf, size_t len, off64_t off)
{
    init();
    const int savedErrno = errno;
    char rel[4096];
    if (watchedFd(fd, rel, sizeof(rel))) {
        const long k = event('W', rel, (long long)off, (long long)len, buf, len);
        if (k < 0)
            die();
        if (k > 0) {
            real_pwrite64(fd, buf, (size_t)k, off);
            die();
        }
    }
    errno = savedErrno;
    return real_pwrite64(fd, buf, len, off);
}

static size_t
iovTotal(const struct iovec *iov, int cnt)
{
    size_t t = 0;
    for (int i = 0; i < cnt; ++i)
        t += iov[i].iov_len;
    return t;
}

/* the first k bytes of an iovec array written one piece at a time */
static void
tornV(int fd, const struct iovec *iov, int cnt, long k, int positioned, off_t off)
{
    for (int i = 0; i < cnt && k > 0; ++i) {
        size_t n = iov[i].iov_len < (size_t)k ? iov[i].iov_len : (size_t)k;
        if (positioned) {
            real_pwrite(fd, iov[i].iov_base, n, off);
            off += n;
        } else
            real_write(fd, iov[i].iov_base, n);
        k -= (long)n;
    }
}

ssize_t
writev(int fd, const struct iovec *iov, int cnt)
{
    init();
    const int savedErrno = errno;
    char rel[4096];
    if (watchedFd(fd, rel, sizeof(rel))) {
        const off_t off = lseek(fd, 0, SEEK_CUR);
        const long k = event('W', rel, (long long)off, (long long)iovTotal(iov, cnt), cnt > 0 ? iov[0].iov_base : NULL, cnt > 0 ? iov[0].iov_len : 0);
        if (k < 0)
            die();
        if (k > 0) {
            tornV(fd, iov, cnt, k, 0, 0);
            die();
        }
    }
    errno = savedErrno;
    return real_writev(fd, iov, cnt);
}

ssize_t
pwritev(int fd, const struct iovec *iov, int cnt, off_t off)
{
    init();
    const int savedErrno = errno;
    char rel[4096];
    if (watchedFd(fd, rel, sizeof(rel))) {
        const long k = event('W', rel, (long long)off, (long long)iovTotal(iov, cnt), cnt > 0 ? iov[0].iov_base : NULL, cnt > 0 ? iov[0].iov_len : 0);
        if (k < 0)
            die();
        if (k > 0) {
            tornV(fd, iov, cnt, k, 1, off);
            die();
        }
    }
    errno = savedErrno;
    return real_pwritev(fd, iov, cnt, off);
}

int
unlink(const char *path)
{
    init();
    const int savedErrno = errno;
    char rel[4096];
    if (countMeta && watchedPath(path, rel, sizeof(rel))) {
        struct stat sb;
        if (stat(path, &sb) == 0 && event('U', rel, 0, (long long)sb.st_size, NULL, 0) != 0)
            die();
    }
    errno = savedErrno;
    return real_unlink(path);
}

/* unlinkd removes files with remove(3) */
int
remove(const char *path)
{
    init();
    const int savedErrno = errno;
    char rel[4096];
    if (countMeta && watchedPath(path, rel, sizeof(rel))) {
        struct stat sb;
        if (stat(path, &sb) == 0 && S_ISREG(sb.st_mode) && event('U', rel, 0, (long long)sb.st_size, NULL, 0) != 0)
            die();
    }
    errno = savedErrno;
    return real_remove(path);
}

int
rename(const char *from, const char *to)
{
    init();
    const int savedErrno = errno;
    char rel[4096];
    if (countMeta && watchedPath(to, rel, sizeof(rel))) {
        if (event('R', rel, 0, 0, (const unsigned char *)from, strlen(from)) != 0)
            die();
    }
    errno = savedErrno;
    return real_rename(from, to);
}

int
truncate(const char *path, off_t len)
{
    init();
    const int savedErrno = errno;
    char rel[4096];
    if (countMeta && watchedPath(path, rel, sizeof(rel))) {
        if (event('F', rel, (long long)len, 0, NULL, 0) != 0)
            die();
    }
    errno = savedErrno;
    return real_truncate(path, len);
}

int
ftruncate(int fd, off_t len)
{
    init();
    const int savedErrno = errno;
    char rel[4096];
    if (countMeta && watchedFd(fd, rel, sizeof(rel))) {
        if (event('F', rel, (long long)len, 0, NULL, 0) != 0)
            die();
    }
    errno = savedErrno;
    return real_ftruncate(fd, len);
}

static void
truncatingOpen(const char *path, int flags)
{
    char rel[4096];
    if (countMeta && (flags & O_TRUNC) && (flags & (O_WRONLY | O_RDWR)) && watchedPath(path, rel, sizeof(rel))) {
        struct stat sb;
        if (stat(path, &sb) == 0 && sb.st_size > 0) {
            if (event('T', rel, 0, (long long)sb.st_size, NULL, 0) != 0)
                die();
        }
    }
}

int
open(const char *path, int flags, ...)
{
    init();
    const int savedErrno = errno;
    mode_t mode = 0;
    if (flags & (O_CREAT | O_TMPFILE)) {
        va_list ap;
        va_start(ap, flags);
        mode = va_arg(ap, mode_t);
        va_end(ap);
    }
    truncatingOpen(path, flags);
    errno = savedErrno;
    return real_open(path, flags, mode);
}

int
open64(const char *path, int flags, ...)
{
    init();
    const int savedErrno = errno;
    mode_t mode = 0;
    if (flags & (O_CREAT | O_TMPFILE)) {
        va_list ap;
        va_start(ap, flags);
        mode = va_arg(ap, mode_t);
        va_end(ap);
    }
    truncatingOpen(path, flags);
    errno = savedErrno;
    return real_open64(path, flags, mode);
}
