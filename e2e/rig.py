"""End-to-end rig: the staged squid binary on loopback, a scriptable origin, raw clients.

One python process hosts the origin stub (threads) and drives the clients, so a scenario's origin behaviour is plain data
looked up by the scenario id embedded in the request path (/s<id>/...). Everything is replayable from the scenario alone.
"""
import os, re, socket, subprocess, threading, time, signal, shutil, glob, json, select, hashlib

VERIF_SLOW = float(os.environ.get("VERIF_SLOW", "1"))
_counter = [0]
_lock = threading.Lock()


def free_port():
    s = socket.socket()
    s.bind(("127.0.0.1", 0))
    p = s.getsockname()[1]
    s.close()
    return p


def date_now(offset=0):
    return time.strftime("%a, %d %b %Y %H:%M:%S GMT", time.gmtime(time.time() + offset))


def _child_setup():
    """own process group + die with the harness (no orphaned squids when a check is killed)"""
    os.setsid()
    try:
        import ctypes
        ctypes.CDLL("libc.so.6", use_errno=True).prctl(1, signal.SIGKILL)   # PR_SET_PDEATHSIG
    except Exception:
        pass


class Squid:
    """squid -N from the stage with a generated config."""

    BASE = """http_port 127.0.0.1:{port}
cache_effective_user nobody
cache_effective_group nogroup
pid_filename {dir}/squid.pid
cache_log {dir}/cache.log
access_log stdio:{dir}/access.log {logformat}
coredump_dir {dir}
mime_table {repo}/src/mime.conf.default
icon_directory {repo}/icons/silk
error_directory {repo}/errors/templates
unlinkd_program {repo}/src/unlinkd
logfile_daemon {repo}/src/log/file/log_file_daemon
pinger_enable off
shutdown_lifetime 0 seconds
visible_hostname verif.squid.test
dns_v4_first on
"""

    def __init__(self, stage, conf="", access="http_access allow all\n", logformat="squid", workers=None, env=None):
        with _lock:
            _counter[0] += 1
            k = _counter[0]
        self.stage = stage
        self.name = "vf%dx%d" % (os.getpid(), k)
        self.dir = os.path.join(stage.work, "sq-" + self.name)
        os.makedirs(self.dir, exist_ok=True)
        os.chmod(self.dir, 0o777)
        os.chmod(stage.work, 0o755)
        os.chmod(stage.dir, 0o755)
        self.port = free_port()
        text = self.BASE.format(port=self.port, dir=self.dir, repo=stage.repo, logformat=logformat)
        text += conf.replace("{dir}", self.dir).replace("{repo}", stage.repo) + "\n" + access
        self.conf_path = os.path.join(self.dir, "squid.conf")
        with open(self.conf_path, "w") as f:
            f.write(text)
        self.env = dict(os.environ)
        self.env.update({"LC_ALL": "C", "TZ": "UTC"})
        if env:
            self.env.update(env)
        self.proc = None
        self.workers = workers

    def binary(self):
        return os.path.join(self.stage.repo, "src", "squid")

    def init_dirs(self):
        """squid -z for disk caches"""
        r = subprocess.run([self.binary(), "-N", "-n", self.name, "-f", self.conf_path, "-z"], env=self.env, capture_output=True, text=True, timeout=60)
        return r

    def start(self, wait=10.0):
        self._rm_shm()
        args = [self.binary(), "-n", self.name, "-f", self.conf_path, "-d1"]
        if not self.workers:
            args.insert(1, "-N")
        else:
            args.insert(1, "--foreground")
        self.errlog = open(os.path.join(self.dir, "stderr.log"), "ab")
        self.proc = subprocess.Popen(args, env=self.env, stdout=self.errlog, stderr=self.errlog, preexec_fn=_child_setup)
        self._watchdog(self.proc.pid)
        t0 = time.time()
        while time.time() - t0 < wait * VERIF_SLOW:
            if self.proc.poll() is not None:
                raise RuntimeError("squid exited at start rc=%s: %s %s" % (self.proc.returncode, self.cache_log()[-1500:], open(os.path.join(self.dir, "stderr.log"), errors="replace").read()[-1500:]))
            # readiness from the log, not by connecting: a probe connection would itself be a logged transaction
            if "Accepting HTTP Socket connections" in self.cache_log():
                return self
            time.sleep(0.02)
        raise RuntimeError("squid did not start: " + self.cache_log()[-1500:])

    @staticmethod
    def _watchdog(squid_pid):
        """a tiny forked child that kills squid's process group when the harness process disappears (squid drops privileges, which
        clears PR_SET_PDEATHSIG, so this is the only reliable way not to leak instances when a check is killed)"""
        parent = os.getpid()
        pid = os.fork()
        if pid:
            return
        try:
            os.setsid()
            while True:
                time.sleep(1.0)
                try:
                    os.kill(squid_pid, 0)
                except OSError:
                    os._exit(0)
                if os.getppid() != parent:
                    try:
                        os.killpg(squid_pid, signal.SIGKILL)
                    except OSError:
                        pass
                    os._exit(0)
        finally:
            os._exit(0)

    def alive(self):
        return self.proc is not None and self.proc.poll() is None

    def pid(self):
        return self.proc.pid

    def stop(self, kill=False, wait=8.0):
        if self.proc is None:
            return None
        if self.proc.poll() is None:
            try:
                os.killpg(self.proc.pid, signal.SIGKILL if kill else signal.SIGTERM)
            except ProcessLookupError:
                pass
            try:
                self.proc.wait(timeout=wait)
            except subprocess.TimeoutExpired:
                try:
                    os.killpg(self.proc.pid, signal.SIGKILL)
                except ProcessLookupError:
                    pass
                self.proc.wait()
        rc = self.proc.returncode
        try:
            os.killpg(self.proc.pid, signal.SIGKILL)
        except (ProcessLookupError, PermissionError):
            pass
        self.proc = None
        self._rm_shm()
        return rc

    def _rm_shm(self):
        for f in glob.glob("/dev/shm/%s-*" % self.name) + glob.glob("/dev/shm/squid-%s*" % self.name):
            try:
                os.unlink(f)
            except OSError:
                pass

    def cache_log(self):
        try:
            return open(os.path.join(self.dir, "cache.log"), errors="replace").read()
        except OSError:
            return ""

    def access_log(self):
        try:
            return open(os.path.join(self.dir, "access.log"), errors="replace").read()
        except OSError:
            return ""

    def problems(self):
        """assertion failures / FATAL / sanitizer reports in cache.log and stderr"""
        text = self.cache_log()
        try:
            text += open(os.path.join(self.dir, "stderr.log"), errors="replace").read()
        except OSError:
            pass
        return re.findall(r"(assertion failed[^\n]*|FATAL[^\n]*|ERROR: AddressSanitizer[^\n]*|runtime error:[^\n]*|BUG[^\n]*)", text)

    def fd_count(self):
        try:
            return len(os.listdir("/proc/%d/fd" % self.proc.pid))
        except OSError:
            return -1

    def __enter__(self):
        return self.start()

    def __exit__(self, *a):
        self.stop()


# ---------------------------------------------------------------------------------------------- origin

def read_head(sock, buf=b"", timeout=10.0):
    """-> (head bytes incl. terminator, rest) or (None, buf) on EOF/timeout"""
    sock.settimeout(timeout * VERIF_SLOW)
    while True:
        i = buf.find(b"\r\n\r\n")
        if i != -1:
            return buf[:i + 4], buf[i + 4:]
        try:
            d = sock.recv(65536)
        except (socket.timeout, OSError):
            return None, buf
        if not d:
            return None, buf
        buf += d


def parse_head(head):
    lines = head.split(b"\r\n")
    first = lines[0]
    hdrs = []
    for l in lines[1:]:
        if not l:
            continue
        if b":" in l:
            n, v = l.split(b":", 1)
            hdrs.append((n.strip().lower().decode("latin-1"), v.strip().decode("latin-1")))
    return first.decode("latin-1"), hdrs


def hget(hdrs, name, default=None):
    for n, v in hdrs:
        if n == name:
            return v
    return default


def hall(hdrs, name):
    return [v for n, v in hdrs if n == name]


def read_body(sock, hdrs, rest, timeout=10.0, is_response=False, head_request=False, status=200):
    """Strict reader of one message body -> (body, rest, complete, framing). Dechunks."""
    sock.settimeout(timeout * VERIF_SLOW)
    te = hget(hdrs, "transfer-encoding")
    cl = hget(hdrs, "content-length")
    if is_response and (head_request or status // 100 == 1 or status in (204, 304)):
        return b"", rest, True, "none"
    if te and "chunked" in te.lower():
        body = b""
        buf = rest
        raw = b""
        while True:
            while b"\r\n" not in buf:
                try:
                    d = sock.recv(65536)
                except (socket.timeout, OSError):
                    d = b""
                if not d:
                    return body, b"", False, "chunked"
                buf += d
            line, buf = buf.split(b"\r\n", 1)
            try:
                n = int(line.split(b";")[0].strip(), 16)
            except ValueError:
                return body, buf, False, "chunked-bad"
            if n == 0:
                # trailers until blank line
                while True:
                    while b"\r\n" not in buf:
                        try:
                            d = sock.recv(65536)
                        except (socket.timeout, OSError):
                            d = b""
                        if not d:
                            return body, b"", False, "chunked"
                        buf += d
                    tl, buf = buf.split(b"\r\n", 1)
                    if tl == b"":
                        return body, buf, True, "chunked"
            while len(buf) < n + 2:
                try:
                    d = sock.recv(65536)
                except (socket.timeout, OSError):
                    d = b""
                if not d:
                    return body + buf[:n], b"", False, "chunked"
                buf += d
            body += buf[:n]
            if buf[n:n + 2] != b"\r\n":
                return body, buf[n:], False, "chunked-bad"
            buf = buf[n + 2:]
    if cl is not None:
        try:
            n = int(cl)
        except ValueError:
            return b"", rest, False, "cl-bad"
        buf = rest
        while len(buf) < n:
            try:
                d = sock.recv(65536)
            except (socket.timeout, OSError):
                d = b""
            if not d:
                return buf, b"", False, "cl"
            buf += d
        return buf[:n], buf[n:], True, "cl"
    if is_response:
        buf = rest
        while True:
            try:
                d = sock.recv(65536)
            except socket.timeout:
                return buf, b"", False, "close-timeout"
            except OSError:
                return buf, b"", False, "close-reset"
            if not d:
                return buf, b"", True, "close"
            buf += d
    return b"", rest, True, "none"


class Origin:
    """Scriptable origin. handler(req) -> list of actions; default 200 with a small body.

    req = dict(sid, n (arrival index for this sid), first, hdrs, body, body_complete, conn)
    actions: ("send", bytes) ("sleep", seconds) ("close",) ("reset",) ("halfclose",) ("wait_event", name) ("set_event", name)
    The connection stays open for further requests unless an action closes it.
    """

    def __init__(self):
        self.sock = socket.socket()
        self.sock.setsockopt(socket.SOL_SOCKET, socket.SO_REUSEADDR, 1)
        self.sock.bind(("127.0.0.1", 0))
        self.sock.listen(256)
        self.port = self.sock.getsockname()[1]
        self.handlers = {}
        self.seen = {}      # sid -> list of req dicts
        self.events = {}
        self.lock = threading.Lock()
        self.running = True
        self.conns = 0
        self.th = threading.Thread(target=self._accept, daemon=True)
        self.th.start()

    def event(self, name):
        with self.lock:
            if name not in self.events:
                self.events[name] = threading.Event()
            return self.events[name]

    def url(self, sid, path=""):
        return "http://127.0.0.1:%d/s%s/%s" % (self.port, sid, path)

    def on(self, sid, handler):
        self.handlers[str(sid)] = handler

    def requests(self, sid):
        with self.lock:
            return list(self.seen.get(str(sid), []))

    def _accept(self):
        while self.running:
            try:
                c, _ = self.sock.accept()
            except OSError:
                return
            with self.lock:
                self.conns += 1
                k = self.conns
            threading.Thread(target=self._serve, args=(c, k), daemon=True).start()

    def _serve(self, c, connid):
        rest = b""
        try:
            while True:
                head, rest = read_head(c, rest, timeout=30)
                if head is None:
                    break
                first, hdrs = parse_head(head)
                m = re.search(r"/s([A-Za-z0-9_]+)/", first)
                sid = m.group(1) if m else "?"
                body, rest, complete, framing = read_body(c, hdrs, rest)
                with self.lock:
                    lst = self.seen.setdefault(sid, [])
                    req = {"sid": sid, "n": len(lst), "first": first, "hdrs": hdrs, "body": body, "body_complete": complete,
                           "framing": framing, "conn": connid, "raw_head": head, "t": time.time()}
                    lst.append(req)
                h = self.handlers.get(sid)
                actions = h(req) if h else [("send", simple_response(200, b"default"))]
                keep = True   # persistent by default; ("close",) / ("reset",) / ("nokeep",) end the connection
                for a in actions:
                    if a[0] == "send":
                        c.sendall(a[1])
                    elif a[0] == "sleep":
                        time.sleep(a[1] * VERIF_SLOW)
                    elif a[0] == "close":
                        c.close()
                        return
                    elif a[0] == "reset":
                        c.setsockopt(socket.SOL_SOCKET, socket.SO_LINGER, b"\x01\x00\x00\x00\x00\x00\x00\x00")
                        c.close()
                        return
                    elif a[0] == "halfclose":
                        c.shutdown(socket.SHUT_WR)
                    elif a[0] == "wait_event":
                        self.event(a[1]).wait(timeout=(a[2] if len(a) > 2 else 10) * VERIF_SLOW)
                    elif a[0] == "set_event":
                        self.event(a[1]).set()
                    elif a[0] == "keep":
                        keep = True
                    elif a[0] == "nokeep":
                        keep = False
                if not keep:
                    break
        except OSError:
            pass
        finally:
            try:
                c.close()
            except OSError:
                pass

    def close(self):
        self.running = False
        try:
            self.sock.close()
        except OSError:
            pass


def simple_response(status, body, headers=(), reason=None, date=True, version="HTTP/1.1", cl=True):
    reason = reason or {200: "OK", 204: "No Content", 304: "Not Modified", 404: "Not Found", 500: "Internal Server Error"}.get(status, "Status")
    h = ["%s %d %s" % (version, status, reason)]
    if date:
        h.append("Date: " + date_now())
    for n, v in headers:
        h.append("%s: %s" % (n, v))
    if cl:
        h.append("Content-Length: %d" % len(body))
    return ("\r\n".join(h) + "\r\n\r\n").encode("latin-1") + body


# ---------------------------------------------------------------------------------------------- client

class Client:
    def __init__(self, port, timeout=10.0):
        self.s = socket.create_connection(("127.0.0.1", port), timeout=timeout * VERIF_SLOW)
        self.rest = b""
        self.timeout = timeout

    def send(self, data):
        try:
            self.s.sendall(data)
            return True
        except OSError:
            return False

    def response(self, head_request=False, timeout=None):
        """-> dict(status, first, hdrs, body, complete, framing) or None when the connection ended before a head"""
        head, self.rest = read_head(self.s, self.rest, timeout or self.timeout)
        if head is None:
            return None
        first, hdrs = parse_head(head)
        m = re.match(r"HTTP/\d\.\d (\d{3})", first)
        status = int(m.group(1)) if m else 0
        body, self.rest, complete, framing = read_body(self.s, hdrs, self.rest, timeout or self.timeout, is_response=True, head_request=head_request, status=status)
        return {"status": status, "first": first, "hdrs": hdrs, "body": body, "complete": complete, "framing": framing, "raw_head": head}

    def closed_by_peer(self, wait=1.0):
        self.s.settimeout(wait * VERIF_SLOW)
        try:
            d = self.s.recv(1)
            if d:
                self.rest += d
                return False
            return True
        except socket.timeout:
            return False
        except OSError:
            return True

    def close(self):
        try:
            self.s.close()
        except OSError:
            pass


def get(port, url, headers=(), method="GET", body=None, version="HTTP/1.1", timeout=10.0):
    """one request on a fresh connection with Connection: close"""
    c = Client(port, timeout)
    m = re.match(r"http://([^/]+)", url)
    host = m.group(1) if m else "x"
    lines = ["%s %s %s" % (method, url, version), "Host: " + host]
    for n, v in headers:
        lines.append("%s: %s" % (n, v))
    if body is not None and not any(n.lower() in ("content-length", "transfer-encoding") for n, v in headers):
        lines.append("Content-Length: %d" % len(body))
    lines.append("Connection: close")
    c.send(("\r\n".join(lines) + "\r\n\r\n").encode("latin-1") + (body or b""))
    r = c.response(head_request=(method == "HEAD"))
    c.close()
    return r


def sha(b):
    return hashlib.sha256(b).hexdigest()[:16]


def guarded(fn, squids):
    """wraps a per-scenario function: a dead squid or a socket error becomes an `abort:` observation instead of a traceback"""
    def run(line):
        try:
            return fn(line)
        except (OSError, RuntimeError) as e:
            dead = [s for s in squids if not s.alive()]
            if dead:
                probs = dead[0].problems()
                return "abort:squid-died " + (re.sub(r"\s+", "_", probs[0])[:120] if probs else "")
            return "abort:io-error:" + type(e).__name__
    return run
