/* C46 helper stub: a byte relay between Squid's Basic authenticator channel (fd 0 / fd 1) and the check's control socket
 * (unix stream socket whose path is argv[1]).  All protocol knowledge (channel ids, verdicts, latency, order of the answers)
 * lives in the check (harness/c46_e2e.py); this program only moves bytes and starts in about a millisecond.
 *   Squid -> stub -> control : the request lines "<channel> <user> <password>\n" exactly as written by Squid
 *   control -> stub -> Squid : the reply lines  "<channel> OK|ERR|BH ...\n", each chunk written with one write(2)
 * It exits when either side closes. */
#include <stdio.h>
#include <string.h>
#include <unistd.h>
#include <poll.h>
#include <sys/socket.h>
#include <sys/un.h>

static void sendall(int fd, const char *b, size_t n)
{
    while (n > 0) {
        ssize_t k = write(fd, b, n);
        if (k <= 0)
            _exit(0);
        b += k;
        n -= (size_t)k;
    }
}

int main(int argc, char **argv)
{
    if (argc < 2)
        return 2;
    int c = socket(AF_UNIX, SOCK_STREAM, 0);
    struct sockaddr_un un;
    memset(&un, 0, sizeof un);
    un.sun_family = AF_UNIX;
    strncpy(un.sun_path, argv[1], sizeof un.sun_path - 1);
    if (connect(c, (struct sockaddr *)&un, sizeof un) < 0)
        return 3;
    static char buf[1 << 16];
    for (;;) {
        struct pollfd p[2] = {{0, POLLIN, 0}, {c, POLLIN, 0}};
        if (poll(p, 2, -1) < 0)
            continue;
        if (p[0].revents) {
            ssize_t n = read(0, buf, sizeof buf);
            if (n <= 0)
                return 0;
            sendall(c, buf, (size_t)n);
        }
        if (p[1].revents) {
            ssize_t n = read(c, buf, sizeof buf);
            if (n <= 0)
                return 0;
            sendall(1, buf, (size_t)n);
        }
    }
}
