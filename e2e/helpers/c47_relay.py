#!/usr/bin/env python3
"""C47 helper stub: a byte relay between Squid's helper channel (fd 0/1, one socketpair) and the check's control socket.

argv: <control unix socket path> <tag>
to the control socket:   "H <tag> <pid>\n" once, then "I <n>\n<n bytes>" for everything Squid writes to the helper;
                         "A <left>\n" after each write command (left = bytes Squid had not yet consumed when the wait ended, 0 normally);
                         "E\n" at end of input from Squid.
from the control socket: "W <n>\n<n bytes>"  write these bytes to Squid with ONE write(2), then wait until Squid has consumed them
                         (SIOCOUTQ on the unix stream socket drops to 0 when the peer has read the skb), then acknowledge;
                         "Q\n" exit.
Because Squid re-arms its (one-shot) comm_read only at the end of helperHandleRead, every W command is exactly one read event.
"""
import os, sys, socket, threading, fcntl, struct, termios, time


def peer_rx_queue_fn():
    """-> function returning the number of bytes Squid has not yet read from its end of the helper channel."""
    s = socket.socket(fileno=os.dup(1))
    if s.family == socket.AF_UNIX:
        buf = struct.pack("i", 0)
        # unix stream socket: SIOCOUTQ = send memory still charged to us = skbs the peer has not consumed
        return lambda: struct.unpack("i", fcntl.ioctl(1, termios.TIOCOUTQ, buf))[0]
    # TCP loopback (external_acl uses IPC_TCP_SOCKET): read the rx_queue of Squid's end from /proc/net/tcp{,6}
    peer = s.getpeername()
    port = peer[1]
    files = ["/proc/net/tcp6", "/proc/net/tcp"]
    me = s.getsockname()[1]

    def rxq():
        for fn in files:
            try:
                with open(fn) as f:
                    next(f)
                    for line in f:
                        p = line.split()
                        if int(p[1].rsplit(":", 1)[1], 16) == port and int(p[2].rsplit(":", 1)[1], 16) == me:
                            return int(p[4].split(":")[1], 16)
            except (OSError, StopIteration):
                pass
        return 0
    return rxq

def main():
    path, tag = sys.argv[1], sys.argv[2]
    c = socket.socket(socket.AF_UNIX, socket.SOCK_STREAM)
    c.connect(path)
    c.sendall(("H %s %d\n" % (tag, os.getpid())).encode())
    lock = threading.Lock()

    def pump():
        while True:
            try:
                d = os.read(0, 65536)
            except OSError:
                d = b""
            with lock:
                try:
                    if not d:
                        c.sendall(b"E\n")
                    else:
                        c.sendall(b"I %d\n" % len(d) + d)
                except OSError:
                    pass
            if not d:
                os._exit(0)

    threading.Thread(target=pump, daemon=True).start()
    f = c.makefile("rb")
    rxq = peer_rx_queue_fn()
    while True:
        h = f.readline()
        if not h or h.startswith(b"Q"):
            os._exit(0)
        if h.startswith(b"W "):
            n = int(h[2:])
            data = f.read(n)
            left = -1
            try:
                os.write(1, data)
                t0 = time.time()
                while True:
                    left = rxq()
                    if left == 0 or time.time() - t0 > 10:
                        break
                    time.sleep(0.0002)
            except OSError:
                left = -2
            with lock:
                c.sendall(b"A %d\n" % left)

main()
