/* C47 helper stub (compiled by props/C47.py into the stage's work dir; same protocol as c47_relay.py, starts in ~1 ms).
 *
 * A byte relay between Squid's helper channel (fd 0/1: one socketpair or TCP connection) and the check's control socket.
 * argv: <control unix socket path> <tag>
 * to the control socket:   "H <tag> <pid>\n" once; "I <n>\n<n bytes>" for everything Squid writes to the helper;
 *                          "A <left>\n" after each write command (left = bytes Squid had not consumed when the wait ended; 0 normally);
 *                          "E\n" at end of input from Squid.
 * from the control socket: "W <n>\n<n bytes>"  write these bytes to Squid with ONE write(2), wait until Squid has consumed them, acknowledge;
 *                          "Q\n" exit.
 * Squid re-arms its one-shot comm_read only at the end of helperHandleRead, so every W command is exactly one read event.
 */
#include <stdio.h>
#include <stdlib.h>
#include <string.h>
#include <unistd.h>
#include <poll.h>
#include <time.h>
#include <sys/socket.h>
#include <sys/un.h>
#include <sys/ioctl.h>
#include <netinet/in.h>
#include <termios.h>

static int is_unix = 1;
static unsigned peer_port = 0, my_port = 0;

static void sendall(int fd, const char *b, size_t n)
{
    while (n > 0) {
        ssize_t k = write(fd, b, n);
        if (k <= 0)
            _exit(0);
        b += k;
        n -= (size_t)k;
    }
}

/* bytes Squid has not yet read from its end of the helper channel */
static long peer_rx_queue(void)
{
    if (is_unix) {
        int v = 0; /* unix stream socket: SIOCOUTQ = send memory still charged to us = skbs the peer has not consumed */
        if (ioctl(1, TIOCOUTQ, &v) < 0)
            return -2;
        return v;
    }
    /* TCP loopback (external_acl uses IPC_TCP_SOCKET): rx_queue of Squid's end from /proc/net/tcp{,6} */
    const char *files[] = {"/proc/net/tcp6", "/proc/net/tcp"};
    for (int f = 0; f < 2; ++f) {
        FILE *fp = fopen(files[f], "r");
        if (!fp)
            continue;
        char line[512];
        if (fgets(line, sizeof line, fp)) {
            while (fgets(line, sizeof line, fp)) {
                char la[80], ra[80];
                unsigned lp, rp, st;
                unsigned long txq, rxq;
                if (sscanf(line, " %*d: %64[0-9A-Fa-f]:%x %64[0-9A-Fa-f]:%x %x %lx:%lx", la, &lp, ra, &rp, &st, &txq, &rxq) == 7) {
                    if (lp == peer_port && rp == my_port) {
                        fclose(fp);
                        return (long)rxq;
                    }
                }
            }
        }
        fclose(fp);
    }
    return 0;
}

static double now(void)
{
    struct timespec ts;
    clock_gettime(CLOCK_MONOTONIC, &ts);
    return ts.tv_sec + ts.tv_nsec / 1e9;
}

int main(int argc, char **argv)
{
    if (argc < 3)
        return 2;
    struct sockaddr_storage ss;
    socklen_t sl = sizeof ss;
    if (getsockname(1, (struct sockaddr *)&ss, &sl) == 0 && ss.ss_family != AF_UNIX) {
        is_unix = 0;
        my_port = ss.ss_family == AF_INET ? ntohs(((struct sockaddr_in *)&ss)->sin_port) : ntohs(((struct sockaddr_in6 *)&ss)->sin6_port);
        sl = sizeof ss;
        if (getpeername(1, (struct sockaddr *)&ss, &sl) == 0)
            peer_port = ss.ss_family == AF_INET ? ntohs(((struct sockaddr_in *)&ss)->sin_port) : ntohs(((struct sockaddr_in6 *)&ss)->sin6_port);
    }
    int c = socket(AF_UNIX, SOCK_STREAM, 0);
    struct sockaddr_un un;
    memset(&un, 0, sizeof un);
    un.sun_family = AF_UNIX;
    strncpy(un.sun_path, argv[1], sizeof un.sun_path - 1);
    if (connect(c, (struct sockaddr *)&un, sizeof un) < 0)
        return 3;
    char hello[256];
    int hl = snprintf(hello, sizeof hello, "H %s %d\n", argv[2], (int)getpid());
    sendall(c, hello, (size_t)hl);

    static char in[1 << 16];
    static char ctl[1 << 20];
    size_t have = 0;
    for (;;) {
        struct pollfd p[2] = {{0, POLLIN, 0}, {c, POLLIN, 0}};
        if (poll(p, 2, -1) < 0)
            continue;
        if (p[0].revents) {
            ssize_t n = read(0, in, sizeof in);
            if (n <= 0) {
                sendall(c, "E\n", 2);
                return 0;
            }
            char h[32];
            int k = snprintf(h, sizeof h, "I %zd\n", n);
            sendall(c, h, (size_t)k);
            sendall(c, in, (size_t)n);
        }
        if (p[1].revents) {
            ssize_t n = read(c, ctl + have, sizeof ctl - have);
            if (n <= 0)
                return 0;
            have += (size_t)n;
            for (;;) {
                char *nl = memchr(ctl, '\n', have);
                if (!nl)
                    break;
                if (ctl[0] == 'Q')
                    return 0;
                if (ctl[0] != 'W') { /* unknown command: skip the line */
                    size_t used = (size_t)(nl - ctl) + 1;
                    memmove(ctl, ctl + used, have - used);
                    have -= used;
                    continue;
                }
                size_t len = (size_t)strtoul(ctl + 2, NULL, 10);
                size_t head = (size_t)(nl - ctl) + 1;
                if (have < head + len)
                    break; /* need the rest of the frame */
                long left = -1;
                if (write(1, ctl + head, len) == (ssize_t)len) {
                    const double t0 = now();
                    for (;;) {
                        left = peer_rx_queue();
                        if (left == 0 || now() - t0 > 10)
                            break;
                        usleep(100);
                    }
                } else
                    left = -2;
                char a[32];
                int k = snprintf(a, sizeof a, "A %ld\n", left);
                sendall(c, a, (size_t)k);
                memmove(ctl, ctl + head + len, have - head - len);
                have -= head + len;
            }
        }
    }
}
