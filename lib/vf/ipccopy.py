"""Copies of src/ipc sources from the stage with std::atomic mapped to the scheduler-controlled verif::atomic."""
import os, re
from .util import VERIF


def instrument(text):
    text = text.replace("#include <atomic>", '#include "verif_atomic.h"')
    text = re.sub(r"\bstd::atomic_flag\b", "verif::atomic_flag", text)
    text = re.sub(r"\bstd::atomic<", "verif::atomic<", text)
    text = re.sub(r"\bassert\s*\(", "VERIF_ASSERT(", text)
    return text


def make_copies(stage, rel_files, sub="ipccopy"):
    """rel_files: paths under src/ (e.g. 'ipc/ReadWriteLock.h'); returns the include dir holding the instrumented copies."""
    root = os.path.join(stage.work, sub)
    for rel in rel_files:
        src = stage.path(os.path.join("src", rel))
        dst = os.path.join(root, rel)
        os.makedirs(os.path.dirname(dst), exist_ok=True)
        with open(src) as f:
            text = f.read()
        with open(dst, "w") as f:
            f.write('#include "verif_atomic.h"\n' + instrument(text))
    return root


def flags(root):
    return ["-I" + root, "-I" + os.path.join(VERIF, "harness")]
