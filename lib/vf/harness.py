"""Line-protocol runners: one input line -> one output line, for the real code and for the Lean model."""
import os, re, subprocess, tempfile
from .util import log
from . import leanp

SAN_ENV = {
    "ASAN_OPTIONS": "detect_leaks=0:abort_on_error=0:exitcode=86:allocator_may_return_null=1",
    "UBSAN_OPTIONS": "print_stacktrace=1:halt_on_error=1:exitcode=86",
    "LC_ALL": "C", "TZ": "UTC",
}


def summarize_crash(stderr, rc):
    m = re.search(r"SUMMARY: (\w+Sanitizer: [^\n]*)", stderr)
    if m:
        s = m.group(1)
        s = re.sub(r"/var/tmp/verif-[^/]+/", "", s)
        s = re.sub(r"\s+", "_", s.strip())
        return "abort:" + s[:200]
    m = re.search(r"([^\n]*runtime error: [^\n]*)", stderr)
    if m:
        s = re.sub(r"/var/tmp/verif-[^/]+/", "", m.group(1))
        return "abort:UBSan:" + re.sub(r"\s+", "_", s.strip())[:200]
    m = re.search(r"(assertion failed[^\n]*|FATAL[^\n]*|terminate called[^\n]*(?:\n[^\n]*what\(\)[^\n]*)?)", stderr)
    if m:
        return "abort:" + re.sub(r"\s+", "_", m.group(1).strip())[:200]
    return "abort:rc=%d" % rc


class ProcHarness:
    """Runs an executable over the op lines; a crash is a result for the line it happened on."""

    def __init__(self, argv, env=None, cwd=None, timeout=3600, stateful=False):
        self.argv = argv
        self.env = dict(os.environ)
        self.env.update(SAN_ENV)
        if env:
            self.env.update(env)
        self.cwd = cwd
        self.timeout = timeout
        self.stateful = stateful  # each line is a whole history: restart after a crash is still fine
        self.crashes = 0

    def run(self, lines):
        out = []
        rest = list(lines)
        while rest:
            data = ("\n".join(rest) + "\n").encode()
            try:
                r = subprocess.run(self.argv, input=data, capture_output=True, env=self.env, cwd=self.cwd, timeout=self.timeout)
                got = r.stdout.decode("latin-1").split("\n")
                rc, err = r.returncode, r.stderr.decode("latin-1", "replace")
            except subprocess.TimeoutExpired as e:
                got = (e.stdout or b"").decode("latin-1").split("\n")
                rc, err = -9, "timeout"
            if got and got[-1] == "":
                got.pop()
            if len(got) >= len(rest) and rc == 0:
                out += got[:len(rest)]
                break
            # died (or misbehaved) on line number len(got) of this batch
            k = min(len(got), len(rest) - 1)
            out += got[:k]
            self.crashes += 1
            out.append(summarize_crash(err, rc) if rc != 0 else "abort:short-output")
            self.last_stderr = err[-6000:]
            rest = rest[k + 1:]
            if self.crashes > 200:
                out += ["abort:too-many-crashes"] * len(rest)
                break
        return out


class ModelRunner:
    def __init__(self, model):
        self.model = model

    def run(self, lines):
        if not lines:
            return []
        data = ("\n".join(lines) + "\n").encode()
        r = subprocess.run([leanp.driver_path(self.model)], input=data, capture_output=True, timeout=7200)
        got = r.stdout.decode("latin-1").split("\n")
        if got and got[-1] == "":
            got.pop()
        if r.returncode != 0 or len(got) != len(lines):
            raise RuntimeError("model driver %s failed rc=%d lines=%d/%d: %s" % (self.model, r.returncode, len(got), len(lines), r.stderr.decode()[-2000:]))
        return got


class FuncHarness:
    """A harness implemented by a python callable lines -> outputs (end-to-end rigs)."""

    def __init__(self, fn):
        self.fn = fn
        self.crashes = 0

    def run(self, lines):
        return self.fn(lines)
