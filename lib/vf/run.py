"""The per-run pipeline: stage -> translate -> prove -> build harness -> correspond -> decide -> evidence."""
import os, sys, json, time, glob, importlib, traceback, collections
from .util import VERIF, OUT_DIR, Rng, log, write_json
from . import leanp
from .stage import Stage, BuildError
from .harness import ModelRunner

KNOWN_FILE = os.path.join(VERIF, "known_findings.json")
BASE_TRUSTED = [
    "Lean 4.33.0 kernel; axioms per theorem as printed by `#print axioms` (allowed: propext, Classical.choice, Quot.sound)",
    "Lean compiler/runtime executing the model definitions in the driver",
    "translator (translate/*.py, dump programs) regenerating SquidModel/Gen from the staged tree",
    "correspondence harness, generators, canonicalisers and differ (harness/, props/, lib/vf)",
    "g++ 12, ASan/UBSan, GNU make building the staged copy of /repo's working tree",
]


def load_known():
    """known_findings.json: {"findings": [{id, property, status: known|fixed, signature, description, commit?}]}"""
    res = {}
    for path in [KNOWN_FILE] + sorted(glob.glob(os.path.join(VERIF, "known_findings.d", "*.json"))):
        try:
            with open(path) as f:
                for e in json.load(f)["findings"]:
                    res[e["id"]] = e
        except FileNotFoundError:
            pass
    return res


def getopt(spec, name, default):
    return getattr(spec, name, default)


class Result:
    def __init__(self):
        self.violations = []   # dicts
        self.known = []
        self.evals = 0
        self.nontrivial = set()
        self.tags = collections.Counter()
        self.samples = []
        self.divergences = 0
        self.oracle_failures = 0


def default_shrink(line):
    """Generic delta debugging over the hex tokens of a line."""
    toks = line.split(" ")
    for i, tk in enumerate(toks):
        if len(tk) >= 4 and len(tk) % 2 == 0 and all(c in "0123456789abcdef" for c in tk):
            n = len(tk) // 2
            step = max(1, n // 2)
            while step >= 1:
                for off in range(0, n, step):
                    cand = tk[:off * 2] + tk[(off + step) * 2:]
                    if cand == "":
                        cand = "-"
                    yield " ".join(toks[:i] + [cand] + toks[i + 1:])
                step //= 2


def evaluate(spec, line, impl, model):
    """-> (kind, why): kind in None|'oracle'|'corr'."""
    why = spec.oracle(line, impl) if hasattr(spec, "oracle") else None
    if why:
        return "oracle", why
    if model is not None:
        cmp = getopt(spec, "compare", None)
        same = cmp(line, impl, model) if cmp else (impl == model)
        if not same:
            return "corr", "model and implementation differ"
    return None, None


def run_pair(spec, harness, model, lines):
    impl = harness.run(lines)
    mod = model.run(lines) if model else [None] * len(lines)
    return impl, mod


def minimise(spec, harness, model, line, kind, budget=300, known=None):
    budget = getopt(spec, "MINIMISE_BUDGET", budget)
    shrink = getopt(spec, "shrink", default_shrink)
    cur = line
    improved = True
    spent = 0
    while improved and spent < budget:
        improved = False
        cands = []
        for c in shrink(cur):
            if c != cur and len(c) < len(cur):
                cands.append(c)
            if len(cands) >= min(64, budget):
                break
        if not cands:
            break
        try:
            impl, mod = run_pair(spec, harness, model, cands)
        except Exception:
            break
        spent += len(cands)
        for c, i, m in zip(cands, impl, mod):
            k, w = evaluate(spec, c, i, m)
            if k == kind and known and hasattr(spec, "classify"):
                f = spec.classify(c, i, w)
                if f and f in known and known[f]["status"] == "known":
                    continue   # never let minimisation drift an unexplained failure into a known finding
            if k == kind and not (i or "").startswith("bad-"):
                cur = c
                improved = True
                break
    return cur


def write_replay(pid, seed, n, obj):
    path = os.path.join(OUT_DIR, "replay", "%s-seed%d-p%d-%d.json" % (pid, seed, os.getpid(), n))
    write_json(path, obj)
    return path


def main(argv):
    import argparse
    ap = argparse.ArgumentParser()
    ap.add_argument("prop")
    ap.add_argument("--tier", default=os.environ.get("VERIF_TIER", "quick"), choices=["quick", "thorough"])
    ap.add_argument("--replay")
    ap.add_argument("--keep-stage", action="store_true")
    ap.add_argument("--no-evidence", action="store_true")
    a = ap.parse_args(argv)
    seed = int(os.environ.get("VERIF_SEED", "1"))
    pid = a.prop
    sys.path.insert(0, VERIF)
    spec = importlib.import_module("props." + pid)
    t0 = time.time()
    try:
        rc = pipeline(spec, pid, a.tier, seed, a.replay, a.keep_stage, t0, a.no_evidence)
    except BuildError as e:
        log("BUILD ERROR (not a verdict about the property):\n" + str(e))
        rc = 2
    sys.exit(rc)


def pipeline(spec, pid, tier, seed, replay, keep, t0, no_evidence):
    known = load_known()
    rng = Rng(seed).fork(pid)
    res = Result()
    timings = {}
    with Stage(pid, hooks=getopt(spec, "HOOKS", True), keep=keep) as st:
        timings.update(st.timings)
        # ---- translate + prove (serialised across concurrent checks) ----
        t = time.time()
        with leanp.LeanLock(pid):
            gen_info = {}
            if getopt(spec, "GEN", None):
                sys.path.insert(0, VERIF)
                tr = importlib.import_module("translate")
                gen_info = tr.regenerate(st, spec.GEN)
            proof = leanp.prove(pid, spec.PROP_MODULE, getopt(spec, "EXTRA_AUDIT_MODULES", ()), thorough=(tier == "thorough"), model=getopt(spec, "MODEL", None))
        timings["translate_prove_s"] = round(time.time() - t, 2)
        # ---- harness ----
        t = time.time()
        harness = spec.build(st)
        timings["harness_build_s"] = round(time.time() - t, 2)
        model = ModelRunner(spec.MODEL) if getopt(spec, "MODEL", None) and proof.get("driver_ok") else None
        if getopt(spec, "MODEL", None) and model is None:
            log("model driver missing (lean build failed): correspondence runs without the model side")

        if hasattr(harness, "close"):
            import atexit
            atexit.register(harness.close)
        if replay:
            return do_replay(spec, harness, model, replay)

        # ---- cases: corpus first, then generated ----
        lines, origin = [], []
        for f in sorted(glob.glob(os.path.join(VERIF, "corpus", pid, "*.txt"))):
            for l in open(f).read().splitlines():
                if l.strip() and not l.startswith("#"):
                    lines.append(l)
                    origin.append("corpus")
        ncorpus = len(lines)
        for l in spec.cases(rng, tier):
            lines.append(l)
            origin.append("gen")
        t = time.time()
        impl, mod = run_pair(spec, harness, model, lines)
        timings["correspond_s"] = round(time.time() - t, 2)

        failing = []  # (line, impl, mod, kind, why)
        seen = set()
        for l, i, m in zip(lines, impl, mod):
            res.evals += 1
            tag = spec.tag(l, i, m) if hasattr(spec, "tag") else (i.split(" ")[0] if i else "")
            res.tags[tag] += 1
            nt = spec.nontrivial(l, i, m) if hasattr(spec, "nontrivial") else not (i or "").startswith("reject")
            if nt and l not in seen:
                res.nontrivial.add(l)
            seen.add(l)
            k, why = evaluate(spec, l, i, m)
            if k:
                failing.append((l, i, m, k, why))
        # samples: a few of each tag
        per_tag = collections.defaultdict(int)
        for l, i, m in zip(lines, impl, mod):
            tag = spec.tag(l, i, m) if hasattr(spec, "tag") else (i.split(" ")[0] if i else "")
            if per_tag[tag] < 2 and len(res.samples) < 12:
                per_tag[tag] += 1
                res.samples.append({"case": l[:400], "impl": (i or "")[:300], "model": (m or "")[:300] if m is not None else None})

        # ---- decide ----
        nrep = 0
        reported_keys = set()
        known_printed = set()
        corr_broken = []
        # known findings are recognised on the raw failing case first, so that many hits of a known finding early in the
        # stream cannot crowd out a different violation; only unexplained failures are minimised (bounded number)
        unexplained = []
        novel = []
        for (l, i, m, k, why) in failing:
            fid0 = spec.classify(l, i, why) if hasattr(spec, "classify") else None
            if fid0 and fid0 in known and known[fid0]["status"] == "known":
                if k == "oracle" and (getopt(spec, "KNOWN_MUST_MATCH_MODEL", False) or os.environ.get("VERIF_STRICT_KNOWN") == "1") and m is not None:
                    # the model reproduces the listed defect exactly: inside a known finding's region the implementation must still
                    # behave as the model says; anything else is a different violation and is not suppressed
                    cmp = getopt(spec, "compare", None)
                    if not (cmp(l, i, m) if cmp else (i == m)):
                        novel.append((l, i, m, why, fid0))
                        continue
                if k == "oracle":
                    res.oracle_failures += 1
                    if fid0 not in known_printed:
                        known_printed.add(fid0)
                        print("KNOWN-FINDING: property=%s %s" % (pid, known[fid0]["description"]))
                        res.known.append(fid0)
                else:
                    res.divergences += 1
                continue
            unexplained.append((l, i, m, k, why))
        for (l, i, m, why, fid0) in novel[:3]:
            res.oracle_failures += 1
            nrep += 1
            path = write_replay(pid, seed, nrep, {"property": pid, "kind": "oracle", "case": l, "impl": i, "model": m, "why": why, "finding": None, "seed": seed, "tier": tier,
                                                  "note": "the input lies in the region of known finding %s, but the implementation does not behave as the model of that defect says: a different violation" % fid0})
            res.violations.append(path)
            print("VIOLATION property=%s replay=%s" % (pid, path))
        for (l, i, m, k, why) in unexplained[:getopt(spec, "MAX_REPORT", 40)]:
            lm = minimise(spec, harness, model, l, k, known=known)
            ii, mm = run_pair(spec, harness, model, [lm])
            i2, m2 = ii[0], mm[0]
            k2, why2 = evaluate(spec, lm, i2, m2)
            if k2 != k:   # not reproducible after minimisation: fall back to the original
                lm, i2, m2, why2 = l, i, m, why
            fid = spec.classify(lm, i2, why2) if hasattr(spec, "classify") else None
            if k == "oracle":
                res.oracle_failures += 1
                if fid and fid in known and known[fid]["status"] == "known":
                    if fid not in known_printed:
                        known_printed.add(fid)
                        print("KNOWN-FINDING: property=%s %s" % (pid, known[fid]["description"]))
                        res.known.append(fid)
                    continue
                import re as _re
                key = fid or _re.sub(r"[0-9]+", "N", why2 or "")
                if key in reported_keys:
                    continue
                reported_keys.add(key)
                nrep += 1
                path = write_replay(pid, seed, nrep, {"property": pid, "kind": "oracle", "case": lm, "original_case": l,
                                                      "impl": i2, "model": m2, "why": why2, "finding": fid, "seed": seed, "tier": tier})
                res.violations.append(path)
                print("VIOLATION property=%s replay=%s" % (pid, path))
            else:
                res.divergences += 1
                if fid and fid in known and known[fid]["status"] == "known":
                    continue
                corr_broken.append((lm, i2, m2, l))
        if corr_broken and not res.violations:
            # T ∧ ¬K ∧ O: the property is no longer shown; search already happened at thorough size below
            extra_fail = search(spec, harness, model, rng, known) if tier != "thorough" else []
            if extra_fail:
                for (lm, i2, why2, fid) in extra_fail[:3]:
                    nrep += 1
                    path = write_replay(pid, seed, nrep, {"property": pid, "kind": "oracle", "case": lm, "impl": i2, "why": why2, "finding": fid, "seed": seed, "tier": tier,
                                                          "note": "found by the search started after a correspondence break"})
                    res.violations.append(path)
                    print("VIOLATION property=%s replay=%s" % (pid, path))
            else:
                lm, i2, m2, l = corr_broken[0]
                nrep += 1
                path = write_replay(pid, seed, nrep, {"property": pid, "kind": "correspondence", "correspondence": "corr:%s" % getopt(spec, "MODEL", "?"),
                                                      "case": lm, "original_case": l, "impl": i2, "model": m2, "diverging_cases": len(corr_broken), "other_diverging_cases": [c[0] for c in corr_broken[1:6]], "seed": seed, "tier": tier,
                                                      "note": "model and implementation disagree on this case; the direct oracle found no failing input"})
                res.violations.append(path)
                print("VIOLATION property=%s replay=%s no-failing-input-found" % (pid, path))
        if not proof["ok"] and not res.violations and tier != "thorough":
            # ¬T: a regenerated table or constant broke an obligation; hunt for a failing input at thorough size
            for (lm, i2, why2, fid) in search(spec, harness, model, rng, known)[:3]:
                nrep += 1
                path = write_replay(pid, seed, nrep, {"property": pid, "kind": "oracle", "case": lm, "impl": i2, "why": why2, "finding": fid, "seed": seed, "tier": tier,
                                                      "proof_failures": proof["failures"][:5], "note": "found by the search started after a proof obligation broke"})
                res.violations.append(path)
                print("VIOLATION property=%s replay=%s" % (pid, path))
        if not proof["ok"] and not res.violations:
            nrep += 1
            path = write_replay(pid, seed, nrep, {"property": pid, "kind": "proof", "failures": proof["failures"], "build_output_tail": proof.get("build_output_tail", ""),
                                                  "theorems": proof.get("theorems", []), "seed": seed, "tier": tier,
                                                  "note": "a proof obligation no longer checks against the regenerated model; the thorough generators found no failing input on the implementation"})
            res.violations.append(path)
            print("VIOLATION property=%s replay=%s no-failing-input-found" % (pid, path))
        # witnesses of known findings that did not show up in this run's cases are reported as not re-confirmed (informational)
        for fid, e in known.items():
            if e["property"] == pid and e["status"] == "known" and fid not in known_printed:
                log("note: known finding %s not re-confirmed by this run's cases" % fid)

        wall = round(time.time() - t0, 2)
        if not no_evidence:
            ev = {
                "property_id": pid, "tier": tier, "seed": seed, "level": "proof",
                "coverage": {
                    "obligations": proof["obligations"], "discharged": proof["discharged"],
                    "checker_cmd": " && ".join(proof["cmds"]),
                    "trusted_base": BASE_TRUSTED + list(getopt(spec, "TRUSTED", [])) + ["axioms used: " + json.dumps(proof.get("axioms", {}), sort_keys=True)],
                    "theorems": proof.get("theorems", []),
                    "lean_modules": proof.get("closure", []),
                    "evaluations": res.evals, "distinct_nontrivial": len(res.nontrivial),
                    "rule": getopt(spec, "RULE", "cases from the property's generators; non-trivial = reached a non-rejecting branch"),
                    "samples": res.samples, "distribution": dict(res.tags.most_common(40)),
                    "corpus_cases": ncorpus, "harness_crashes": getattr(harness, "crashes", 0),
                    "oracle_failures": res.oracle_failures, "correspondence_divergences": res.divergences,
                    "known_findings_reconfirmed": res.known, "gen": gen_info,
                    "exhaustive": bool(spec.exhaustive(tier)) if hasattr(spec, "exhaustive") else False,
                    "timings": timings, "proof_failures": proof["failures"][:10],
                },
                "assumptions": list(getopt(spec, "ASSUMPTIONS", [])),
                "wall_s": wall, "violations": len(res.violations),
            }
            write_json(os.path.join(VERIF, "evidence", pid + ".json"), ev)
        if hasattr(harness, "close"):
            harness.close()
        log("%s %s seed=%d: %d cases (%d non-trivial), %d/%d obligations, %d violations, %d known, %.1fs" % (
            pid, tier, seed, res.evals, len(res.nontrivial), proof["discharged"], proof["obligations"], len(res.violations), len(res.known), wall))
        return 1 if res.violations else 0


def search(spec, harness, model, rng, known):
    """Thorough-size hunt with the direct oracle only."""
    lines = list(spec.cases(rng.fork("search"), "thorough"))
    if not lines:
        return []
    impl = harness.run(lines)
    out = []
    for l, i in zip(lines, impl):
        why = spec.oracle(l, i) if hasattr(spec, "oracle") else None
        if why:
            fid = spec.classify(l, i, why) if hasattr(spec, "classify") else None
            if fid and fid in known and known[fid]["status"] == "known":
                continue
            out.append((l, i, why, fid))
            if len(out) >= 3:
                break
    return out


def do_replay(spec, harness, model, path):
    obj = json.load(open(path))
    if obj.get("kind") == "proof":
        print("replay names proof obligations: %s" % json.dumps(obj.get("failures"))[:2000])
        return 1
    line = obj["case"]
    impl, mod = run_pair(spec, harness, model, [line])
    k, why = evaluate(spec, line, impl[0], mod[0])
    print("case:  %s\nimpl:  %s\nmodel: %s\nverdict: %s %s" % (line, impl[0], mod[0], k or "holds", why or ""))
    if k:
        print("VIOLATION property=%s replay=%s" % (obj.get("property"), path))
        return 1
    return 0
