"""Small shared helpers: PRNG, hex, paths."""
import os, sys, time, json, hashlib

VERIF = os.path.dirname(os.path.dirname(os.path.dirname(os.path.abspath(__file__))))
REPO = os.environ.get("VERIF_REPO", "/repo")
LEAN_DIR = os.path.join(VERIF, "lean")
OUT_DIR = os.path.join(VERIF, "out")
GUARD = "SQUID_CACHE_SQUID_VERIF"

MASK64 = (1 << 64) - 1


class Rng:
    """splitmix64; every random choice of a run derives from one seed."""

    def __init__(self, seed):
        self.s = seed & MASK64

    def u64(self):
        self.s = (self.s + 0x9E3779B97F4A7C15) & MASK64
        z = self.s
        z = ((z ^ (z >> 30)) * 0xBF58476D1CE4E5B9) & MASK64
        z = ((z ^ (z >> 27)) * 0x94D049BB133111EB) & MASK64
        return z ^ (z >> 31)

    def below(self, n):
        return self.u64() % n if n > 0 else 0

    def range(self, lo, hi):
        """inclusive"""
        return lo + self.below(hi - lo + 1)

    def chance(self, num, den):
        return self.below(den) < num

    def choice(self, seq):
        return seq[self.below(len(seq))]

    def bytes(self, n, alphabet=None):
        if alphabet is None:
            return bytes(self.below(256) for _ in range(n))
        return bytes(alphabet[self.below(len(alphabet))] for _ in range(n))

    def shuffle(self, lst):
        for i in range(len(lst) - 1, 0, -1):
            j = self.below(i + 1)
            lst[i], lst[j] = lst[j], lst[i]
        return lst

    def fork(self, tag):
        h = hashlib.sha256(("%d/%s" % (self.s, tag)).encode()).digest()
        return Rng(int.from_bytes(h[:8], "little"))


def hx(b):
    """bytes -> hex token ('-' for empty so that a token is never empty)."""
    return b.hex() if b else "-"


def unhx(s):
    return b"" if s == "-" else bytes.fromhex(s)


def log(*a):
    print(*a, file=sys.stderr, flush=True)


def now():
    return time.time()


def write_json(path, obj):
    os.makedirs(os.path.dirname(path), exist_ok=True)
    tmp = path + ".tmp%d" % os.getpid()
    with open(tmp, "w") as f:
        json.dump(obj, f, indent=1, sort_keys=True)
        f.write("\n")
    os.replace(tmp, path)


def write_if_changed(path, text):
    try:
        with open(path) as f:
            if f.read() == text:
                return False
    except FileNotFoundError:
        pass
    os.makedirs(os.path.dirname(path), exist_ok=True)
    tmp = path + ".tmp%d" % os.getpid()
    with open(tmp, "w") as f:
        f.write(text)
    os.replace(tmp, path)
    return True
