"""Scratch copy of /repo's current working tree, rebuilt incrementally, removed at exit."""
import os, re, shlex, shutil, subprocess, time, atexit, signal
from .util import REPO, GUARD, log

SAN = ["-O1", "-g", "-fsanitize=address,undefined", "-fno-sanitize-recover=all", "-fno-omit-frame-pointer"]
DEFS = ['-DHAVE_CONFIG_H', '-DDEFAULT_CONFIG_FILE="/usr/local/squid/etc/squid.conf"',
        '-DDEFAULT_SQUID_DATA_DIR="/usr/local/squid/share"',
        '-DDEFAULT_SQUID_CONFIG_DIR="/usr/local/squid/etc"']


class BuildError(Exception):
    pass


class Stage:
    def __init__(self, tag, hooks=True, keep=False):
        self.dir = "/var/tmp/verif-%s-%d" % (tag, os.getpid())
        self.repo = os.path.join(self.dir, "repo")
        self.work = os.path.join(self.dir, "work")
        self.hooks = hooks
        self.keep = keep
        self.timings = {}
        self.hooked_files = []

    # -- lifecycle ---------------------------------------------------------
    def __enter__(self):
        shutil.rmtree(self.dir, ignore_errors=True)
        os.makedirs(self.work)
        atexit.register(self.cleanup)
        t = time.time()
        for attempt in range(3):
            # rc 24 = source files vanished during the copy (somebody is building in /repo): copy again over the same target
            r = subprocess.run(["rsync", "-a", "--exclude", ".git", REPO + "/", self.repo + "/"])
            if r.returncode == 0:
                break
            if r.returncode == 24 and attempt == 2:
                break   # only transient build outputs vanish; the stage's own `make` rebuilds whatever is missing
            if r.returncode != 24:
                raise BuildError("rsync of %s failed with exit status %d" % (REPO, r.returncode))
            time.sleep(5)
        self.timings["rsync_s"] = round(time.time() - t, 2)
        patch = os.environ.get("VERIF_PATCH")
        if patch:   # development aid: try a candidate fix or a seeded change without touching /repo
            for p in patch.split(":"):
                r = subprocess.run(["patch", "-p1", "-s", "-i", os.path.abspath(p)], cwd=self.repo, capture_output=True, text=True)
                if r.returncode != 0:
                    raise BuildError("VERIF_PATCH %s does not apply: %s" % (p, r.stdout + r.stderr))
            log("stage: applied VERIF_PATCH " + patch)
        self.make()
        return self

    def __exit__(self, *a):
        self.cleanup()

    def cleanup(self):
        if not self.keep:
            shutil.rmtree(self.dir, ignore_errors=True)

    # -- building the tree ---------------------------------------------------
    def _orig_cppflags(self):
        for line in open(os.path.join(self.repo, "src", "Makefile")):
            if line.startswith("CPPFLAGS ="):
                return line.split("=", 1)[1].strip()
        return ""

    def make(self, targets=("all",), subdir="."):
        t = time.time()
        args = ["make", "-j%d" % int(os.environ.get("VERIF_JOBS", "16"))] + list(targets)
        if self.hooks:
            r = subprocess.run("grep -rlF --include=*.cc --include=*.h --include=*.c --include=*.cci %s src lib compat include tools 2>/dev/null || true" % GUARD,
                               shell=True, cwd=self.repo, capture_output=True, text=True)
            self.hooked_files = [f for f in r.stdout.split() if f]
            if self.hooked_files:
                for f in self.hooked_files:
                    os.utime(os.path.join(self.repo, f))
                args.append("CPPFLAGS=%s -D%s" % (self._orig_cppflags(), GUARD))
        r = subprocess.run(args, cwd=os.path.join(self.repo, subdir), capture_output=True, text=True)
        self.timings["make_s"] = round(self.timings.get("make_s", 0) + time.time() - t, 2)
        if r.returncode != 0:
            tail = (r.stdout[-3000:] + "\n" + r.stderr[-3000:])
            raise BuildError("make failed in stage:\n" + tail)

    # -- compiling harness pieces --------------------------------------------
    def incflags(self):
        R = self.repo
        return ["-I" + R, "-I" + R + "/include", "-I" + R + "/lib", "-I" + R + "/src",
                "-isystem", "/usr/include/mit-krb5", "-I/usr/include/p11-kit-1"]

    def cppflags(self):
        f = DEFS + self.incflags()
        if self.hooks:
            f = f + ["-D" + GUARD]
        return f

    def compile(self, src, out=None, sanitize=True, extra=(), lang_c=False, pre=()):
        """Compile one source file (absolute or stage-relative) into work/."""
        if not os.path.isabs(src):
            src = os.path.join(self.repo, src)
        if out is None:
            out = os.path.join(self.work, re.sub(r"[^A-Za-z0-9]+", "_", os.path.relpath(src, "/")) + ".o")
        cc = ["gcc"] if lang_c else ["g++", "-std=c++17"]
        cmd = cc + list(pre) + self.cppflags() + ["-pipe", "-D_REENTRANT", "-w"] + (SAN if sanitize else ["-O1", "-g"]) + list(extra) + ["-c", "-o", out, src]
        r = subprocess.run(cmd, capture_output=True, text=True, cwd=os.path.join(self.repo, "src"))
        if r.returncode != 0:
            raise BuildError("compile failed: %s\n%s" % (" ".join(shlex.quote(c) for c in cmd), r.stderr[-4000:]))
        return out

    def compile_many(self, srcs, **kw):
        from concurrent.futures import ThreadPoolExecutor
        with ThreadPoolExecutor(max_workers=16) as ex:
            return list(ex.map(lambda s: self.compile(s, **kw), srcs))

    def link_recipe(self, test, subdir="src"):
        """The libtool link line the tree uses for an existing test program."""
        d = os.path.join(self.repo, subdir)
        src = test + ".cc"
        if not os.path.exists(os.path.join(d, src)):
            src = test + ".c"
        r = subprocess.run(["make", "-n", "-W", src, test], cwd=d, capture_output=True, text=True)
        for line in r.stdout.splitlines():
            if ("-o %s " % test) in line and "--mode=link" in line:
                return line.strip()
        raise BuildError("no link recipe for %s in %s\n%s" % (test, subdir, r.stderr[-2000:]))

    def link_like(self, test, objs, out, subdir="src", extra=(), sanitize=True, drop=()):
        """Link `objs` in place of the test's own object, following the tree's recipe."""
        line = self.link_recipe(test, subdir)
        toks = shlex.split(line)
        res = []
        skip = False
        for i, tk in enumerate(toks):
            if skip:
                skip = False
                continue
            if tk == "-o":
                res += ["-o", out]
                skip = True
                continue
            if tk == test + ".o" or tk == test + ".lo":
                res += list(objs)
                continue
            if tk in drop or tk == "-Werror":
                continue
            res.append(tk)
        if sanitize:
            res += ["-fsanitize=address,undefined"]
        res += list(extra)
        d = os.path.join(self.repo, subdir)
        r = subprocess.run(res, cwd=d, capture_output=True, text=True)
        if r.returncode != 0:
            raise BuildError("link failed:\n%s\n%s" % (" ".join(shlex.quote(c) for c in res)[:3000], r.stderr[-5000:]))
        return out

    def link_plain(self, objs, out, libs=(), sanitize=True):
        cmd = ["g++", "-std=c++17", "-g", "-o", out] + list(objs) + list(libs) + (["-fsanitize=address,undefined"] if sanitize else [])
        r = subprocess.run(cmd, capture_output=True, text=True, cwd=self.work)
        if r.returncode != 0:
            raise BuildError("link failed:\n%s\n%s" % (" ".join(cmd)[:3000], r.stderr[-5000:]))
        return out

    def path(self, rel):
        return os.path.join(self.repo, rel)

    def read(self, rel):
        with open(self.path(rel), errors="replace") as f:
            return f.read()
