"""Lean side: build the property module against the regenerated Gen files, audit axioms, run the model driver."""
import os, re, subprocess, fcntl, time, glob
from .util import LEAN_DIR, VERIF, log, write_if_changed

ALLOWED_AXIOMS = {"propext", "Classical.choice", "Quot.sound"}
FORBIDDEN = re.compile(r"\bsorry\b|\badmit\b|^\s*axiom\s|\bnative_decide\b|\bbv_decide\b|implemented_by|\bunsafe\s|maxHeartbeats\s+0\b|\bpartial\s+def\b|@\[extern")


class LeanLock:
    """Serialises lake runs of the *same* property (and, with name=None, lakefile regeneration). Different properties build
    concurrently: they only rebuild their own modules; shared modules and regenerated Gen files are unchanged on disk."""

    def __init__(self, name=None):
        self.name = name

    def __enter__(self):
        self.f = open(os.path.join(LEAN_DIR, ".verif.lock." + (self.name if self.name else "lakefile")), "w")
        fcntl.flock(self.f, fcntl.LOCK_EX)
        return self

    def __exit__(self, *a):
        fcntl.flock(self.f, fcntl.LOCK_UN)
        self.f.close()


def strip_comments(text):
    # block comments (nested) and line comments
    out = []
    i, depth, n = 0, 0, len(text)
    while i < n:
        if text.startswith("/-", i):
            depth += 1
            i += 2
        elif depth and text.startswith("-/", i):
            depth -= 1
            i += 2
        elif depth:
            if text[i] == "\n":
                out.append("\n")
            i += 1
        elif text.startswith("--", i):
            while i < n and text[i] != "\n":
                i += 1
        else:
            out.append(text[i])
            i += 1
    return "".join(out)


def module_path(mod):
    return os.path.join(LEAN_DIR, mod.replace(".", "/") + ".lean")


def import_closure(mod):
    seen, todo = [], [mod]
    while todo:
        m = todo.pop()
        if m in seen:
            continue
        p = module_path(m)
        if not os.path.exists(p):
            continue
        seen.append(m)
        for line in open(p):
            mm = re.match(r"\s*(?:public\s+)?import\s+((?:SquidModel|Driver)[\w.]*)", line)
            if mm:
                todo.append(mm.group(1))
    return seen


def theorems_of(mod):
    """Names of the theorems stated in a module, qualified by the enclosing namespaces."""
    text = strip_comments(open(module_path(mod)).read())
    ns, res = [], []
    for line in text.splitlines():
        m = re.match(r"\s*namespace\s+(\S+)", line)
        if m:
            ns.append(m.group(1))
            continue
        m = re.match(r"\s*end\s+(\S+)\s*$", line)
        if m and ns and ns[-1] == m.group(1):
            ns.pop()
            continue
        m = re.match(r"\s*(?:@\[[^\]]*\]\s*)?(?:private\s+|protected\s+)?theorem\s+(\S+)", line)
        if m:
            res.append(".".join(ns + [m.group(1)]))
    return res


LAKE_HEAD = """name = "squidmodel"
version = "0.1.0"
defaultTargets = ["SquidModel"]

[[lean_lib]]
name = "SquidModel"

[[lean_lib]]
name = "Driver"
"""


def driver_path(model):
    return os.path.join(LEAN_DIR, ".lake", "build", "bin", "model-" + model)


def gen_main():
    """lakefile.toml gets one lean_exe per Driver/<Model>.lean (root Driver.<Model>, which defines `main`),
    so that a driver under construction for one property cannot break the build of another."""
    mods = sorted(os.path.basename(p)[:-5] for p in glob.glob(os.path.join(LEAN_DIR, "Driver", "*.lean")))
    mods = [m for m in mods if m not in ("Main", "Loop")]
    text = LAKE_HEAD
    for m in mods:
        text += '\n[[lean_exe]]\nname = "model-%s"\nroot = "Driver.%s"\n' % (m.lower(), m)
    with LeanLock():
        write_if_changed(os.path.join(LEAN_DIR, "lakefile.toml"), text)


def lake_build(targets, timeout=3000):
    t = time.time()
    r = subprocess.run(["lake", "build"] + list(targets), cwd=LEAN_DIR, capture_output=True, text=True, timeout=timeout)
    return r.returncode == 0, r.stdout + r.stderr, round(time.time() - t, 2)


def failing_decls(output):
    """Map `error:` lines of a lake build to the declarations they fall in."""
    res = []
    for m in re.finditer(r"error: (\S+?\.lean):(\d+):(\d+): (.*)", output):
        f, ln = m.group(1), int(m.group(2))
        path = f if os.path.isabs(f) else os.path.join(LEAN_DIR, f)
        name = None
        try:
            lines = open(path).read().splitlines()
            for i in range(min(ln, len(lines)) - 1, -1, -1):
                mm = re.match(r"\s*(?:@\[[^\]]*\]\s*)?(?:private\s+)?(theorem|lemma|def|example|instance)\s*(\S*)", lines[i])
                if mm:
                    name = "%s %s" % (mm.group(1), mm.group(2))
                    break
        except OSError:
            pass
        res.append({"file": os.path.relpath(path, LEAN_DIR), "line": ln, "decl": name, "message": m.group(4)[:300]})
    return res


def audit(pid, prop_mod, extra_mods=()):
    """Forbidden-token scan over the import closure and `#print axioms` of every property theorem."""
    problems = []
    closure = import_closure(prop_mod)
    for m in closure:
        text = strip_comments(open(module_path(m)).read())
        for i, line in enumerate(text.splitlines(), 1):
            if FORBIDDEN.search(line):
                problems.append("forbidden token in %s:%d: %s" % (m, i, line.strip()[:120]))
    thms = theorems_of(prop_mod)
    for m in extra_mods:
        thms += theorems_of(m)
    audit_file = os.path.join(LEAN_DIR, "Audit", pid + ".lean")
    body = ["-- GENERATED: axiom audit of the property theorems of %s" % pid, "import %s" % prop_mod]
    body += ["import %s" % m for m in extra_mods]
    body += ["#print axioms %s" % t for t in thms]
    write_if_changed(audit_file, "\n".join(body) + "\n")
    r = subprocess.run(["lake", "env", "lean", audit_file], cwd=LEAN_DIR, capture_output=True, text=True)
    out = r.stdout + r.stderr
    axioms = {}
    # "'name' depends on axioms: [a, b]" or "'name' does not depend on any axioms"
    for m in re.finditer(r"'([^']+)' (?:depends on axioms: \[([^\]]*)\]|does not depend on any axioms)", out, re.S):
        axs = [a.strip() for a in (m.group(2) or "").replace("\n", " ").split(",") if a.strip()]
        axioms[m.group(1)] = axs
    discharged = 0
    for t in thms:
        if t not in axioms:
            problems.append("theorem %s not found by the audit" % t)
            continue
        bad = [a for a in axioms[t] if a not in ALLOWED_AXIOMS]
        if bad:
            problems.append("theorem %s depends on disallowed axioms %s" % (t, bad))
        else:
            discharged += 1
    if r.returncode != 0:
        problems.append("audit file failed to elaborate: " + out[-500:])
    return {"theorems": thms, "axioms": axioms, "discharged": discharged, "problems": problems,
            "closure": closure, "cmd": "lake env lean Audit/%s.lean" % pid}


def prove(pid, prop_mod, extra_mods=(), thorough=False, model=None):
    """Returns dict(ok, obligations, discharged, failures, ...). Must be called under LeanLock."""
    gen_main()
    targets = [prop_mod] + list(extra_mods)
    ok, out, secs = lake_build(targets)
    res = {"ok": ok, "build_s": secs, "cmds": ["lake build " + " ".join(targets)], "failures": [], "build_output_tail": ""}
    if model:
        # the driver is built separately: the model may still build when a proof broke
        dok, dout, _ = lake_build(["model-" + model])
        res["driver_ok"] = dok
        if not dok:
            res["driver_output_tail"] = dout[-2000:]
    if not ok:
        res["failures"] = failing_decls(out)
        res["build_output_tail"] = out[-4000:]
        # obligations still counted from the source
        try:
            thms = theorems_of(prop_mod)
        except OSError:
            thms = []
        res.update({"obligations": max(1, len(thms)), "discharged": 0, "theorems": thms, "axioms": {}, "closure": import_closure(prop_mod)})
        return res
    a = audit(pid, prop_mod, extra_mods)
    res["cmds"].append(a["cmd"])
    res.update({"obligations": len(a["theorems"]), "discharged": a["discharged"], "theorems": a["theorems"],
                "axioms": a["axioms"], "closure": a["closure"]})
    if a["problems"]:
        res["ok"] = False
        res["failures"] = [{"file": "audit", "line": 0, "decl": None, "message": p} for p in a["problems"]]
    if thorough and res["ok"]:
        r = subprocess.run(["lake", "env", "leanchecker", prop_mod], cwd=LEAN_DIR, capture_output=True, text=True)
        res["cmds"].append("lake env leanchecker %s" % prop_mod)
        res["leanchecker_rc"] = r.returncode
        if r.returncode != 0:
            res["ok"] = False
            res["failures"].append({"file": "leanchecker", "line": 0, "decl": None, "message": (r.stdout + r.stderr)[-500:]})
    return res
