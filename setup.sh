#!/bin/bash
# Builds the Lean library (all property modules) and the native model drivers from files on disk only.
set -e
cd "$(dirname "$0")"
python3 -c "
import sys; sys.path[:0]=['lib']
from vf import leanp; leanp.gen_main()"
cd lean
props=$(ls SquidModel/Properties/*.lean | sed 's|/|.|g; s|\.lean$||')
drivers=$(ls Driver/C*.lean 2>/dev/null | sed 's|Driver/|model-|; s|\.lean$||' | tr 'A-Z' 'a-z')
lake build SquidModel Driver $props $drivers 2>&1 | tail -5
