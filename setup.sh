#!/bin/bash
# Builds the Lean library (the claimed property modules) and the native model drivers from files on disk only.
set -e
cd "$(dirname "$0")"
python3 -c "
import sys; sys.path[:0]=['lib']
from vf import leanp; leanp.gen_main()"
claimed=$(cat tools/claimed.txt)
cd lean
props=""; drivers=""
for c in $claimed; do
  [ -f SquidModel/Properties/$c.lean ] && props="$props SquidModel.Properties.$c"
  [ -f Driver/$c.lean ] && drivers="$drivers model-$(echo $c | tr 'A-Z' 'a-z')"
done
lake build SquidModel Driver $props $drivers 2>&1 | tail -5
