"""C29 Cache-Control directives parse and re-serialise faithfully."""
import os, re
from vf.util import VERIF, hx, unhx
from vf.harness import ProcHarness

ID = "C29"
PROP_MODULE = "SquidModel.Properties.C29"
MODEL = "c29"
GEN = ["cc_directives"]
MAX_REPORT = 80
MINIMISE_BUDGET = 60
RULE = ("p <hex>: HttpHdrCc::parse on a NUL-free field value (< 64 KB), state read through the accessors, packInto, parse of the packed "
        "text; judged by a python reference written from the RFC 9111 grammar and the property text (first occurrence wins, numeric "
        "argument = 1*DIGIT <= INT32_MAX else absent, quoted-string field lists unescaped, unknown directives kept verbatim in order) "
        "and by re-parse == first parse. i/n/q <hex>: strListGetItem / httpHeaderParseInt / httpHeaderParseQuotedString alone "
        "(exhaustive small alphabets; model correspondence + reference on the strictly valid subset). "
        "non-trivial = a p case in which parse recorded at least one directive; distinct = distinct input lines")
TRUSTED = ["modelled, not verified: glibc strtol (skip isspace, optional sign, digits, saturation + ERANGE, end == start without digits), "
           "String/MemBuf/appendf as byte-list append and %d/%s formatting, LookupTable as case-insensitive last-match lookup over attrsList",
           "python reference lexer/oracle in props/C29.py (RFC 9111 section 5.2 grammar, RFC 9110 quoted-string)"]
ASSUMPTIONS = ["field values are C strings (no NUL) shorter than 65535 octets (SquidString limit); each parse starts from a freshly "
               "constructed HttpHdrCc (as HttpHeader::getCc does)",
               "C locale (isspace/isdigit/tolower sets are regenerated from the running code)"]
MANIFEST = {
    "text": "partial: (finding) the code violates the statement on four input classes (numeric arguments with sign / white space / "
            "trailing text are accepted; quoted-pairs of DQUOTE and backslash are mis-decoded; HTAB inside a quoted field list is "
            "rejected; a value with unknown directives only is reported as failure and packed as nothing), each proved as a "
            "counterexample theorem of the model and re-confirmed on the real code every run. Outside them, for EVERY field value: "
            "parse_exact (each known directive shows what its first effective item records, unknown directives are kept verbatim in "
            "order), items_wellformed / items_of_joined / items_complete (the splitter delivers exactly the elements of a joined "
            "list and never stops early), valid_numeric_exact + invalid_numeric_absent_partial, quoted_list_exact, and "
            "pack_parse_roundtrip_partial (whenever parse succeeds, parse(pack(parse s)) shows the same directives)",
    "note": "trusted: Lean kernel (+propext/Classical.choice/Quot.sound as printed), translator + dump program, C++ harness, python "
            "reference oracle; modelled not verified: glibc strtol, String/MemBuf/appendf as byte lists, LookupTable as a "
            "case-insensitive last-match lookup (covered by the differential run under ASan/UBSan only)",
    "technique": "Lean 4 proofs (induction over the item list and the scan state, fold invariants, decide over the regenerated table) over "
                 "a branch-by-branch model of parse/packInto/strListGetItem/httpHeaderParseInt/httpHeaderParseQuotedString + table "
                 "translator + ASan/UBSan differential run with an RFC-grammar reference oracle and exhaustive small scopes",
}

UNDER_TEST = ["src/HttpHdrCc.cc", "src/StrList.cc", "src/HttpHeaderTools.cc", "src/HttpHeader.cc"]
DROP = ("HttpHdrCc.o", "StrList.o", "HttpHeaderTools.o", "HttpHeader.o")


def link_direct(stage, test, objs, out):
    """the tree's link recipe for `test` without the libtool wrapper: convenience libraries X.la -> .libs/X.a (none of them has
    dependency_libs), the test's own object -> objs, sanitizer-built copies instead of DROP"""
    import shlex, subprocess
    toks = shlex.split(stage.link_recipe(test))
    while toks and not toks[0].startswith("g++"):
        toks.pop(0)
    res, skip = [], False
    for tk in toks:
        if skip:
            skip = False
            continue
        if tk == "-o":
            res += ["-o", out]
            skip = True
        elif tk in (test + ".o", test + ".lo"):
            res += list(objs)
        elif tk in DROP or tk == "-Werror":
            continue
        elif tk.endswith(".la"):
            d, b = os.path.split(tk)
            res.append(os.path.join(d, ".libs", b[:-3] + ".a"))
        else:
            res.append(tk)
    res += ["-fsanitize=address,undefined"]
    r = subprocess.run(res, cwd=os.path.join(stage.repo, "src"), capture_output=True, text=True)
    if r.returncode != 0 or not os.path.exists(out):
        raise RuntimeError(r.stderr[-3000:])
    return out


def build_exe(stage):
    built = getattr(stage, "built", None)
    if built is None:
        built = stage.built = {}
    if "c29" in built:
        return built["c29"]
    # the harness TU defines `Config` (as the recipe's test program does); vptr checks there would need typeinfo of Store::Disk
    objs = [stage.compile(os.path.join(VERIF, "harness", "c29.cc"), extra=["-fno-sanitize=vptr"])] + stage.compile_many(UNDER_TEST)
    out = os.path.join(stage.work, "c29")
    try:
        exe = link_direct(stage, "tests/testHttpReply", objs, out)
    except Exception:   # the tree's own way (slow under load: libtool is a shell script)
        exe = stage.link_like("tests/testHttpReply", objs, out, drop=DROP)
    built["c29"] = exe
    return exe


def harness_env():
    return {"UBSAN_OPTIONS": "print_stacktrace=0:halt_on_error=1:exitcode=86",
            "ASAN_OPTIONS": "detect_leaks=0:abort_on_error=0:exitcode=86:allocator_may_return_null=1", "LC_ALL": "C"}


def build(stage):
    return ProcHarness([build_exe(stage)], env=harness_env())


# ----------------------------------------------------------------------------------------------------------------------
# reference (RFC 9111 section 5.2, RFC 9110 section 5.6): written from the grammar and the property text, not from the code
# ----------------------------------------------------------------------------------------------------------------------
INT32_MAX = 2 ** 31 - 1
MAX_STALE_ANY = INT32_MAX   # "max-stale" without a value: any staleness (HttpHdrCc.h MAX_STALE_ANY); a representation choice
FLAGS = ["public", "no-store", "no-transform", "must-revalidate", "proxy-revalidate", "only-if-cached", "immutable"]
NUMERIC = {"max-age": "ma", "s-maxage": "sm", "max-stale": "ms", "min-fresh": "mf", "stale-if-error": "sie"}
LISTS = {"private": "priv", "no-cache": "nc"}
KNOWN = set(FLAGS) | set(NUMERIC) | set(LISTS)
C_SPACE = b" \t\n\x0b\x0c\r"

TOKEN = rb"[!#$%&'*+\-.^_`|~0-9A-Za-z]+"
QS = rb'"(?:[\t \x21\x23-\x5b\x5d-\x7e\x80-\xff]|\\[\t \x21-\x7e\x80-\xff])*"'
QS_RE = re.compile(QS)
DIGITS_RE = re.compile(rb"[0-9]+")
ATOI_RE = re.compile(rb"[ \t\n\x0b\x0c\r]*([+-]?)([0-9]+)")


def split_elements(v):
    """top-level split at commas; a DQUOTE opens a quoted-string in which backslash escapes the next octet"""
    elems, cur, q, i = [], bytearray(), False, 0
    while i < len(v):
        c = v[i]
        if q:
            if c == 0x5C and i + 1 < len(v):
                cur += v[i:i + 2]
                i += 2
                continue
            if c == 0x22:
                q = False
            cur.append(c)
        else:
            if c == 0x2C:
                elems.append(bytes(cur))
                cur = bytearray()
                i += 1
                continue
            if c == 0x22:
                q = True
            cur.append(c)
        i += 1
    elems.append(bytes(cur))
    return elems


def has_ctl(e):
    return any((b < 0x20 and b != 9) or b == 0x7F for b in e)


def unescape_qs(qs):
    body, out, i = qs[1:-1], bytearray(), 0
    while i < len(body):
        if body[i] == 0x5C:
            out.append(body[i + 1])
            i += 2
        else:
            out.append(body[i])
            i += 1
    return bytes(out)


def name_arg(e):
    if b"=" in e:
        n, a = e.split(b"=", 1)
        return n, a
    return e, None


def known_name(n):
    k = n.lower().decode("latin-1")
    return k if k in KNOWN else None


def reference(v):
    """-> (expected, unspecified): expected = {'flags': set, 'num': {k: int}, 'priv': bytes|None, 'nc': bytes|None, 'other': [bytes]};
    unspecified = set of directive names (or 'other') the property text says nothing about for this input"""
    exp = {"flags": set(), "num": {}, "priv": None, "nc": None, "other": []}
    unspec, done = set(), set()
    for raw in split_elements(v):
        e = raw.strip(b" \t")
        if not e:
            continue
        if has_ctl(e):
            core = e.strip(C_SPACE)
            if not core:
                continue            # an element of white-space controls only: nothing is present
            k = known_name(name_arg(core)[0])
            unspec.add(k or "other")
            unspec.add("other")     # (with its control octets the element may also count as an unknown directive)
            continue
        n, a = name_arg(e)
        k = known_name(n)
        if k is None:
            exp["other"].append(e)
            continue
        if k in done or k in unspec:
            continue                # first occurrence wins
        if k in NUMERIC:
            if a is not None and DIGITS_RE.fullmatch(a) and int(a) <= INT32_MAX:
                exp["num"][k] = int(a)
                done.add(k)
            elif k == "max-stale":  # the value is optional: an invalid value is treated as absent
                exp["num"][k] = MAX_STALE_ANY
                done.add(k)
            # else: invalid numeric value = directive absent; a later occurrence may still count
        elif k in LISTS:
            if a is None:
                exp[LISTS[k]] = b""
                done.add(k)
            elif QS_RE.fullmatch(a):
                exp[LISTS[k]] = unescape_qs(a)
                done.add(k)
            else:
                unspec.add(k)       # token form / malformed argument: outside "quoted field lists"
        else:
            if a is None:
                exp["flags"].add(k)
                done.add(k)
            else:
                unspec.add(k)       # a flag with an argument
    return exp, unspec


STATE_RE = re.compile(r"ok=([01]) flags=(\S+) ma=(\S+) sm=(\S+) ms=(\S+) mf=(\S+) sie=(\S+) priv=(\S+) nc=(\S+) other=(\S+)$")


def parse_state(text):
    m = STATE_RE.match(text.strip())
    if not m:
        return None
    g = m.groups()
    flags = set() if g[1] == "-" else set(g[1].split(","))
    st = {"ok": int(g[0]), "flags": flags, "num": {}, "priv": None if g[7] == "~" else unhx(g[7]),
          "nc": None if g[8] == "~" else unhx(g[8]), "other": unhx(g[9])}
    for k, val in zip(["max-age", "s-maxage", "max-stale", "min-fresh", "stale-if-error"], g[2:7]):
        if val != "-":
            st["num"][k] = int(val)
    return st


def split_impl(impl):
    """-> (state1, packed bytes, state2) or None"""
    try:
        first, second = impl.split(" || ")
        s1, pk = first.rsplit(" pack=", 1)
        a, b = parse_state(s1), parse_state(second)
        if a is None or b is None:
            return None
        return a, unhx(pk), b
    except ValueError:
        return None


def mismatches_p(v, impl):
    """list of tagged mismatches between the implementation's observation and the reference"""
    sp = split_impl(impl)
    if sp is None:
        return ["format: unparsable output " + impl[:120]]
    st, packed, st2 = sp
    exp, unspec = reference(v)
    out = []
    for k in FLAGS:
        if k not in unspec and (k in st["flags"]) != (k in exp["flags"]):
            out.append("flag:%s expected %s got %s" % (k, k in exp["flags"], k in st["flags"]))
    for k in NUMERIC:
        if k in unspec:
            continue
        want, got = exp["num"].get(k), st["num"].get(k)
        if want != got or (k in st["flags"]) != (want is not None):
            out.append("num:%s expected %s got %s" % (k, "-" if want is None else want, "-" if got is None else got))
    for k, f in LISTS.items():
        if k in unspec:
            continue
        if exp[f] != st[f] or (k in st["flags"]) != (exp[f] is not None):
            out.append("list:%s expected %s got %s" % (k, "~" if exp[f] is None else hx(exp[f]), "~" if st[f] is None else hx(st[f])))
    if "other" not in unspec and st["other"] != b", ".join(exp["other"]):
        out.append("other: expected %s got %s" % (hx(b", ".join(exp["other"])), hx(st["other"])))
    present = bool(exp["flags"] or exp["num"] or exp["priv"] is not None or exp["nc"] is not None or exp["other"])
    if not out:     # (otherwise a wrong return value is a consequence of the mismatch already listed)
        if present and not st["ok"]:
            out.append("ok: parse reports failure although directives are present")
        if not present and not unspec and st["ok"]:
            out.append("ok: parse reports success although no directive is present")
    if st["flags"] and not st["ok"]:
        out.append("ok: parse reports failure although isSet() shows directives")
    # re-serialise: the packed text must parse to the same directives
    for key in ("ok", "flags", "num", "priv", "nc", "other"):
        if st[key] != st2[key]:
            out.append("roundtrip:%s first %r, after pack+parse %r" % (key, st[key], st2[key]))
            break
    return out


# ---- the classes of inputs on which the real code is known to violate the statement (known_findings.d/C29.json) ----
def lenient_value(a):
    """what httpHeaderParseInt (strtol + int range check) makes of the argument; None = rejected
    (used only to recognise the known defect's signature)"""
    m = ATOI_RE.match(a)
    if not m:
        return None
    mag = int(m.group(2))
    val = -mag if m.group(1) == b"-" else mag
    if val < -2 ** 31 or val > 2 ** 31 - 1:
        return None
    if val == 0 and not a[:1].isdigit():
        return None
    return val


def numeric_region(a):
    """'lenient' | None for the argument text of a numeric directive"""
    if a is None or DIGITS_RE.fullmatch(a):
        return None
    v = lenient_value(a)
    if v is None or v < 0:
        return None
    return "lenient"


def regions(v):
    """the known-finding classes this field value falls into (by its text alone)"""
    res = set()
    elems = [e for e in (r.strip(b" \t") for r in split_elements(v)) if e]
    anything_known = False
    for idx, e in enumerate(elems):
        core = e.strip(C_SPACE)
        if not core:
            continue            # white-space controls only: skipped like any other white space
        n, a = name_arg(core if has_ctl(e) else e)
        k = known_name(n)
        if k:
            anything_known = True
        if k in NUMERIC:
            if numeric_region(a) == "lenient":
                res.add("C29-numeric-lenient")
        if k in LISTS and a is not None and QS_RE.fullmatch(a):
            body = a[1:-1]
            i = 0
            while i < len(body):
                if body[i] == 0x5C:
                    if body[i + 1] in (0x22, 0x5C):
                        res.add("C29-quoted-pair")
                    if body[i + 1] == 9:
                        res.add("C29-htab-in-quoted-string")
                    i += 2
                else:
                    if body[i] == 9:
                        res.add("C29-htab-in-quoted-string")
                    i += 1
    exp, unspec = reference(v)
    if (exp["other"] or "other" in unspec) and not (exp["flags"] or exp["num"] or exp["priv"] is not None or exp["nc"] is not None):
        res.add("C29-other-only-dropped")   # only unknown directives are (or may be) present
    return res


def explained(tag, v, impl, regs):
    kind = tag.split(":", 1)[0]
    if kind == "num" and "C29-numeric-lenient" in regs:
        return "C29-numeric-lenient"
    if kind == "list":
        if "C29-quoted-pair" in regs:
            return "C29-quoted-pair"
        if "C29-htab-in-quoted-string" in regs:
            return "C29-htab-in-quoted-string"
    if kind in ("ok", "roundtrip"):
        sp = split_impl(impl)
        if sp and sp[0]["ok"] == 0 and sp[0]["other"]:
            return "C29-other-only-dropped"
    return None


def classify(line, impl, why):
    w = line.split(" ")
    if w[0] == "q" and len(w) == 3 and (not why or why.startswith("model and implementation differ")):
        # httpHeaderParseQuotedString alone: a repair of the two quoted-string findings changes these answers
        try:
            v = unhx(w[2])
        except ValueError:
            return None
        if b'\\"' in v or b"\\\\" in v:
            return "C29-quoted-pair"
        if b"\t" in v:
            return "C29-htab-in-quoted-string"
        return None
    if w[0] != "p" or len(w) != 2:
        return None
    try:
        v = unhx(w[1])
    except ValueError:
        return None
    regs = regions(v)
    if not why or why.startswith("model and implementation differ"):
        if not regs:
            # a private=/no-cache= argument that opens a quoted-string and contains \" or \\ without being a well-formed
            # quoted-string: the oracle does not judge it, but a repair of the quoted-pair defect reads it differently
            for e in (r.strip(b" \t") for r in split_elements(v)):
                n, a = name_arg(e)
                if known_name(n) in LISTS and a is not None and a.startswith(b'"') and (b'\\"' in a or b"\\\\" in a):
                    return "C29-quoted-pair"
            return None
        # correspondence break inside a known class (the model follows the unrepaired code; a candidate fix changes the implementation)
        return sorted(regs)[0]
    ids = []
    for tag in mismatches_p(v, impl):
        fid = explained(tag, v, impl, regs)
        if fid is None:
            return None
        ids.append(fid)
    return ids[0] if ids else None


def oracle(line, impl):
    w = line.split(" ")
    if impl.startswith("abort:"):
        return "sanitizer/abort: " + impl
    if impl == "bad-op":
        return None
    try:
        if w[0] == "p":
            ms = mismatches_p(unhx(w[1]), impl)
            return "; ".join(ms[:6]) if ms else None
        if w[0] == "i":
            v = unhx(w[1])
            if has_ctl(v):
                return None
            want = [e for e in (r.strip(b" \t") for r in split_elements(v)) if e]
            got = impl.split(" ")
            if int(got[0]) != len(want) or [unhx(x) for x in got[1:]] != want:
                return "list items differ from the reference split: expected %s" % " ".join(hx(x) for x in want)
            return None
        if w[0] == "n":
            v = unhx(w[1])
            if DIGITS_RE.fullmatch(v) and int(v) <= INT32_MAX:
                return None if impl == "ok %d" % int(v) else "valid decimal %s parsed as %s" % (v.decode(), impl)
            if ATOI_RE.match(v) is None:
                return None if impl == "fail" else "text without a number accepted: " + impl
            if DIGITS_RE.fullmatch(v):
                return None if impl == "fail" else "a decimal that does not fit int parsed as " + impl
            return None     # lenient spellings (sign, white space, trailing text): judged at the directive level (p)
        if w[0] == "q":
            n, v = int(w[1]), unhx(w[2])
            body = v[:n]
            if QS_RE.fullmatch(body) and b"\t" not in body and b'\\"' not in body and b"\\\\" not in body:
                want = "ok " + hx(unescape_qs(body))
                return None if impl == want else "quoted-string %s parsed as %s, expected %s" % (hx(body), impl, want)
            if not v.startswith(b'"') or v.count(b'"') < 2:     # (len is only a bound: the closing quote may lie beyond it)
                return None if impl == "fail" else "text that is not a quoted-string accepted: " + impl
            return None
    except (ValueError, IndexError) as e:
        return "unparsable output %s (%s)" % (impl[:100], e)
    return None


# ----------------------------------------------------------------------------------------------------------------------
# generators
# ----------------------------------------------------------------------------------------------------------------------
NAMES = sorted(KNOWN)
EXT_NAMES = [b"foo", b"stale-while-revalidate", b"community", b"x", b"no-cach", b"max-agee", b"Other", b"post-check", b"pre-check",
             b"must-understand", b"private2", b"public-ish"]
FIELD_NAMES = [b"set-cookie", b"Set-Cookie", b"x-a", b"X-B", b"authorization", b"etag", b"a", b"b"]
BOUNDARY_NUMS = [0, 1, 9, 10, 99, 100, 86400, 31536000, 2 ** 31 - 2, 2 ** 31 - 1, 2 ** 31, 2 ** 31 + 1, 2 ** 32 - 1, 2 ** 32, 2 ** 32 + 1,
                 2 ** 32 + 2 ** 31 - 1, 2 ** 32 + 2 ** 31, 2 ** 33, 2 ** 63 - 1, 2 ** 63, 2 ** 63 + 1, 2 ** 64 - 1, 2 ** 64, 2 ** 64 + 5,
                 10 ** 19, 10 ** 20, 10 ** 40, 4294967297, 8589934592 + 77]


def rcase(rng, name):
    k = rng.below(4)
    if k == 0:
        return name
    if k == 1:
        return name.upper()
    if k == 2:
        return name.title()
    return bytes((c ^ 0x20) if (65 <= (c & ~0x20) <= 90 and rng.chance(1, 2)) else c for c in name)


def valid_number(rng):
    k = rng.below(6)
    if k == 0:
        return rng.choice([0, 1, 60, 3600, 86400, 31536000])
    if k == 1:
        return rng.range(0, 1000)
    if k == 2:
        return INT32_MAX - rng.below(3)
    return rng.below(INT32_MAX + 1)


def field_list(rng):
    n = rng.range(0, 4)
    sep = rng.choice([b",", b", ", b" , ", b",  "])
    return sep.join(rng.choice(FIELD_NAMES) for _ in range(n))


def quote(rng, raw, pairs):
    """quoted-string spelling of raw; pairs: also use quoted-pairs for octets that do not need one"""
    out = bytearray(b'"')
    for c in raw:
        if c in (0x22, 0x5C) or (pairs and rng.chance(1, 6) and c not in (9,)):
            out.append(0x5C)
        out.append(c)
    out.append(0x22)
    return bytes(out)


def valid_directive(rng):
    """one directive of the grammar the property speaks about (never inside a known-finding class)"""
    k = rng.below(10)
    if k < 3:
        return rcase(rng, rng.choice(FLAGS).encode())
    if k < 6:
        name = rng.choice(sorted(NUMERIC)).encode()
        if name == b"max-stale" and rng.chance(1, 3):
            return rcase(rng, name)
        digits = str(valid_number(rng)).encode()
        if rng.chance(1, 8):
            digits = b"0" * rng.range(1, 12) + digits      # leading zeros: still 1*DIGIT
        return rcase(rng, name) + b"=" + digits
    if k < 8:
        name = rng.choice(sorted(LISTS)).encode()
        if rng.chance(1, 3):
            return rcase(rng, name)
        raw = field_list(rng)
        if rng.chance(1, 6):
            raw = bytes(rng.choice(b"abc xyz-_;=/\x80\xfe~!") for _ in range(rng.range(0, 12)))
        return rcase(rng, name) + b"=" + quote(rng, raw, rng.chance(1, 4))
    name = rng.choice(EXT_NAMES)
    j = rng.below(4)
    if j == 0:
        return name
    if j == 1:
        return name + b"=" + rng.choice([b"1", b"abc", b"5x", b"0", b"99999999999"])
    if j == 2:
        return name + b"=" + quote(rng, field_list(rng), False)
    return name + b'="a, b\\"c,\\\\d"'


def render_list(rng, ds):
    out = bytearray()
    if rng.chance(1, 10):
        out += rng.choice([b" ", b",", b", ,", b"\t"])
    for i, d in enumerate(ds):
        if i:
            out += rng.choice([b", ", b",", b" ,", b" , ", b",,", b", , ", b",\t", b"  ,  "])
        out += d
    if rng.chance(1, 10):
        out += rng.choice([b" ", b",", b" ,", b"\t ", b", "])
    return bytes(out)


def valid_value(rng):
    n = rng.choice([1, 1, 2, 2, 3, 3, 4, 5, 6, 8, 12])
    ds = [valid_directive(rng) for _ in range(n)]
    if rng.chance(1, 3) and ds:   # duplicates, possibly with another spelling / value
        for _ in range(rng.range(1, 3)):
            d = rng.choice(ds)
            nm = name_arg(d)[0]
            alt = valid_directive(rng)
            ds.insert(rng.below(len(ds) + 1), rng.choice([d, rcase(rng, nm), alt if name_arg(alt)[0].lower() == nm.lower() else d]))
    return render_list(rng, ds)


def boundary_value(rng):
    """numeric limits and odd spellings, quoted-string corner cases; some fall into known-finding classes (capped by cases())"""
    k = rng.below(8)
    name = rng.choice(sorted(NUMERIC)).encode()
    if k == 0:
        arg = str(rng.choice(BOUNDARY_NUMS)).encode()
    elif k == 1:
        arg = str(rng.choice(BOUNDARY_NUMS) + rng.range(-2, 2) if rng.chance(1, 2) else rng.below(2 ** 66)).encode().lstrip(b"-")
    elif k == 2:
        arg = rng.choice([b"", b"-0", b"-1", b"+1", b"+0", b" 1", b"1 ", b"\t7", b"0x10", b"1e3", b"1.5", b"\xd9\xa1", b"--1", b"+-1", b"1-", b'"5"',
                          b"'5'", b"5,6", b"0000", b"00000000000000000000001", b"-2147483648", b"-4294967295", b"-4294967297",
                          b"-9223372036854775808", b"-9223372036854775809", b"-99999999999999999999", b"9" * 30, b"abc", b"=5", b"5=5"])
    elif k == 3:
        lst = rng.choice(sorted(LISTS)).encode()
        arg = rng.choice([b'""', b'"', b'"a', b'a"', b'"a"b', b'"a""b"', b'"a\\"b"', b'"a\\\\b"', b'"\\\\"', b'"\\""', b'"a\\', b'"a\\b"', b'"\\a\\b\\c"',
                          b'"a\tb"', b'"a\\\tb"', b'"a b"', b'" a "', b'"a,b"', b'"a, b", c', b"'a'", b'"a\x7fb"', b'"a\x01b"', b'"a\x80b"',
                          b'"\xff"', b'"a\r\n b"', b'"a\n b"', b'"a\r b"', b'"a\nb"', b'"a\r\n\tb"', b' "a"', b'"a" ', b"a", b"a b", b""])
        rest = rng.choice([b"", b", public", b", max-age=5", b", foo"])
        return (lst + b"=" + arg + rest) if rng.chance(3, 4) else (b"no-store, " + lst + b"=" + arg + rest)
    elif k == 4:   # first invalid, second valid and the other way round
        a, b = rng.choice([b"x", b"", b"-5", b"2147483648"]), str(valid_number(rng)).encode()
        pair = [name + b"=" + a, name + b"=" + b]
        if rng.chance(1, 2):
            pair.reverse()
        return b", ".join(pair + [b"public"] * rng.below(2))
    elif k == 5:   # long values (the String limit is 65535; MemBuf growth under ASan makes the very long ones slow: few of them)
        n = rng.choice([200, 200, 200, 1000, 1000, 4000]) if not rng.chance(1, 40) else 20000
        if rng.chance(1, 2):
            return b"private=" + quote(rng, bytes(rng.choice(b"abcdefgh, -") for _ in range(n)), False) + b", max-age=1"
        return render_list(rng, [valid_directive(rng) for _ in range(n // 12)])[:65000]
    elif k == 6:   # white space / control octets around and inside elements
        ws = rng.choice([b"\x0b", b"\x0c", b"\r", b"\n", b"\r\n", b"\x0b\x0c", b"\t", b"  ", b"\x01", b"\x7f"])
        forms = [b"public," + ws + b",no-store", b"public" + ws + b", no-store", ws + b"public, max-age=3", b"public, max-age=3" + ws,
                 b"max-age=" + ws + b"3, public", b"max-age" + ws + b"=3, public", b"pub" + ws + b"lic, no-store",
                 b"foo" + ws + b", bar, public", b"public, " + ws]
        return rng.choice(forms)
    else:
        return name + b"=" + str(rng.choice(BOUNDARY_NUMS)).encode() + rng.choice([b"", b"x", b" ", b";q=1", b".0"])
    tail = rng.choice([b"", b", public", b", no-store, foo=1"])
    return rcase(rng, name) + b"=" + arg + tail


def mutate(rng, v):
    v = bytearray(v)
    for _ in range(rng.range(1, 3)):
        k = rng.below(7)
        if k == 0 and v:
            v[rng.below(len(v))] ^= 1 << rng.below(8)
        elif k == 1 and v:
            del v[rng.below(len(v)):]                       # truncation
        elif k == 2 and v:
            i = rng.below(len(v)); j = rng.range(i, min(len(v), i + 8))
            v[i:i] = v[i:j]                                 # duplication
        elif k == 3 and v:
            i = rng.below(len(v)); j = rng.range(i, min(len(v), i + 6))
            del v[i:j]                                      # deletion
        elif k == 4:
            v.insert(rng.below(len(v) + 1), rng.choice(b'",\\= \t=",;\x0b\r\n0129-+'))
        elif k == 5:
            other = valid_value(rng)
            i = rng.below(len(v) + 1)
            v[i:] = other[rng.below(len(other) + 1):]       # splice
        else:
            v = bytearray(bytes(v).replace(b", ", rng.choice([b",", b" ,", b";", b", ,"]), 1))
    return bytes(v).replace(b"\0", b"0")


def strings_over(alphabet, maxlen):
    def rec(prefix, n):
        if n == 0:
            yield prefix
            return
        for c in alphabet:
            yield from rec(prefix + bytes([c]), n - 1)
    for n in range(0, maxlen + 1):
        yield from rec(b"", n)


class Capper:
    """keeps the number of cases inside known-finding classes small: run.py examines every failing case one by one"""

    def __init__(self, per_class):
        self.per_class = per_class
        self.count = {}

    def admit(self, v):
        regs = regions(v)
        if not regs:
            return True
        if any(self.count.get(r, 0) >= self.per_class for r in regs):
            return False
        for r in regs:
            self.count[r] = self.count.get(r, 0) + 1
        return True


def cases(rng, tier):
    thorough = tier == "thorough"
    cap = Capper(8 if thorough else 5)
    seen = set()

    def emit(op, v, *pre):
        line = " ".join([op] + [str(x) for x in pre] + [hx(v)])
        if line in seen or b"\0" in v or len(v) >= 65535:
            return None
        if op == "p" and not cap.admit(v):
            return None
        seen.add(line)
        return line

    out = []

    def add(op, v, *pre):
        l = emit(op, v, *pre)
        if l:
            out.append(l)

    # every known name alone, with a valid value, in three spellings; every name followed by each boundary number
    for name in NAMES:
        nb = name.encode()
        for sp in (nb, nb.upper(), nb.title()):
            add("p", sp)
            add("p", sp + b"=7")
            add("p", sp + b'="a, b"')
            add("p", b"foo, " + sp + b", bar=1")
    for name in sorted(NUMERIC):
        for n in BOUNDARY_NUMS:
            add("p", name.encode() + b"=" + str(n).encode() + b", public")
    # grammar-directed valid lists
    for _ in range(6000 if thorough else 1500):
        add("p", valid_value(rng))
    # boundary stream
    for _ in range(2500 if thorough else 600):
        add("p", boundary_value(rng))
    # exhaustive small scopes
    #  p: every string over a structural alphabet after "public, " (so that the result is never "no directive at all")
    for s in strings_over(b'a=,"\\ ', 6 if thorough else 4):
        add("p", b"public, " + s)
    for s in strings_over(b'"\\a, ', 5 if thorough else 3):
        add("p", b"no-store, private=" + s)
        add("p", b"no-cache=" + s + b", immutable")
    for s in strings_over(b"019-+ x", 4 if thorough else 2):
        add("p", b"max-age=" + s + b", public")
    #  i: the splitter alone
    for s in strings_over(b'a,"\\ \x0b', 6 if thorough else 5):
        add("i", s)
    #  n: httpHeaderParseInt alone
    for s in strings_over(b"019-+ x", 5 if thorough else 4):
        add("n", s)
    for n in BOUNDARY_NUMS:
        for d in (-1, 0, 1):
            for sign in (b"", b"-", b"+"):
                add("n", sign + str(max(0, n + d)).encode())
    #  q: httpHeaderParseQuotedString alone, every len
    for s in strings_over(b'"\\a\t\r\n ', 4 if thorough else 3):
        if s[:1] == b'"' or len(s) <= 1:
            for n in range(len(s) + 1):
                add("q", s, n)
    # mutation stream (last: it lands in the known classes most often)
    for _ in range(5000 if thorough else 1200):
        base = valid_value(rng) if rng.chance(3, 4) else boundary_value(rng)
        add("p", mutate(rng, base))
    for _ in range(300 if thorough else 80):      # a little fully random
        add("p", bytes(rng.range(1, 255) for _ in range(rng.range(0, 40))))
        add("p", rng.bytes(rng.range(0, 24), b'max-age=,"\\ 0159privtnoch\t\x0b'))
        v = rng.bytes(rng.range(0, 12), b'"\\ab \t\r\n\x01\x7f,')
        add("q", b'"' + v, rng.range(0, len(v) + 1))
        add("n", rng.bytes(rng.range(0, 24), b"0123456789 -+x\t"))
        add("i", rng.bytes(rng.range(0, 30), b'ab,"\\ \t\x0b\r\n='))
    return out


def shrink(line):
    w = line.split(" ")
    if w[0] == "p" and len(w) == 2:
        try:
            if regions(unhx(w[1])):
                return      # a witness of a known class: keep it as it is
        except ValueError:
            return
    from vf.run import default_shrink
    if w[0] == "q":
        return              # len and text belong together
    yield from default_shrink(line)


def nontrivial(line, impl, model):
    return line.startswith("p ") and impl.startswith("ok=1")


def tag(line, impl, model):
    w = line.split(" ")
    if w[0] != "p":
        return w[0] + (" ok" if impl.startswith("ok") else " fail" if impl == "fail" else " n=" + impl.split(" ")[0] if w[0] == "i" else " " + impl[:12])
    try:
        v = unhx(w[1])
    except ValueError:
        return "p bad"
    regs = regions(v)
    if regs:
        return "p known-class " + sorted(regs)[0]
    sp = split_impl(impl)
    if sp is None:
        return "p " + impl[:20]
    st = sp[0]
    feats = []
    if st["num"]:
        feats.append("num")
    if st["priv"] or st["nc"]:
        feats.append("list")
    if st["other"]:
        feats.append("other")
    if st["flags"] & set(FLAGS):
        feats.append("flag")
    n = len([e for e in split_elements(v) if e.strip(C_SPACE)])
    return "p %s items=%s %s" % ("ok" if st["ok"] else "none", "0" if n == 0 else "1" if n == 1 else "2-4" if n <= 4 else "5+", "+".join(feats) or "-")


def exhaustive(tier):
    return True   # the small-alphabet scopes listed in cases() are complete up to the tier's length


KNOWN_MUST_MATCH_MODEL = True   # inside a known finding's region the observation must still equal the model's (which reproduces the listed defect); see lib/vf/run.py
