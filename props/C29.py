"""C29 Cache-Control directives parse and re-serialise faithfully."""
import os
from vf.util import VERIF, hx, unhx
from vf.harness import ProcHarness

ID = "C29"
PROP_MODULE = "SquidModel.Properties.C29"
MODEL = "c29"
GEN = ["cc_directives"]

UNDER_TEST = ["src/HttpHdrCc.cc", "src/StrList.cc", "src/HttpHeaderTools.cc", "src/HttpHeader.cc"]
DROP = ("HttpHdrCc.o", "StrList.o", "HttpHeaderTools.o", "HttpHeader.o")


def build_exe(stage):
    built = getattr(stage, "built", None)
    if built is None:
        built = stage.built = {}
    if "c29" in built:
        return built["c29"]
    objs = [stage.compile(os.path.join(VERIF, "harness", "c29.cc"))] + stage.compile_many(UNDER_TEST)
    exe = stage.link_like("tests/testHttpReply", objs, os.path.join(stage.work, "c29"), drop=DROP)
    built["c29"] = exe
    return exe


def build(stage):
    return ProcHarness([build_exe(stage)], env={"UBSAN_OPTIONS": "print_stacktrace=0:halt_on_error=1:exitcode=86"})
