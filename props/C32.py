"""C32 HTML quoting neutralises markup and is reversible."""
import os
from vf.util import VERIF, hx, unhx
from vf.harness import ProcHarness

ID = "C32"
PROP_MODULE = "SquidModel.Properties.C32"
MODEL = "c32"
GEN = ["html_quote"]
RULE = ("q <hex>: html_quote on NUL-free byte strings (all strings <=4 over a 16-symbol alphabet in thorough, "
        "random/meta-dense strings up to 16 KB); u <hex>: entity decoder reference vs model. "
        "non-trivial = input contains at least one byte that is escaped; distinct = distinct input lines")
TRUSTED = ["modelled, not verified: the C loop of html_quote is modelled as table lookup + concatenation; "
           "the table itself is dumped from the running code every run"]
ASSUMPTIONS = ["inputs are C strings (no NUL)"]
MANIFEST = {
    "text": "full: theorems quote_no_raw_meta, unquote_quote, quote_injective, quote_fits_buffer hold for every byte string in the model "
            "(escape-table lookup + concatenation); the 256-entry table is regenerated from the running html_quote every run and its "
            "shape facts are re-decided by the kernel; the real function is run under ASan/UBSan against the model and a direct oracle",
    "note": "trusted: Lean kernel (+propext/Classical.choice/Quot.sound as printed), table dump program, C++ harness and python oracle; "
            "modelled not verified: the copying loop of html_quote (covered by the differential run under ASan only)",
    "technique": "Lean 4 proof (induction + decide over regenerated table) + table translator + ASan differential run",
}


def build_exe(stage):
    if "c32" in getattr(stage, "built", {}):
        return stage.built["c32"]
    objs = [stage.compile(os.path.join(VERIF, "harness", "c32.cc")), stage.compile("src/html/Quoting.cc")]
    exe = stage.link_like("tests/testHtmlQuote", objs, os.path.join(stage.work, "c32"))
    stage.built = getattr(stage, "built", {})
    stage.built["c32"] = exe
    return exe


def build(stage):
    return ProcHarness([build_exe(stage)])


ALPHA16 = b"<>\"'&;#a1 \x01\x7f\x80\xff\n="


def cases(rng, tier):
    # every single byte
    for b in range(1, 256):
        yield "q " + hx(bytes([b]))
    # exhaustive small scope
    maxlen = 4 if tier == "thorough" else 2
    def rec(prefix, n):
        if n == 0:
            yield prefix
            return
        for c in ALPHA16:
            yield from rec(prefix + bytes([c]), n - 1)
    for n in range(0, maxlen + 1):
        for s in rec(b"", n):
            yield "q " + hx(s)
    nrand = 20000 if tier == "thorough" else 1500
    for i in range(nrand):
        k = rng.below(4)
        if k == 0:
            n = rng.range(0, 40)
            s = bytes(rng.range(1, 255) for _ in range(n))
        elif k == 1:
            n = rng.range(0, 60)
            s = rng.bytes(n, ALPHA16)
        elif k == 2:   # things that look like entities already
            parts = [b"&lt;", b"&amp;", b"&#38;", b"&#", b"&", b";", b"&apos", b"&quot;", b"&#255;", b"&#256;", b"x", b"<b>"]
            s = b"".join(rng.choice(parts) for _ in range(rng.range(0, 12)))
        else:
            n = rng.choice([100, 1000, 4095, 4096, 16384]) if tier == "thorough" else rng.choice([100, 1000, 4096])
            s = bytes(rng.range(1, 255) for _ in range(n))
        yield "q " + hx(s)
        if i % 3 == 0:
            # decoder reference vs model on quoted-looking and arbitrary text
            yield "u " + hx(s.replace(b"\0", b"x"))


META = set(b"<>\"'&")


def ref_unquote(s):
    r = bytearray()
    i = 0
    names = {b"lt": 60, b"gt": 62, b"quot": 34, b"amp": 38, b"apos": 39}
    while i < len(s):
        if s[i] == 38:
            semi = s.find(b";", i + 1, i + 7)
            if semi != -1:
                body = s[i + 1:semi]
                val = names.get(bytes(body))
                if val is None and 2 <= len(body) <= 4 and body[:1] == b"#" and body[1:].isdigit() and int(body[1:]) < 256:
                    val = int(body[1:])
                if val is not None:
                    r.append(val)
                    i = semi + 1
                    continue
        r.append(s[i])
        i += 1
    return bytes(r)


def well_quoted(s):
    """no raw < > " ' and every & starts a reference the decoder understands"""
    i = 0
    while i < len(s):
        c = s[i]
        if c == 38:
            semi = s.find(b";", i + 1, i + 7)
            if semi == -1 or ref_unquote(s[i:semi + 1]) == s[i:semi + 1]:
                return False
            i = semi + 1
            continue
        if c in META:
            return False
        i += 1
    return True


def oracle(line, impl):
    op, arg = line.split(" ")
    if impl.startswith("abort:"):
        return "sanitizer/abort: " + impl
    if op == "q":
        s = unhx(arg)
        try:
            out = unhx(impl)
        except ValueError:
            return "unparsable output " + impl[:80]
        if not well_quoted(out):
            return "quoted form contains a raw markup metacharacter"
        if ref_unquote(out) != s:
            return "decoding the quoted form does not return the original"
        if len(out) > 6 * len(s):
            return "quoted form longer than the 6*len buffer"
    return None


def nontrivial(line, impl, model):
    op, arg = line.split(" ")
    return op == "q" and impl != arg


def tag(line, impl, model):
    op, arg = line.split(" ")
    n = 0 if arg == "-" else len(arg) // 2
    size = "0" if n == 0 else "1" if n == 1 else "2-4" if n <= 4 else "5-64" if n <= 64 else "65-4096" if n <= 4096 else ">4096"
    return "%s len=%s %s" % (op, size, "escaped" if impl != arg else "plain")


def exhaustive(tier):
    return True  # all single bytes and all strings over the 16-symbol alphabet up to the tier's length
