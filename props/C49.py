"""C49 In-memory object data (mem_hdr) returns exactly what was written."""
import os, bisect, subprocess
from vf.util import VERIF
from vf.harness import ProcHarness

ID = "C49"
PROP_MODULE = "SquidModel.Properties.C49"
MODEL = "c49"
GEN = ["memhdr_consts"]
RULE = ("one case = one history on one mem_hdr: writes (sparse, appending, page-crossing, overlapping by a byte, empty), copy() of any range, "
        "hasContigousContentRange, freeDataUpto, getBlockContainingLocation, NodeGet/memNodeWriteComplete (write_pending), freeContent; offsets "
        "0..~6 pages and occasionally up to 2^40, lengths 0..3 pages; after every call the harness prints result, lowestOffset(), endOffset() "
        "(with its inmem_hi assert), size(), the node ranges and the splay tree shape; non-trivial = at least two accepted writes and a read "
        "that returned bytes; distinct = distinct histories")
TRUSTED = ["modelled, not verified: memcpy as list append/take/drop; mem_node pool allocation; pointer identity of tree nodes "
           "(a node is identified by its position in the tree)",
           "harness reads Splay::head via -fno-access-control (never writes it); fatal()/fatal_dump() replaced by a throwing stub"]
ASSUMPTIONS = ["offsets and lengths are far from 2^63 (int64_t offset arithmetic is modelled with natural numbers)",
               "callers keep the documented preconditions that the real code turns into fatal_dump(): no overwrite of present bytes, the first "
               "byte of a read is present (both are explicit outcomes of the model and of the oracle)", "single thread"]
MANIFEST = {
    "text": "full: for every history of write / copy / hasContigousContentRange / freeDataUpto / getBlockContainingLocation / NodeGet / "
            "memNodeWriteComplete / freeContent the model of stmem.cc + mem_node.cc + the top-down splay tree of splay.h (tree shapes, "
            "asserts as explicit faults, fatal_dump as an outcome) reaches no fault, keeps its invariant (nodes sorted, disjoint, 1..4096 "
            "bytes, endOffset = inmem_hi, element counter exact) and is a refinement of a sparse byte map: an accepted write adds exactly its "
            "bytes and changes nothing else, a write is refused (fatal) iff it would overwrite a present byte, a read returns exactly the "
            "present bytes from its start up to the first missing one (fatal iff the first one is missing), contiguity queries say whether "
            "every byte of the range is present, releasing never removes a byte at or after the release offset and never changes one; the real "
            "code runs under ASan/UBSan against the model (incl. tree shapes) and against an independent python byte-map oracle",
    "note": "trusted: Lean kernel, translator (SM_PAGE_SIZE), harness, python oracle; modelled not verified: memcpy, the mem_node pool, "
            "int64 overflow of offsets near 2^63 (out of scope)",
    "technique": "Lean 4 refinement proof (splay tree -> sorted node list -> sparse byte map; invariants, loop inductions) + ASan differential "
                 "run comparing node layout and tree shape + independent byte-map oracle",
    "engine": "inproc",
}

PAGE = 4096
MINIMISE_BUDGET = 400
MAX_REPORT = 8
MAXLEN = 1 << 20


# ------------------------------------------------------------------------------------------------------------------
# build
# ------------------------------------------------------------------------------------------------------------------
def build_exe(stage):
    if "c49" in getattr(stage, "built", {}):
        return stage.built["c49"]
    objs = [stage.compile(os.path.join(VERIF, "harness", "c49.cc"), extra=["-fno-access-control"]),
            stage.compile("src/stmem.cc"), stage.compile("src/mem_node.cc")]
    exe = stage.link_like("mem_hdr_test", objs, os.path.join(stage.work, "c49"), subdir="test-suite",
                          drop=("stub_fatal.o", "stub_libtime.o", "../src/stmem.o", "../src/mem_node.o"))
    stage.built = getattr(stage, "built", {})
    stage.built["c49"] = exe
    return exe


def build(stage):
    global PAGE
    exe = build_exe(stage)
    r = subprocess.run([exe, "--dump-consts"], capture_output=True, text=True)
    for line in r.stdout.splitlines():
        p = line.split()
        if len(p) == 2 and p[0] == "pageSize" and p[1].isdigit():
            PAGE = int(p[1])
    return ProcHarness([exe], env={"UBSAN_OPTIONS": "print_stacktrace=0:halt_on_error=1:exitcode=86"})


# ------------------------------------------------------------------------------------------------------------------
# byte streams shared with the harness and the driver
# ------------------------------------------------------------------------------------------------------------------
def gen_bytes(n, seed):
    x = seed % 2147483648
    out = bytearray(n)
    for i in range(n):
        x = (x * 1103515245 + 12345) % 2147483648
        out[i] = (x // 65536) % 256
    return bytes(out)


def fnv(b):
    h = 14695981039346656037
    for c in b:
        h = ((h ^ c) * 1099511628211) & 0xFFFFFFFFFFFFFFFF
    return "#%016x" % h


def show_bytes(b):
    return "%d=%s" % (len(b), fnv(b) if len(b) > 48 else (b.hex() if b else "-"))


# ------------------------------------------------------------------------------------------------------------------
# the byte map of the oracle (and of the generator): sorted disjoint segments
# ------------------------------------------------------------------------------------------------------------------
class ByteMap:
    def __init__(self):
        self.starts = []
        self.segs = []      # bytes objects

    def empty(self):
        return not self.starts

    def intervals(self):
        """maximal present intervals [a, b)"""
        out = []
        for s, d in zip(self.starts, self.segs):
            if out and out[-1][1] == s:
                out[-1][1] = s + len(d)
            else:
                out.append([s, s + len(d)])
        return out

    def _seg_at(self, p):
        i = bisect.bisect_right(self.starts, p) - 1
        if i >= 0 and p < self.starts[i] + len(self.segs[i]):
            return i
        return None

    def present(self, p):
        return self._seg_at(p) is not None

    def overlaps(self, a, b):
        """any present byte in [a, b)"""
        if a >= b:
            return False
        if self.present(a):
            return True
        i = bisect.bisect_right(self.starts, a)
        return i < len(self.starts) and self.starts[i] < b

    def covered(self, a, b):
        p = a
        while p < b:
            i = self._seg_at(p)
            if i is None:
                return False
            p = self.starts[i] + len(self.segs[i])
        return True

    def read(self, a, n):
        out = bytearray()
        p = a
        while len(out) < n:
            i = self._seg_at(p)
            if i is None:
                break
            off = p - self.starts[i]
            chunk = self.segs[i][off:off + n - len(out)]
            out += chunk
            p += len(chunk)
        return bytes(out)

    def add(self, a, data):
        if not data:
            return
        i = bisect.bisect_right(self.starts, a)
        self.starts.insert(i, a)
        self.segs.insert(i, bytes(data))

    def remove(self, a, b):
        """drop the present bytes of [a, b)"""
        ns, nd = [], []
        for s, d in zip(self.starts, self.segs):
            e = s + len(d)
            if e <= a or s >= b:
                ns.append(s); nd.append(d)
                continue
            if s < a:
                ns.append(s); nd.append(d[:a - s])
            if e > b:
                ns.append(b); nd.append(d[b - s:])
        self.starts, self.segs = ns, nd

    def lowest(self):
        return self.starts[0] if self.starts else 0

    def highest_end(self):
        return self.starts[-1] + len(self.segs[-1]) if self.starts else 0


# ------------------------------------------------------------------------------------------------------------------
# generators
# ------------------------------------------------------------------------------------------------------------------
class Gen:
    """builds a history while tracking which bytes are present, so that most calls are meaningful"""

    def __init__(self, rng):
        self.rng = rng
        self.bm = ByteMap()
        self.ops = []
        self.seed = rng.range(1, 1 << 30)
        self.nodes_guess = 0

    def data_token(self, n):
        self.seed += 1
        if n <= 16 and self.rng.chance(1, 2):
            b = bytes(self.rng.below(256) for _ in range(n))
            return "h" + (b.hex() if b else "-"), b
        return "g%d,%d" % (n, self.seed), gen_bytes(n, self.seed)

    def length(self):
        r = self.rng
        return r.choice([1, 1, 2, 3, 7, 16, 100, 500, 1000, PAGE - 1, PAGE, PAGE + 1, 2 * PAGE, 2 * PAGE + 5, 3 * PAGE - 1,
                         r.range(1, 64), r.range(1, PAGE), r.range(1, 3 * PAGE)])

    def free_offset(self, n):
        """an offset where n bytes do not overlap present data, chosen to touch existing data when possible"""
        r = self.rng
        iv = self.bm.intervals()
        for _ in range(20):
            k = r.below(6)
            if iv and k == 0:        # append right after present data
                a = r.choice(iv)[1]
            elif iv and k == 1:      # end exactly where present data begins
                a = r.choice(iv)[0] - n
            elif iv and k == 2:      # leave a small hole after present data
                a = r.choice(iv)[1] + r.choice([1, 2, PAGE - 1, PAGE, 100])
            elif k == 3:
                a = r.choice([0, 1, PAGE - 1, PAGE, PAGE + 1, 2 * PAGE, 3 * PAGE, 5 * PAGE]) + r.choice([0, 0, 1, 17])
            elif k == 4:
                a = r.range(0, 6 * PAGE)
            else:
                a = r.choice([0, 10, 100, 1000, 1 << 20, 1 << 32, (1 << 40) + 5])
            if a >= 0 and not self.bm.overlaps(a, a + n):
                return a
        return self.bm.highest_end() + 3

    def op_write(self, overlap=False):
        n = self.length()
        if self.rng.chance(1, 25):
            n = 0
        if overlap and not self.bm.empty():
            iv = self.rng.choice(self.bm.intervals())
            a = self.rng.choice([iv[0] - n + 1, iv[1] - 1, iv[0], max(0, iv[0] - n // 2), iv[0] + (iv[1] - iv[0]) // 2])
            a = max(0, a)
        else:
            a = self.free_offset(n)
        tok, data = self.data_token(n)
        if not self.bm.overlaps(a, a + n):
            self.bm.add(a, data)
        self.ops.append("w:%d:%s" % (a, tok))

    def some_offset(self):
        r = self.rng
        iv = self.bm.intervals()
        if iv and r.chance(4, 5):
            s, e = r.choice(iv)
            return max(0, r.choice([s, s, e - 1, e, e + 1, s - 1, r.range(s, e), s + PAGE - 1, s + PAGE, s + PAGE + 1, (s // PAGE + 1) * PAGE]))
        return r.choice([0, 1, PAGE, r.range(0, 6 * PAGE), 1 << 40])

    def op_read(self):
        a = self.some_offset()
        n = self.rng.choice([1, 1, 2, 10, 48, 49, 100, PAGE - 1, PAGE, PAGE + 1, 2 * PAGE + 3, 4 * PAGE, self.rng.range(1, 3 * PAGE)])
        self.ops.append("r:%d:%d" % (a, n))

    def op_contig(self):
        a = self.some_offset()
        b = self.rng.choice([a, a + 1, a - 1, self.some_offset(), a + self.rng.range(0, 3 * PAGE), a + PAGE])
        self.ops.append("c:%d:%d" % (a, max(0, b)))

    def op_free(self):
        t = self.some_offset()
        self.ops.append("f:%d" % t)
        # the generator does not know the node layout: it keeps its own map conservative by re-reading nothing;
        # bytes below t may or may not be gone, so later writes there may be refused (that is fine and checked by the oracle)

    def line(self):
        return " ".join(self.ops)


def valid_history(rng, tier):
    g = Gen(rng)
    style = rng.below(5)
    nops = rng.range(1, 60 if tier == "thorough" else 30)
    for _ in range(nops):
        r = rng.below(100)
        if style == 0:      # sequential appends of small chunks (how squid fills an object), reads and releases behind
            if r < 50:
                n = rng.choice([1, 13, 100, 512, 1460, PAGE, PAGE + 1, rng.range(1, 2000)])
                a = g.bm.highest_end()
                tok, data = g.data_token(n)
                g.bm.add(a, data)
                g.ops.append("w:%d:%s" % (a, tok))
            elif r < 75:
                g.op_read()
            elif r < 85:
                g.op_contig()
            else:
                g.op_free()
            continue
        if r < 38:
            g.op_write()
        elif r < 42:
            g.op_write(overlap=True)
        elif r < 68:
            g.op_read()
        elif r < 80:
            g.op_contig()
        elif r < 88:
            g.op_free()
        elif r < 92:
            g.ops.append("b:%d" % g.some_offset())
        elif r < 96:
            g.ops.append("%s:%d" % (rng.choice("pq"), rng.range(0, 5)))
        elif r < 97:
            g.ops.append("z")
            g.bm = ByteMap()
        else:
            g.op_read()
    return g.line()


def boundary_history(rng, tier):
    k = rng.below(8)
    P = PAGE
    if k == 0:      # a write that fills nodes exactly / one byte more / one less, then reads across the joints
        n = rng.choice([P - 1, P, P + 1, 2 * P - 1, 2 * P, 2 * P + 1, 3 * P])
        a = rng.choice([0, 1, P - 1, P, 77])
        ops = ["w:%d:g%d,%d" % (a, n, rng.range(1, 1 << 20))]
        for p in (a, a + P - 1, a + P, a + n - 1, a + n, a + 2 * P - 2):
            ops.append("r:%d:%d" % (p, rng.choice([1, 2, 3, P, n + 5])))
        ops += ["c:%d:%d" % (a, a + n), "c:%d:%d" % (a, a + n + 1), "c:%d:%d" % (max(0, a - 1), a + n)]
        return " ".join(ops)
    if k == 1:      # byte-by-byte appends into one node, and an append that crosses into the next
        a = rng.choice([0, 5, P - 3])
        ops = []
        p = a
        for i in range(rng.range(2, 8)):
            n = rng.choice([1, 1, 2, 3])
            ops.append("w:%d:g%d,%d" % (p, n, 100 + i))
            p += n
        ops.append("w:%d:g%d,%d" % (p, P, 999))
        ops += ["r:%d:%d" % (a, 2 * P), "r:%d:%d" % (a + 1, 3), "c:%d:%d" % (a, p + P), "c:%d:%d" % (a, p + P + 1)]
        return " ".join(ops)
    if k == 2:      # overlap by exactly one byte at either end, adjacent writes are fine
        a = rng.choice([10, P, 3 * P])
        n = rng.choice([1, 5, P])
        ops = ["w:%d:g%d,1" % (a, n), "w:%d:h00" % (a + n - 1), "w:%d:h01" % a, "w:%d:g%d,2" % (max(0, a - 3), 4), "w:%d:h02" % (a + n), "w:%d:h03" % (a - 1),
               "w:%d:g%d,3" % (a - 1, n + 2), "r:%d:%d" % (a - 1, n + 2), "w:%d:h-" % a, "w:%d:h-" % (a + 10 * P)]
        return " ".join(ops)
    if k == 3:      # reads that start in a hole / on an empty object / past the end
        ops = ["r:0:1", "c:0:0", "c:5:3", "c:0:1", "f:0", "b:0", "w:100:g50,4", "r:99:1", "r:150:1", "r:100:1", "r:149:5", "r:0:1000", "c:100:150", "c:100:151",
               "c:99:150", "c:150:150", "c:151:150", "c:120:110", "b:99", "b:100", "b:149", "b:150", "z", "r:100:1", "w:100:h07", "r:100:1"]
        return " ".join(ops)
    if k == 4:      # releasing: the last node is kept, a node is released only when it ends at or below the offset, pending nodes stay
        ops = ["w:0:g%d,5" % (3 * P + 10), "f:%d" % (P - 1), "r:0:1", "f:%d" % P, "r:0:1", "r:%d:3" % P, "p:0", "f:%d" % (3 * P), "r:%d:1" % P, "q:0", "f:%d" % (3 * P),
               "r:%d:1" % (2 * P), "r:%d:20" % (3 * P), "f:%d" % (1 << 40), "r:%d:20" % (3 * P), "w:0:h55", "f:1", "r:0:1", "f:2", "c:0:1"]
        return " ".join(ops)
    if k == 5:      # sparse object: far apart pieces, writes filling the hole in between from both sides
        ops = ["w:%d:g10,6" % (5 * P), "w:0:g10,7", "w:%d:g%d,8" % (10, P), "w:%d:g%d,9" % (5 * P - 100, 100), "r:0:%d" % (6 * P), "c:0:%d" % (P + 10), "c:0:%d" % (P + 11),
               "w:%d:g%d,10" % (P + 10, 4 * P - 110), "r:0:%d" % (6 * P), "c:0:%d" % (5 * P + 10), "c:0:%d" % (5 * P + 11), "f:%d" % (2 * P), "r:%d:10" % (2 * P + 10), "c:0:10"]
        return " ".join(ops)
    if k == 6:      # many small nodes (each write leaves a one-byte hole), lookups in every order: exercises the splay rotations
        n = rng.range(3, 12)
        order = list(range(n))
        rng.shuffle(order)
        ops = ["w:%d:g%d,%d" % (i * 10, rng.range(1, 9), 50 + i) for i in order]
        for _ in range(n):
            i = rng.below(n)
            ops.append(rng.choice(["r:%d:5", "b:%d", "c:%d:" + str(i * 10 + 3), "r:%d:20"]) % (i * 10))
        ops += ["f:%d" % (rng.below(n) * 10 + 9), "r:%d:3" % ((n - 1) * 10), "f:%d" % (n * 10)]
        return " ".join(ops)
    # big offsets
    b = rng.choice([1 << 31, 1 << 32, (1 << 40) - 1, 1 << 40])
    ops = ["w:%d:g%d,11" % (b, P + 2), "w:0:h01", "r:%d:%d" % (b, P + 5), "c:%d:%d" % (b, b + P + 2), "c:0:%d" % b, "f:%d" % b, "r:0:1", "r:%d:2" % (b + P)]
    return " ".join(ops)


def mutate(rng, line):
    ops = line.split(" ")
    if not ops or ops == [""]:
        return line
    for _ in range(rng.range(1, 3)):
        m = rng.below(6)
        i = rng.below(len(ops))
        if m == 0:
            ops.insert(i, ops[rng.below(len(ops))])
        elif m == 1 and len(ops) > 1:
            del ops[i]
        elif m == 2:
            j = rng.below(len(ops))
            ops[i], ops[j] = ops[j], ops[i]
        else:
            f = ops[i].split(":")
            if len(f) >= 2 and f[1].isdigit():
                f[1] = str(max(0, int(f[1]) + rng.choice([-1, 1, -PAGE, PAGE, -2, 2])))
                ops[i] = ":".join(f)
    return " ".join(ops)


def scope_alphabet():
    P = PAGE
    return ["w:0:g1,1", "w:0:g%d,2" % P, "w:1:g%d,3" % P, "w:%d:g1,4" % P, "w:%d:g%d,5" % (P - 1, 2), "w:%d:g%d,6" % (2 * P, P + 1), "w:%d:h77" % (P + 1),
            "r:0:1", "r:0:%d" % (3 * P), "r:%d:2" % (P - 1), "r:%d:%d" % (P, P), "c:0:%d" % P, "c:0:%d" % (P + 1), "c:%d:%d" % (P - 1, 2 * P),
            "f:1", "f:%d" % P, "f:%d" % (P + 1), "f:%d" % (4 * P), "p:0", "q:0", "b:%d" % P, "z"]


def small_scope(maxlen):
    alpha = scope_alphabet()

    def rec(prefix, n):
        yield prefix
        if n:
            for a in alpha:
                yield from rec(prefix + [a], n - 1)
    for calls in rec([], maxlen):
        yield " ".join(calls)


def cases(rng, tier):
    thorough = tier == "thorough"
    yield from small_scope(3 if thorough else 2)
    r2 = rng.fork("scope")
    alpha = scope_alphabet()
    for _ in range(8000 if thorough else 1200):
        yield " ".join(r2.choice(alpha) for _ in range(r2.range(3 if not thorough else 4, 7)))
    nvalid = 6000 if thorough else 1500
    nbound = 1500 if thorough else 400
    nmut = 2000 if thorough else 500
    rv, rb, rm = rng.fork("valid"), rng.fork("boundary"), rng.fork("mutation")
    recent = []
    for i in range(nvalid):
        l = valid_history(rv, tier)
        recent.append(l)
        if len(recent) > 200:
            recent.pop(0)
        yield l
        if i * nbound // nvalid != (i + 1) * nbound // nvalid:
            b = boundary_history(rb, tier)
            recent.append(b)
            yield b
        if i * nmut // nvalid != (i + 1) * nmut // nvalid:
            yield mutate(rm, rm.choice(recent))
    rr = rng.fork("random")
    for _ in range(200 if thorough else 40):
        yield " ".join(rr.choice(["w:1:h0", "w:1:hzz", "w:1:g5", "w:1:g5,1,2", "w:-1:h00", "r:1:0", "r:1", "c:1", "f:", "z:1", "k:1", "w:1:g1048577,1", "r:0:1048577",
                                  "w:0:h00", "r:0:1", "w:1000000000000000000:h00", "w:999999999999999999:h-", "p:x", "q:99"]) for _ in range(rr.range(1, 4)))


# ------------------------------------------------------------------------------------------------------------------
# the direct oracle: a sparse byte map
# ------------------------------------------------------------------------------------------------------------------
class BadLine(Exception):
    pass


def num(s):
    if not s.isdigit() or len(s) > 18:
        raise BadLine()
    return int(s)


def parse_line(line):
    ops = []
    for t in line.split():
        f = t.split(":")
        if f[0] == "w" and len(f) == 3 and f[2]:
            a = num(f[1])
            if f[2][0] == "h":
                h = f[2][1:]
                if h == "-":
                    data = b""
                else:
                    if len(h) % 2 or any(c not in "0123456789abcdef" for c in h):
                        raise BadLine()
                    data = bytes.fromhex(h)
            elif f[2][0] == "g":
                g = f[2][1:].split(",")
                if len(g) != 2:
                    raise BadLine()
                n, sd = num(g[0]), num(g[1])
                if n > MAXLEN:
                    raise BadLine()
                data = gen_bytes(n, sd)
            else:
                raise BadLine()
            if len(data) > MAXLEN:
                raise BadLine()
            ops.append(("w", a, data))
        elif f[0] == "r" and len(f) == 3:
            a, n = num(f[1]), num(f[2])
            if n < 1 or n > MAXLEN:
                raise BadLine()
            ops.append(("r", a, n))
        elif f[0] == "c" and len(f) == 3:
            ops.append(("c", num(f[1]), num(f[2])))
        elif f[0] in ("f", "b", "p", "q") and len(f) == 2:
            ops.append((f[0], num(f[1])))
        elif f[0] == "z" and len(f) == 1:
            ops.append(("z",))
        else:
            raise BadLine()
    return ops


def parse_snap(tok):
    head, _, shape = tok.partition(";")
    f = head.split("/")
    if len(f) != 5:
        raise ValueError(tok)
    nodes = []
    if f[4] != "-":
        for it in f[4].split(","):
            pend = it.endswith("*")
            a, n = it.rstrip("*").split("+")
            nodes.append((int(a), int(n), pend))
    return f[0], int(f[1]), int(f[2]), int(f[3]), nodes


def split_obs(impl):
    """observations are separated by single spaces; the tree shape inside an observation contains spaces too"""
    out, cur, depth = [], [], 0
    for ch in impl:
        if ch == "(":
            depth += 1
        elif ch == ")":
            depth -= 1
        if ch == " " and depth == 0:
            out.append("".join(cur)); cur = []
        else:
            cur.append(ch)
    out.append("".join(cur))
    return out


def oracle(line, impl):
    if impl.startswith("abort:"):
        return "sanitizer/abort: " + impl
    try:
        ops = parse_line(line)
    except BadLine:
        return None if impl == "bad-op" else "malformed line accepted: " + impl[:60]
    toks = split_obs(impl)
    if toks and toks[-1].startswith("leak="):
        return "mem_nodes leaked after the object was destroyed: " + toks[-1]
    if len(toks) != len(ops) + 1:
        return "expected %d observations, got %d" % (len(ops) + 1, len(toks))
    try:
        obs = [parse_snap(t) for t in toks]
    except ValueError:
        return "unparsable output " + impl[:80]
    bm = ByteMap()
    if obs[0][1:] != (0, 0, 0, []):
        return "[op 0] a fresh object is not empty"
    prev_nodes = []
    for n, (op, ob) in enumerate(zip(ops, obs[1:]), 1):
        res, lo, hi, size, nodes = ob
        where = "[op %d %s] " % (n, op[0])
        if op[0] == "w":
            _, a, data = op
            if bm.overlaps(a, a + len(data)):
                if res != "fatal":
                    return where + "a write over present bytes was not refused"
            else:
                if res != "1":
                    return where + "a write that overlaps nothing was refused (%s)" % res
                bm.add(a, data)
        elif op[0] == "r":
            _, a, ln = op
            if bm.empty():
                exp = "empty"
            elif not bm.present(a):
                exp = "fatal"
            else:
                exp = show_bytes(bm.read(a, ln))
            if res != exp:
                if res.endswith("!dirty"):
                    return where + "copy() wrote beyond the bytes it reported"
                return where + "read returned %s, the bytes written give %s" % (res[:40], exp[:40])
        elif op[0] == "c":
            _, s, e = op
            exp = "1" if bm.covered(s, e) else "0"
            if res != exp:
                return where + "contiguity answer %s, the bytes written give %s" % (res, exp)
        elif op[0] == "f":
            _, t = op
            # what was released is read off the node list; it must lie entirely below the release offset
            now = [(a, a + ln) for a, ln, _ in nodes]
            for a, ln, _ in prev_nodes:
                if (a, a + ln) not in now:
                    if a + ln > t:
                        return where + "released bytes at or after the release offset"
                    bm.remove(a, a + ln)
            if res != str(bm.lowest()):
                return where + "returned %s, the lowest present offset is %d" % (res, bm.lowest())
        elif op[0] == "b":
            _, p = op
            if bm.present(p):
                ok = False
                for a, ln, _ in nodes:
                    if a <= p < a + ln and res == "%d+%d" % (a, ln):
                        ok = True
                if not ok:
                    return where + "block lookup of a present byte gave %s" % res
            elif res != "none":
                return where + "block lookup of an absent byte gave %s" % res
        elif op[0] == "z":
            bm = ByteMap()
        # the node list after every call: sorted, disjoint, 1..PAGE bytes each, covering exactly the present bytes
        last = None
        for a, ln, _ in nodes:
            if ln < 1 or ln > PAGE:
                return where + "a node holds %d bytes" % ln
            if last is not None and a < last:
                return where + "nodes overlap or are out of order"
            last = a + ln
        cover = []
        for a, ln, _ in nodes:
            if cover and cover[-1][1] == a:
                cover[-1][1] = a + ln
            else:
                cover.append([a, a + ln])
        if cover != bm.intervals():
            return where + "the nodes do not cover exactly the bytes written and not released"
        if size != len(nodes):
            return where + "size() differs from the number of nodes"
        if lo != bm.lowest():
            return where + "lowestOffset() is %d, the lowest present offset is %d" % (lo, bm.lowest())
        if hi != bm.highest_end():
            return where + "endOffset() is %d, the end of the present bytes is %d" % (hi, bm.highest_end())
        prev_nodes = nodes
    return None


def classify(line, impl, why):
    return None


def nontrivial(line, impl, model):
    if not impl or "/" not in impl:
        return False
    toks = split_obs(impl)
    ops = line.split(" ")
    writes = sum(1 for o, t in zip(ops, toks[1:]) if o.startswith("w:") and t.startswith("1/"))
    reads = sum(1 for o, t in zip(ops, toks[1:]) if o.startswith("r:") and t[:1].isdigit() and not t.startswith("0="))
    return writes >= 2 and reads >= 1


def tag(line, impl, model):
    if not impl or "/" not in impl:
        return impl.split(":")[0] if impl else "?"
    toks = split_obs(impl)
    ops = line.split(" ")
    n = len(ops)
    size = "0" if n == 0 else "1-4" if n <= 4 else "5-16" if n <= 16 else "17-40" if n <= 40 else ">40"
    feats = set()
    prev = 0
    for o, t in zip(ops, toks[1:]):
        f = t.split("/")
        if o.startswith("w:"):
            feats.add("write" if f[0] == "1" else "overlap")
        elif o.startswith("r:"):
            if f[0] == "fatal":
                feats.add("read-hole")
            elif f[0][:1].isdigit():
                want = int(o.split(":")[2])
                got = int(f[0].split("=")[0])
                feats.add("read-full" if got == want else "read-short")
        elif o.startswith("f:") and len(f) == 5 and f[3].isdigit():
            if int(f[3]) < prev:
                feats.add("released")
        if len(f) == 5 and f[3].isdigit():
            prev = int(f[3])
            if prev >= 3:
                feats.add("3+nodes")
    return "ops=%s %s" % (size, "+".join(sorted(feats)) or "none")


def shrink(line):
    ops = line.split(" ")
    n = len(ops)
    step = max(1, n // 2)
    while step >= 1 and n > 1:
        for off in range(0, n, step):
            cand = ops[:off] + ops[off + step:]
            if cand:
                yield " ".join(cand)
        step //= 2
    # shorten generated data
    for i, o in enumerate(ops):
        f = o.split(":")
        if f[0] == "w" and len(f) == 3 and f[2].startswith("g"):
            ln, sd = f[2][1:].split(",")
            if ln.isdigit() and int(ln) > 1:
                for nl in (int(ln) // 2, int(ln) - 1):
                    yield " ".join(ops[:i] + ["w:%s:g%d,%s" % (f[1], nl, sd)] + ops[i + 1:])


def exhaustive(tier):
    return True   # all histories of <= 2 (quick) / <= 3 (thorough) calls over the 22-call small-scope alphabet
