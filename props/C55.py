"""C55 Shared store index exposes only complete, stable entries (lock-free protocol on top of the C54 lock specification)."""
import os, re, itertools
from vf.util import VERIF
from vf.harness import ProcHarness
from vf import ipccopy

ID = "C55"
PROP_MODULE = "SquidModel.Properties.C55"
MODEL = "c55"
GEN = ["storemap_cfg"]
TRUSTED = ["sequentially consistent atomics; plain (non-atomic) accesses to anchor.key/basics modelled as atomic and fused with the preceding atomic operation of the same thread",
           "the lock layer of the theorems: Ipc::ReadWriteLock enters through its specification (one atomic step per method, success only where the C54 theorems allow a new "
           "holder next to the holders at rest, failure always possible); mode A runs each real lock method as one uninterruptible step (harness/c55_lockcall.h), mode F "
           "interleaves the lock's own atomic operations and the model side is the composition with the C54 lock model, which also checks at run time that every concrete "
           "lock result was allowed by the specification",
           "textual instrumentation std::atomic -> verif::atomic of copies of src/ipc/{ReadWriteLock,StoreMap}.{h,cc}; ucontext coroutine scheduler; heap-backed Ipc::Mem::Segment; "
           "stubbed Store::Root().markedForDeletion(), Config, statCounter",
           "loads evaluated only inside assert() are not steps (the four accessors writeable/readableEntry/Slice are called with yields disabled for that reason)",
           "the API-level oracle tables of harness/c55.cc (incarnations, holders, slice ownership, what each writer appended)"]
ASSUMPTIONS = ["callers respect the method contracts encoded in `call`: setKey only by the writer before startAppending; slices are taken from the free pool, prepared, filled and "
               "then linked at the end of the chain; only slices handed to StoreMapCleaner return to the pool; keys are non-zero; a session works on one entry at a time",
               "paranoid_hit_validation is off (validateHit is not modelled); the theorems and the model cover no updates (openForUpdating/closeForUpdating/abortUpdating "
               "are exercised on the real code under the API-level oracle only)"]
MANIFEST = {
    "text": "partial: for every reachable configuration of any number of sessions under any interleaving of single atomic operations of StoreMap.cc over the C54 lock specification "
            "(openForWritingAt, setKey, slice append, startAppending, closeForWriting, abortWriting, openForReadingAt, chain walk, closeForReading, closeForReadingAndFreeIdle, "
            "freeEntry, freeEntryByKey, freeChain/freeChainAt/rewind): single_writer / exclusive_sessions_unique, strict_exclusive_excludes_readers, "
            "reader_opens_complete_or_appending_with_key, held_entry_stable + free_only_unshared_own_slices + reader_walks_own_slices + pool_slices_unused + pointers_spell_chain "
            "(slots of a held entry are neither freed nor reused), deleted_not_opened_after (full strength: the translator finds, by executing the staged code, a setKey() "
            "that only ever sets waitingToBeFreed; setKeyOnlySets_holds), deleted_not_opened_after_partial and deleted_not_opened_after_counterexample_prefix (the pre-fix "
            "shape of setKey(), fixed in /repo 19b0a93), validated_runs_are_reachable; two inductive invariants (AInv: 11 counting clauses per anchor; SInv: slice ownership and "
            "chain structure). Trace validation of the model's atomic actions against scheduler-controlled real code in two granularities (lock methods atomic / every atomic). "
            "Missing for full: updaters (openForUpdating/closeForUpdating/abortUpdating and the fileNos relocation) are not modelled; they run on the real code under the "
            "API-level oracle, which shows that with them the statement is false (known finding C55-update-frees-shared-suffix).",
    "note": "trusted: Lean kernel; SC memory model; the C54 lock specification as the lock layer of the theorems; the sed-instrumentation, the coroutine scheduler and the lock-method "
            "scope guard; API-level oracle in harness/c55.cc. Not modelled: updates/splicing, purgeOne, validateHit, weak-memory effects, torn reads of the key, process death "
            "while holding locks, termination of freeChainAt",
    "technique": "Lean 4 inductive invariants over interleavings (any number of sessions) on top of the C54 lock specification + trace validation against scheduler-controlled real code",
}


def build_exe(stage):
    cached = getattr(stage, "_c55_exe", None)
    if cached and os.path.exists(cached):
        return cached
    stage._c55_exe = _build_exe(stage)
    return stage._c55_exe


def _build_exe(stage):
    root = ipccopy.make_copies(stage, ["ipc/ReadWriteLock.h", "ipc/ReadWriteLock.cc", "ipc/StoreMap.h", "ipc/StoreMap.cc"], sub="ipccopy55")
    # every lock method gets a scope guard: in mode A the whole method is one scheduling step (harness/c55_lockcall.h)
    p = os.path.join(root, "ipc/ReadWriteLock.cc")
    text = open(p).read()
    text, n = re.subn(r"\n(bool|void)\nIpc::ReadWriteLock::(\w+)\(\)( const)?\n\{\n", lambda m: m.group(0) + '    VERIF55_LOCKCALL("%s");\n' % m.group(2), text)
    if n < 11:
        raise RuntimeError("C55: expected at least 11 Ipc::ReadWriteLock methods to instrument, found %d" % n)
    open(p, "w").write('#include "c55_lockcall.h"\n' + text)
    fl = ipccopy.flags(root)
    ub = ["-fsanitize=undefined", "-fno-sanitize=vptr", "-fno-sanitize-recover=all"]
    objs = [stage.compile(os.path.join(root, "ipc/ReadWriteLock.cc"), sanitize=False, pre=fl, extra=ub),
            stage.compile(os.path.join(root, "ipc/StoreMap.cc"), sanitize=False, pre=fl, extra=ub),
            stage.compile(os.path.join(VERIF, "harness/c55.cc"), sanitize=False, pre=fl, extra=ub),
            stage.compile(os.path.join(VERIF, "harness/verif_sched.cc"), sanitize=False, pre=fl)]
    return stage.link_like("tests/testSBuf", objs, os.path.join(stage.work, "c55"), sanitize=False, drop=["tests/SBufFindTest.o"],
                           extra=["String.o", "-fsanitize=undefined"])


def build(stage):
    return ProcHarness([build_exe(stage)])

RULE = ("scenario = mode x map size N (2..4 anchors = slices) x 2..4 virtual threads, each a list of sessions (writer: OW,SK,AS*,[SA,AS*],CW|AW; reader: OR,RD*,CR|CF; "
        "deleter: FE|FK; updater: OU,UA*,CU|AU) x a schedule that picks which thread performs its next step (one atomic operation of StoreMap.cc, one whole lock method in mode A, "
        "one call marker); streams: valid sessions on contended anchors, boundary (pool exhaustion, overwrite of complete/marked/empty anchors, wrong keys and "
        "positions), mutations (ops dropped/duplicated/swapped, sessions cut), plus in thorough every schedule of length 12..15 over 2 threads (3^8 over 3) for a set "
        "of session tuples (and of fine-grained mode F tuples around abort/open/free/overwrite); in both modes the complete event trace, results and final map, lock and pool "
        "state are compared with the model (trace validation; mode F against the composition with the C54 lock model); scenarios with updater calls run on the real code "
        "under the oracle only; "
        "non-trivial = at least two threads performed steps on the same anchor; distinct = distinct scenario lines")


def keys_of(N, f):
    return [f + N, f + 2 * N]


def gen_writer(rng, N, t, f, j0):
    k = rng.choice(keys_of(N, f))
    ops = ["OW:%d:%d" % (f, 0 if rng.chance(1, 5) else 1)]
    if rng.chance(9, 10):
        ops.append("SK:%d:%d" % (k, 1 if rng.chance(1, 12) else 0))
    na = rng.below(3)
    for j in range(na):
        ops.append("AS:%d" % (10 * (t + 1) + j0 + j))
    if rng.chance(1, 2):
        ops.append("SA")
        for j in range(rng.below(3)):
            ops.append("AS:%d" % (10 * (t + 1) + j0 + na + j))
    ops.append("CW" if rng.chance(3, 4) else "AW")
    return ops


def gen_reader(rng, N, f):
    k = rng.choice(keys_of(N, f)) if rng.chance(9, 10) else rng.range(1, 3 * N)
    ops = ["OR:%d:%d" % (f, k)]
    for _ in range(rng.below(3)):
        ops.append("RD")
    ops.append("CR" if rng.chance(2, 3) else "CF")
    return ops


def gen_deleter(rng, N, f):
    if rng.chance(1, 2):
        return ["FE:%d" % f]
    return ["FK:%d" % (rng.choice(keys_of(N, f)) if rng.chance(9, 10) else rng.range(1, 3 * N))]


def gen_updater(rng, N, t, f, j0):
    k = rng.choice(keys_of(N, f)) if rng.chance(9, 10) else rng.range(1, 3 * N)
    ops = ["OU:%d:%d" % (f, k)]
    for j in range(rng.range(0, 2)):
        ops.append("UA:%d" % (10 * (t + 1) + j0 + j))
    ops.append("CU:%d" % rng.below(3) if rng.chance(4, 5) else "AU")
    return ops


def gen_thread(rng, N, t, hot, updaters=False):
    ops = []
    j0 = 0
    for _ in range(rng.range(1, 3)):
        f = hot if rng.chance(3, 4) else rng.below(N)
        if updaters and rng.chance(1, 3):
            ops += gen_updater(rng, N, t, f, j0)
            j0 += 5
            continue
        r = rng.below(10)
        if r < 4:
            w = gen_writer(rng, N, t, f, j0)
            j0 += 5
            ops += w
        elif r < 8:
            ops += gen_reader(rng, N, f)
        else:
            ops += gen_deleter(rng, N, f)
    return ops


def mutate(rng, ops):
    ops = list(ops)
    if not ops:
        return ops
    k = rng.below(5)
    i = rng.below(len(ops))
    if k == 0:
        del ops[i]
    elif k == 1:
        ops.insert(i, ops[i])
    elif k == 2 and len(ops) > 1:
        j = rng.below(len(ops))
        ops[i], ops[j] = ops[j], ops[i]
    elif k == 3:
        ops = ops[:i]
    else:
        ops.insert(i, rng.choice(["SA", "CW", "AW", "CR", "CF", "RD", "AS:99", "FE:0", "SK:7:0"]))
    return ops


def gen_schedule(rng, n, steps):
    k = rng.below(4)
    if k == 0:
        return [rng.below(n) for _ in range(steps)]
    if k == 1:      # bursts
        out = []
        while len(out) < steps:
            out += [rng.below(n)] * rng.range(1, 6)
        return out[:steps]
    if k == 2:      # round robin with perturbation
        return [(i + (1 if rng.chance(1, 5) else 0)) % n for i in range(steps)]
    t = rng.below(n)   # one thread runs ahead, then the others
    return [t] * rng.range(1, steps // 2 + 1) + [rng.below(n) for _ in range(steps // 2)]


def fmt(mode, N, per, sched):
    return "%s %d %d %s %s" % (mode, N, len(per), ";".join(",".join(o) if o else "-" for o in per), ",".join(map(str, sched)) if sched else "-")


W0 = ["OW:0:1", "SK:2:0", "AS:11", "AS:12", "CW"]
WA = ["OW:0:1", "SK:2:0", "AS:11", "SA", "AS:12", "CW"]
WAB = ["OW:0:1", "SK:2:0", "AS:11", "SA", "AS:12", "AW"]
WX = ["OW:0:1", "SK:2:0", "AS:11", "AW"]
R0 = ["OR:0:2", "RD", "CR"]
RF = ["OR:0:2", "RD", "CF"]


def cases(rng, tier):
    n_rand = 20000 if tier == "thorough" else 3000
    for c in range(n_rand):
        N = rng.choice([2, 2, 2, 3, 4])
        n = rng.choice([2, 2, 3, 3, 4])
        hot = rng.below(N)
        per = [gen_thread(rng, N, t, hot) for t in range(n)]
        stream = rng.below(10)
        if stream >= 7:       # mutation stream
            per = [mutate(rng, o) if rng.chance(1, 2) else o for o in per]
        mode = "F" if rng.chance(1, 5) else "A"      # F: every atomic operation of the lock is a step too (oracle only)
        steps = sum(len(o) for o in per) * (9 if mode == "F" else 5)
        yield fmt(mode, N, per, gen_schedule(rng, n, rng.range(0, steps)))
    # updaters (oracle only: not modelled): writers, readers, updaters and deleters on a larger map
    for c in range(n_rand // 3):
        N = rng.choice([4, 5, 6])
        n = rng.choice([3, 3, 4])
        hot = rng.below(N)
        per = [gen_thread(rng, N, t, hot, updaters=(t > 0)) for t in range(n)]
        per[0] = ["OW:%d:1" % hot, "SK:%d:0" % (hot + N), "AS:11", "AS:12", "AS:13", "CW"] + (per[0] if rng.chance(1, 2) else [])
        mode = "F" if rng.chance(1, 6) else "A"
        steps = sum(len(o) for o in per) * (10 if mode == "F" else 6)
        pre = [0] * (rng.choice([0, 27, 27, 27]) if mode == "A" else rng.choice([0, 46, 46]))      # usually the entry is complete first
        yield fmt(mode, N, per, pre + gen_schedule(rng, n, rng.range(steps // 3, steps)))
    # an entry is read, updated, and its fresh edition is then deleted / purged / overwritten while the old readers go on
    for c in range(n_rand // 10):
        N = 5
        k = 2 + N * rng.below(2)
        w = ["OW:2:1", "SK:%d:0" % k, "AS:11", "AS:12", "AS:13", "CW"]
        rd = ["OR:2:%d" % k] + ["RD"] * rng.range(1, 3) + [rng.choice(["CR", "CF"])]
        up = ["OU:2:%d" % k, "UA:21"] + (["UA:22"] if rng.chance(1, 3) else []) + ["CU:%d" % rng.below(3)] + rng.choice([[], ["OR:0:%d" % k, "RD", "CR"], ["FK:%d" % k]])
        dl = rng.choice([["FK:%d" % k], ["FE:%d" % rng.below(N)], ["OW:%d:1" % rng.below(N), "SK:9:0", "AS:31", "CW"], ["OR:%d:%d" % (rng.below(N), k), "RD", "CF"]])
        per = [w, up, rd, dl]
        tail = gen_schedule(rng, 4, rng.range(20, 160))
        yield fmt("A", N, per, [0] * 27 + [2] * rng.choice([0, 3, 3]) + [1] * rng.choice([0, 20, 60]) + tail)
    # boundary: pool exhaustion and reuse of freed slices, overwriting, prefilled map then contention
    for c in range(n_rand // 10):
        N = 2
        pre = ["OW:0:1", "SK:2:0", "AS:11", "AS:12", "AS:13", rng.choice(["CW", "SA", "AW"])]
        t1 = pre + rng.choice([["CW"], ["AW"], []]) + rng.choice([R0, RF, ["FE:0"], ["FK:2"], []])
        t2 = rng.choice([["OW:1:1", "SK:3:0", "AS:21", "AS:22", "CW"], ["OW:0:1", "SK:4:0", "AS:21", "CW"], ["OW:0:0", "SK:4:0", "AS:21", "CW"]]) + rng.choice([R0, ["OR:1:3", "RD", "CR"], ["OR:0:4", "RD", "RD", "CF"]])
        t3 = rng.choice([R0 + R0, RF + R0, ["FE:0"] + R0, ["FK:2"] + R0, ["FE:1", "FE:0"]])
        per = [t1, t2, t3]
        steps = sum(len(o) for o in per) * 5
        yield fmt("A", N, per, gen_schedule(rng, 3, rng.range(0, steps)))
    # bounded-exhaustive schedules
    pairs = [(WA, R0 + R0), (WAB, R0), (W0 + R0, ["FE:0"] + R0), (W0 + RF, R0 + ["FK:2"]), (WX, ["FK:2"] + R0), (W0, ["OW:0:1", "SK:4:0", "AS:21", "CW"]),
             (W0 + R0, ["OW:0:0", "SK:4:0", "CW", "OR:0:4", "CR"]), (WAB + R0, RF + ["FE:0"])]
    L = 12 if tier == "thorough" else 8
    for a, b in (pairs if tier == "thorough" else pairs[:4]):
        for pre in (([], [0] * 6, [0] * 12, [0] * 18) if tier != "thorough" else ([0] * 6, [0] * 12, [0] * 18)):
            for sched in itertools.product((0, 1), repeat=L):
                yield fmt("A", 2, [a, b], pre + list(sched))
    # fine-grained exhaustive: the lock's own atomic operations interleaved with StoreMap's around abort/open/free
    LF = 13 if tier == "thorough" else 9
    fpairs = [(["OW:0:1", "SK:2:0", "SA", "AW"], R0), (["OW:0:1", "SK:2:0", "CW"], ["FE:0"] + R0), (["OW:0:1", "SK:2:0", "SA", "CW"], RF + R0)]
    for a, b in (fpairs if tier == "thorough" else fpairs[:2]):
        for pre in ([0] * 11, [0] * 14):
            for sched in itertools.product((0, 1), repeat=LF):
                yield fmt("F", 2, [a, b], pre + list(sched))
    # a reader arriving while a complete entry is being re-opened for writing (lockShared against lockExclusive + freeChain)
    for sched in itertools.product((0, 1), repeat=LF + (2 if tier == "thorough" else 1)):
        yield fmt("F", 2, [W0 + ["OW:0:1", "SK:4:0", "AS:21", "CW"], R0 + R0], [0] * 25 + list(sched))
    if tier == "thorough":
        triples = [(WA, R0, ["FE:0"] + R0), (W0, RF, R0), (WAB, R0, RF)]
        for tr in triples:
            for pre in ([0] * 10, [0] * 18):
                for sched in itertools.product((0, 1, 2), repeat=8):
                    yield fmt("A", 2, list(tr), pre + list(sched))


def split_out(impl):
    """log, res, rest-of-state, viol"""
    if not impl.startswith("log="):
        return None
    body, viol = impl.rsplit(" viol=", 1)
    return body, viol


def compare(line, impl, model):
    """trace, results and final state must agree (the oracle's verdict is not part of the comparison); in mode F the model is the
    composition with the C54 lock model and must also report that the lock specification allowed every concrete lock result"""
    if model == "unmodelled":
        return True        # updater calls: exercised on the real code, judged by the oracle only
    a, b = split_out(impl), split_out(model)
    if a is None or b is None:
        return impl == model
    return a[0] == b[0] and b[1] == "-"


def oracle(line, impl):
    if impl.startswith("abort"):
        return "no usable observation: " + impl
    if impl == "bad-op":
        return None
    v = impl.rsplit(" viol=", 1)[-1]
    if v != "-":
        return "API-level oracle on the real code: " + v
    return None


EV = re.compile(r"^(\d+):([A-Za-z]+)(\d*)\.(\w+)\.(\d+)>(\d+)$")


def events(impl):
    if not impl.startswith("log="):
        return []
    out = []
    for e in impl.split(" ", 1)[0][4:].split(","):
        m = EV.match(e)
        if m:
            out.append((int(m.group(1)), m.group(2), m.group(3), m.group(4), int(m.group(5)), int(m.group(6))))
    return out


def nontrivial(line, impl, model):
    by_anchor = {}
    for (t, obj, idx, kind, old, new) in events(impl):
        if obj in ("L", "W", "S", "H", "P", "Z") or obj.startswith("l"):
            by_anchor.setdefault(idx, set()).add(t)
    return any(len(v) >= 2 for v in by_anchor.values())


def tag(line, impl, model):
    if not impl.startswith("log="):
        return impl[:30]
    toks = line.split(" ")
    res = impl.split(" res=")[-1].split(" ")[0]
    opened = "OR=1" in res
    failed = "OR=0" in res or "OW=0" in res
    freed = ".sub." in impl
    return "mode=%s N=%s threads=%s opened=%s refused=%s freed=%s" % (toks[0], toks[1], toks[2], "y" if opened else "n", "y" if failed else "n", "y" if freed else "n")


def classify(line, impl, why):
    """C55-update-frees-shared-suffix: a slice shared by two editions after closeForUpdating() (the harness names such slices
    `shared-`) is freed or changed while a reader of the other edition holds it, in a scenario that closes an update.
    (C55-setkey-clears-mark is fixed in /repo 19b0a93: a reader-opened-deleted-entry is a violation again.)"""
    if ("shared-slice-freed-while-entry-is-read-" in (why or "") or "shared-slice-changed-while-entry-is-read-" in (why or "")) and re.search(r"\bCU:", line):
        return "C55-update-frees-shared-suffix"
    return None


def parse(line):
    mode, N, n, ops, sched = line.split(" ")
    per = [o.split(",") if o != "-" else [] for o in ops.split(";")]
    sc = [int(x) for x in sched.split(",")] if sched != "-" else []
    return mode, int(N), per, sc


def shrink(line):
    """big steps first; a line that is already short is left alone (every accepted candidate is shorter, so minimisation stops soon)"""
    try:
        mode, N, per, sc = parse(line)
    except ValueError:
        return
    if len(line) < 100:
        return
    for t in range(len(per)):           # silence a whole thread
        if per[t]:
            p2 = [list(x) for x in per]
            p2[t] = []
            yield fmt(mode, N, p2, sc)
    for t in range(len(per)):           # drop the second half of a thread's calls
        if len(per[t]) >= 4:
            p2 = [list(x) for x in per]
            p2[t] = p2[t][:len(p2[t]) // 2]
            yield fmt(mode, N, p2, sc)
    for k in (len(sc) // 2, 4, 1):
        if k and len(sc) >= k:
            yield fmt(mode, N, per, sc[:-k])
    for t in range(len(per)):
        for j in range(len(per[t])):
            p2 = [list(x) for x in per]
            del p2[t][j]
            yield fmt(mode, N, p2, sc)
    for i in range(len(sc)):
        yield fmt(mode, N, per, sc[:i] + sc[i + 1:])


def exhaustive(tier):
    return False


KNOWN_MUST_MATCH_MODEL = True   # inside a known finding's region the observation must still equal the model's (which reproduces the listed defect); see lib/vf/run.py
