"""C41 Domain-name ACLs match exactly the configured domain sets."""
import os, itertools
from vf.util import VERIF, hx, unhx
from vf.harness import ProcHarness

ID = "C41"
PROP_MODULE = "SquidModel.Properties.C41"
MODEL = "c41"
GEN = ["domain_fold"]
RULE = ("d <values> <hosts>: the value list is parsed by the real ACLDomainData::parse through ConfigParser (Tolower + "
        "Acl::SplayInserter<char*>::Merge into the Splay tree) and ACLDomainData::match is asked for every host in turn "
        "(each lookup splays the tree); the harness prints the Merge warnings, the tree shape after parse and after the lookups "
        "and one bit per host. m <flags> <host> <domain>: matchDomainName called directly (all four flag combinations). "
        "Generators: every ordered list of <=2 (thorough: <=3) values of length <=3 over {a . -} (and shorter scopes over {a A .}, "
        "{a b .}) not beginning with two dots, probed with every host of length <=4 over the same alphabet; all permutations of related 4-5 value sets; random lists of up to 60 values "
        "drawn from a label tree (overlaps, duplicates, mixed case, leading dots, '-', '_', digits) probed with hosts derived from "
        "the values (the value, its root, sub/sub-sub domains, one-character neighbours, 'x-' + root, trailing dot, leading dot); "
        "byte-level mutations; a capped number of lists with values that begin with two dots (known finding). "
        "non-trivial = the list was accepted and at least one host matched and one did not")
TRUSTED = ["modelled, not verified: the pointer manipulation of include/splay.h is modelled on an inductive tree with the two "
           "link chains as lists (the tree shape after every parse and after every lookup sequence is compared with the real tree); "
           "string indices running from the end are modelled by reversed lists",
           "ConfigParser::strtokFile is not modelled: the harness only feeds tokens that it returns verbatim",
           "the harness replaces self_destruct() by a C++ throw and reads the Merge() warnings from squid's debug stream"]
ASSUMPTIONS = ["values are the byte strings ConfigParser::strtokFile returns (non-empty, no NUL, no configuration white space)",
               "a host name is compared after removing its leading dots and the empty name matches nothing: the documented contract "
               "of matchDomainName (src/anyp/Uri.h: HOST .foo.com / DOMAIN foo.com / YES); the oracle normalises hosts the same way",
               "C locale (xtolower folds A-Z only; the table is re-dumped from the running code)"]
MANIFEST = {
    "text": "partial: for every list of non-empty values none of which begins with two dots (the single '.' included), in any order "
            "and with duplicates or overlaps, ACLDomainData::parse succeeds (Merge terminates, no Assure, no dangling removal) and "
            "after any sequence of lookups match(host) is true exactly when some value matches the host case-insensitively (a "
            "leading-dot value matches its domain and all subdomains, any other value only itself) - theorem match_iff_partial, for "
            "all byte strings, no size bound; matchDomainName is characterised for every host and value as a three-way comparison with "
            "the value's key interval and ==0 iff the value matches; every splay step preserves the in-order sequence. Excluded and "
            "refuted on the real code: values that begin with two dots (counterexample theorems; known finding C41-multi-dot-value: "
            "lost values, heap-use-after-free in Merge, missed matches)",
    "note": "trusted: Lean kernel, the C++ harness (own self_destruct/debug sink), python oracle; modelled not verified: pointer "
            "code of include/splay.h as an inductive tree with link chains as lists (tree shapes after parse and after the lookups, "
            "Merge warnings and verdicts are compared with the real code on every case), ConfigParser tokenisation (only verbatim "
            "tokens are fed); hosts are compared without their leading dots (documented matchDomainName contract)",
    "technique": "Lean 4 proof (lexicographic order on reversed folded keys, splay in-order/monotone-search lemmas, Merge invariant) "
                 "+ xtolower table and behaviour-flag translator + ASan/UBSan differential run with exhaustive small scopes",
}
MAX_REPORT = 10
MINIMISE_BUDGET = 150


def dump_env():
    env = dict(os.environ)
    env.update({"LC_ALL": "C", "ASAN_OPTIONS": "detect_leaks=0"})
    return env


def build_exe(stage):
    built = getattr(stage, "built", None)
    if built is None:
        built = stage.built = {}
    if "c41" in built:
        return built["c41"]
    objs = [stage.compile(os.path.join(VERIF, "harness", "c41.cc"), extra=["-fno-access-control"]),
            stage.compile("src/acl/DomainData.cc"), stage.compile("src/anyp/Uri.cc"),
            stage.compile("lib/util.cc"), stage.compile("lib/Splay.cc")]
    exe = stage.link_like("tests/testACLMaxUserIP", objs, os.path.join(stage.work, "c41"),
                          drop=["tests/stub_cache_cf.o", "tests/stub_debug.o"],
                          extra=["acl/.libs/libacls.a", "acl/.libs/libapi.a", "acl/.libs/libstate.a", "tests/stub_ACLFilledChecklist.o",
                                 "anyp/.libs/libanyp.a", "sbuf/.libs/libsbuf.a", "base/.libs/libbase.a",
                                 "../lib/.libs/libmisccontainers.a", "../lib/.libs/libmiscencoding.a", "../lib/.libs/libmiscutil.a",
                                 "../compat/.libs/libcompatsquid.a"])
    built["c41"] = exe
    return exe


def build(stage):
    return ProcHarness([build_exe(stage)], env={"UBSAN_OPTIONS": "print_stacktrace=0:halt_on_error=1:exitcode=86"})


# ---------------------------------------------------------------------------------------------- case lines

def mk(values, hosts):
    return "d %s %s" % (",".join(hx(v) for v in values) if values else "~",
                        ",".join(hx(h) for h in hosts) if hosts else "~")


def mkm(flags, h, d):
    return "m %d %s %s" % (flags, hx(h), hx(d))


def parse_line(line):
    w = line.split(" ")
    if w[0] == "d":
        vals = [] if w[1] == "~" else [unhx(t) for t in w[1].split(",")]
        hosts = [] if w[2] == "~" else [unhx(t) for t in w[2].split(",")]
        return "d", vals, hosts
    return "m", int(w[1]), unhx(w[2]), unhx(w[3])


# ---------------------------------------------------------------------------------------------- the property, directly

def lower(b):
    """ASCII case folding (the host alphabet of the property is ASCII)"""
    return bytes(c + 32 if 65 <= c <= 90 else c for c in b)


def value_matches(value, host):
    """the property's reading of one configured value: `.D` matches D and every name ending in `.D`; anything else matches itself.
    Hosts are taken without their leading dots; the empty host matches nothing (documented matchDomainName contract)."""
    h = lower(host).lstrip(b".")
    v = lower(value)
    if not h:
        return False
    if v[:1] == b".":
        return h == v[1:] or h.endswith(v)
    return h == v


def expected(values, host):
    return any(value_matches(v, host) for v in values)


def multi_dot(values):
    return any(v[:2] == b".." for v in values)


def tree_values(shape):
    """in-order values of a printed tree shape"""
    if shape == "~":
        return []
    out, cur = [], ""
    for ch in shape:
        if ch in "()":
            if cur:
                out.append(cur)
                cur = ""
        else:
            cur += ch
    return out


def oracle(line, impl):
    p = parse_line(line)
    if impl.startswith("abort:"):
        return "sanitizer/abort: " + impl
    if impl.startswith("bad-op") or impl == "reject:harness-token":
        return None
    if p[0] == "m":
        _, flags, h, d = p
        try:
            r = int(impl)
        except ValueError:
            return "unparsable output " + impl[:80]
        if flags == 0 and d:
            if (r == 0) != value_matches(d, h):
                return "matchDomainName says %d but the domain %s the host" % (r, "matches" if value_matches(d, h) else "does not match")
        return None
    _, vals, hosts = p
    if impl.startswith("reject:"):
        if impl == "reject:exception:multi-dot" and multi_dot(vals):
            return None   # a tree carrying the candidate fix refuses values that begin with two dots (they denote no host name)
        return "a well-formed domain list was refused: " + impl
    w = impl.split(" ")
    if len(w) != 5 or w[0] != "ok":
        return "unparsable output " + impl[:80]
    bits = "" if w[3] == "~" else w[3]
    if len(bits) != len(hosts):
        return "wrong number of verdicts"
    for h, b in zip(hosts, bits):
        e = expected(vals, h)
        if (b == "1") != e:
            return "host %s: match() says %s but %s" % (hx(h), b, "some value matches it" if e else "no value matches it")
    # lookups must not change what is stored, and only configured (lower-cased) values may be stored
    before, after = tree_values(w[2]), tree_values(w[4])
    if before != after:
        return "the stored values changed during lookups"
    conf = set(hx(lower(v)) for v in vals)
    if any(v not in conf for v in before):
        return "a stored value was never configured"
    return None


def classify(line, impl, why):
    p = parse_line(line)
    if p[0] == "d" and multi_dot(p[1]):
        return "C41-multi-dot-value"
    return None


def compare(line, impl, model):
    if model.startswith("ub:"):
        return True   # the model says the real code has undefined behaviour here: anything goes (the oracle still judges)
    return impl == model


def nontrivial(line, impl, model):
    if not line.startswith("d ") or not impl.startswith("ok "):
        return False
    bits = impl.split(" ")[3]
    return "1" in bits and "0" in bits


def tag(line, impl, model):
    p = parse_line(line)
    if p[0] == "m":
        return "m flags=%d %s" % (p[1], "match" if impl == "0" else "differ" if impl.lstrip("-").isdigit() else impl[:20])
    if not impl.startswith("ok "):
        return "d " + impl.split(":")[0]
    n = len(p[1])
    size = "0" if n == 0 else "1" if n == 1 else "2-3" if n <= 3 else "4-8" if n <= 8 else "9-60"
    w = impl.split(" ")
    stored = len(tree_values(w[2]))
    return "d values=%s %s %s" % (size, "merged" if stored < n else "all-stored", "events" if w[1] != "~" else "no-events")


def shrink(line):
    p = parse_line(line)
    if p[0] == "m":
        _, f, h, d = p
        for i in range(len(h)):
            yield mkm(f, h[:i] + h[i + 1:], d)
        for i in range(len(d)):
            yield mkm(f, h, d[:i] + d[i + 1:])
        return
    _, vals, hosts = p
    if len(hosts) > 1:
        half = len(hosts) // 2
        yield mk(vals, hosts[:half])
        yield mk(vals, hosts[half:])
        if len(hosts) <= 16:
            for i in range(len(hosts)):
                yield mk(vals, hosts[:i] + hosts[i + 1:])
    if len(vals) > 1:
        half = len(vals) // 2
        yield mk(vals[:half], hosts)
        yield mk(vals[half:], hosts)
        if len(vals) <= 16:
            for i in range(len(vals)):
                yield mk(vals[:i] + vals[i + 1:], hosts)
    if len(vals) <= 6:
        for i, v in enumerate(vals):
            for k in range(len(v)):
                nv = v[:k] + v[k + 1:]
                if nv:
                    yield mk(vals[:i] + [nv] + vals[i + 1:], hosts)
    if len(hosts) <= 2:
        for i, h in enumerate(hosts):
            for k in range(len(h)):
                yield mk(vals, hosts[:i] + [h[:k] + h[k + 1:]] + hosts[i + 1:])


# ---------------------------------------------------------------------------------------------- generators

LABEL_CHARS = b"abcxyz019-_"


def strings(alpha, maxlen, minlen=0):
    for n in range(minlen, maxlen + 1):
        for t in itertools.product(alpha, repeat=n):
            yield bytes(t)


def well_formed(v):
    return v[:2] != b".."


def hangs(values):
    """generator aid only (not the oracle): does the list drive Merge into removing a value it cannot find?  Lists that do
    make the sanitized harness die (2-3 s each), so only a few of them are emitted per run."""
    def strip(x):
        return x.lstrip(b".")
    for i, a in enumerate(values):
        for b in values[:i]:
            la, lb = lower(a), lower(b)
            if la[:2] == b".." or lb[:2] == b"..":
                if strip(la) and strip(la) == strip(lb) and la != lb:
                    return True
                if strip(la) and strip(lb) and (strip(la).endswith(b"." + strip(lb)) or strip(lb).endswith(b"." + strip(la))):
                    return True
    return False


def small_scope(alpha, vlen, hlen, k, rng=None, sample=None):
    vals = [v for v in strings(alpha, vlen, 1) if well_formed(v)]
    hosts = list(strings(alpha, hlen, 0))
    lists = itertools.product(vals, repeat=k)
    if sample is not None:
        lists = [tuple(rng.choice(vals) for _ in range(k)) for _ in range(sample)]
    for lst in lists:
        yield mk(list(lst), hosts)


def rand_label(rng):
    n = rng.choice([1, 1, 2, 2, 3, 5])
    return bytes(rng.choice(LABEL_CHARS) for _ in range(n))


def rand_case(rng, s):
    if rng.chance(1, 3):
        return bytes((c - 32 if 97 <= c <= 122 and rng.chance(1, 2) else c) for c in s)
    return s


def label_tree_values(rng, n):
    """n values drawn from a small tree of names so that nesting, duplicates and neighbours in the sort order are frequent"""
    tlds = [rand_label(rng) for _ in range(rng.range(1, 3))]
    names = list(tlds)
    for _ in range(rng.range(2, 12)):
        base = rng.choice(names)
        lab = rand_label(rng)
        sep = rng.choice([b".", b".", b".", b".", b"-", b"", b".."]) if rng.chance(1, 5) else b"."
        names.append(lab + sep + base)
    vals = []
    for _ in range(n):
        v = rng.choice(names)
        k = rng.below(10)
        if k < 4:
            v = b"." + v
        elif k == 4:
            v = v + b"."
        elif k == 5:
            v = b"." + v + b"."
        vals.append(rand_case(rng, v))
    return vals


def derived_hosts(rng, vals, extra=6):
    hs = []
    for v in vals:
        root = v[1:] if v[:1] == b"." else v
        hs += [v, root]
        hs.append(rand_label(rng) + b"." + root)
        k = rng.below(8)
        if k == 0:
            hs.append(rand_label(rng) + b"." + rand_label(rng) + b"." + root)
        elif k == 1:
            hs.append(b"x-" + root)
        elif k == 2:
            hs.append(root + b".")
        elif k == 3 and len(root) > 1:
            hs.append(root[1:])
        elif k == 4:
            hs.append(rand_label(rng) + root)
        elif k == 5:
            hs.append(root.upper())
        elif k == 6 and b"." in root:
            hs.append(root.split(b".", 1)[1])
        elif k == 7 and root:
            i = rng.below(len(root))
            hs.append(root[:i] + bytes([rng.choice(b"-./0aA_z")]) + root[i + 1:])
    for _ in range(extra):
        hs.append(b".".join(rand_label(rng) for _ in range(rng.range(1, 3))))
    hs = [h for h in hs if 0 not in h]
    rng.shuffle(hs)
    return hs[:80]


def cases(rng, tier):
    thorough = tier == "thorough"
    # ---- exhaustive small scopes: every ordered list of well-formed values, every host
    yield from small_scope(b"a.-", 3, 4, 1)
    yield from small_scope(b"aA.", 3, 4, 1)
    if thorough:
        yield from small_scope(b"a.-", 3, 4, 2)
        yield from small_scope(b"a.-", 2, 4, 3)
        yield from small_scope(b"aA.", 2, 4, 2)
        yield from small_scope(b"ab.", 2, 4, 3)
        yield from small_scope(b"a.-", 3, 4, 3)          # every ordered triple (about 27 000 lists x 121 hosts)
        yield from small_scope(b"a_.0", 3, 3, 3, rng, 3000)
        yield from small_scope(b"a.-", 3, 4, 4, rng, 3000)
    else:
        yield from small_scope(b"a.-", 2, 4, 2)
        yield from small_scope(b"a.-", 3, 4, 2, rng, 300)
        yield from small_scope(b"a.-", 3, 4, 3, rng, 500)
        yield from small_scope(b"aA.", 2, 4, 2, rng, 100)
        yield from small_scope(b"a_.0", 3, 3, 3, rng, 200)
    # ---- all insertion orders of related value sets
    for _ in range(12 if thorough else 3):
        n = rng.choice([4, 5]) if thorough else 4
        base = label_tree_values(rng, n)
        base = [v for v in base if well_formed(v)] or [b".a"]
        hosts = derived_hosts(rng, base, 4)
        for perm in itertools.permutations(base):
            yield mk(list(perm), hosts)
    # ---- random larger lists
    for _ in range(4000 if thorough else 700):
        n = rng.choice([1, 2, 3, 5, 8, 13, 20, 40, 60])
        vals = [v for v in label_tree_values(rng, n) if well_formed(v)]
        if not vals:
            continue
        if rng.chance(1, 4):
            vals += [rng.choice(vals) for _ in range(rng.range(1, 4))]   # exact duplicates
            rng.shuffle(vals)
        yield mk(vals, derived_hosts(rng, vals))
    # ---- matchDomainName directly, all flag combinations
    for _ in range(6000 if thorough else 1200):
        vals = label_tree_values(rng, 2)
        h, d = vals[0], vals[1]
        k = rng.below(6)
        if k == 0:
            h = rand_label(rng) + b"." + (d[1:] if d[:1] == b"." else d)
        elif k == 1:
            h = b"*." + (d.split(b".", 1)[1] if b"." in d[1:] else d)
        elif k == 2:
            h = d
        elif k == 3:
            h = d[1:] if len(d) > 1 else d
        yield mkm(rng.below(4), h, d)
    for h in strings(b"a.*", 3):
        for d in strings(b"a.*", 3, 1):
            for f in ((0, 1, 2, 3) if thorough else (0, 3)):
                yield mkm(f, h, d)
    # ---- mutations of valid lists (byte flips, truncation, duplication, splices)
    for _ in range(1500 if thorough else 300):
        vals = [v for v in label_tree_values(rng, rng.range(1, 6)) if well_formed(v)]
        if not vals:
            continue
        i = rng.below(len(vals))
        v = bytearray(vals[i])
        k = rng.below(5)
        if k == 0 and v:
            v[rng.below(len(v))] = rng.choice(b".-_aZ0\x7f\x80\xff@[`{")
        elif k == 1:
            v = v[:rng.below(len(v) + 1)]
        elif k == 2:
            v = v + v
        elif k == 3:
            j = rng.below(len(v) + 1)
            v = v[:j] + b"." + v[j:]
        else:
            v = bytearray(bytes(v).swapcase())
        v = bytes(v)
        if not v or not well_formed(v):
            continue
        vals[i] = v
        yield mk(vals, derived_hosts(rng, vals, 2))
    # ---- values that begin with two dots (known finding C41-multi-dot-value): few, and at most two that make the harness die
    dying = 0
    for i in range(60 if thorough else 24):
        vals = label_tree_values(rng, rng.range(1, 4))
        root = vals[0].lstrip(b".") or b"a"
        k = i % 4
        if k == 0:      # the plain name is dropped as "covered by" the two-dot value
            vals = [root, b".." + root] + vals[1:]
        elif k == 1:    # both dot-only values are stored; an earlier lookup decides whether `x.` is found
            vals = [b"..", b"."] + [v for v in vals[1:] if not v.endswith(b".")]
        elif k == 2:    # a stored two-dot value cannot be found for removal: use-after-free
            vals = [b".." + root, b"." + root] + vals[1:]
        else:
            j = rng.below(len(vals))
            vals[j] = b"." * rng.range(1, 2) + (vals[j] if vals[j][:1] == b"." else b"." + vals[j])
        if hangs(vals):
            if dying >= 2:
                continue
            dying += 1
        hosts = [root, rand_label(rng), rand_label(rng) + b"."] + derived_hosts(rng, vals, 2)
        yield mk(vals, hosts)


def exhaustive(tier):
    return True  # every ordered list of <=2 (thorough <=3) well-formed values of length <=3 over {a . -}, every host of length <=4
