"""C50 Character sets and tokenizers follow set semantics."""
import os, re
from vf.util import VERIF, hx, unhx
from vf.harness import ProcHarness

ID = "C50"
PROP_MODULE = "SquidModel.Properties.C50"
MODEL = "c50"
GEN = ["charsets", "tok_consts"]
RULE = ("cs <op> <sets>: CharacterSet +, -, +=, -=, complement, add, remove, addRange, ==, != and a composed expression on sets over all 256 "
        "octets built through every constructor (members, C string, range lists, public constants, complements); tk <buffer> <ops>: "
        "sequences of prefix/suffix/token/skipAll/skipAllTrailing/skipOne/skipOneTrailing/skip/skipSuffix/skipRequired/throwing prefix on "
        "one Tokenizer with limits 0, 1, len-1, len, len+1, npos-1, npos. Streams: protocol-like buffers with the sets their parsers use, "
        "exhaustive small scopes (all buffers over {a,b,space} up to length 3 (quick) / 5 (thorough), all limits, every operation), "
        "mutations and random bytes. non-trivial = a set operation result, or a tokenizer line on which at least one operation consumed "
        "something; distinct = distinct input lines")
TRUSTED = ["specified, not verified: SBuf::substr/consume/findFirstOf/findFirstNotOf/findLastNotOf/startsWith/cmp are given as list "
           "functions in the model; tied by the differential run",
           "CharacterSet's vector<uint8_t> storage is modelled twice: slot by slot (CharacterSet/Slots.lean, the C++ loops) and as a 256-bit "
           "mask (Base/CharSet.lean, used by all parser models); the two are proved to agree"]
ASSUMPTIONS = ["buffers are shorter than SBuf::npos (SBuf::maxSize < npos, checked on the dumped constants)",
               "addRange(low, high) is called with low <= high (for low > high the code adds {high} only; modelled and tested as it is, "
               "outside the property)"]
MANIFEST = {
    "text": "full: CharacterSet operations are proved pointwise equal to the set operations on octets (union, difference, complement, add, "
            "remove, ranges, C-string and range-list constructors; operator== is equality of member sets), both for the slot-level model that "
            "follows the C++ loops and for the mask model, which it refines; every Tokenizer operation is proved to consume exactly the "
            "maximal (or limit-long) run its set defines, to return it, to add its length to parsedSize and to leave the rest untouched "
            "(consumed ++ remaining = input), for every buffer, set and limit including 0 and npos, with exact failure conditions. The real "
            "classes run under ASan/UBSan against the model and a direct python oracle",
    "note": "trusted: Lean kernel (+axioms as printed), charset/constant translators, harness, python oracle; specified not verified: SBuf "
            "search/slice primitives",
    "technique": "Lean 4 proof (bit-mask/testBit lemmas, list span lemmas by induction) + dumped constants + ASan differential run",
}

NPOS = 0xffffffff


def build_exe(stage):
    if "c50" in getattr(stage, "built", {}):
        return stage.built["c50"]
    objs = [stage.compile(os.path.join(VERIF, "harness", "c50.cc")),
            stage.compile("src/parser/Tokenizer.cc"),
            stage.compile("src/base/CharacterSet.cc")]
    exe = stage.link_like("tests/testTokenizer", objs, os.path.join(stage.work, "c50"))
    stage.built = getattr(stage, "built", {})
    stage.built["c50"] = exe
    return exe


def build(stage):
    return ProcHarness([build_exe(stage)])


# ---------------------------------------------------------------- reference sets (written from RFC 5234 / 7230 / 7232 / 7235 / 3986)

def rng_set(lo, hi):
    return set(range(lo, hi + 1))


ALPHA = rng_set(0x41, 0x5a) | rng_set(0x61, 0x7a)
DIGIT = rng_set(0x30, 0x39)
VCHAR = rng_set(0x21, 0x7e)
OBSTEXT = rng_set(0x80, 0xff)
WSP = {0x20, 0x09}
TCHAR = set(b"!#$%&'*+-.^_`|~") | DIGIT | ALPHA
# Two public constants differ from their RFC grammar in the pinned tree and are transcribed as defined there (both are unused):
# CTL lacks NUL (RFC 5234: %x00-1F / %x7F), CTEXT lacks %x21-27 (RFC 7230: HTAB / SP / %x21-27 / %x2A-5B / %x5D-7E / obs-text).
NAMED = {
    "ALPHA": ALPHA, "BIT": set(b"01"), "CR": {13}, "CTL": rng_set(1, 31) | {127}, "DIGIT": DIGIT, "DQUOTE": {34},
    "HEXDIG": DIGIT | set(b"abcdefABCDEF"), "HTAB": {9}, "LF": {10}, "SP": {32}, "VCHAR": VCHAR, "WSP": WSP,
    "CTEXT": WSP | rng_set(0x2a, 0x5b) | rng_set(0x5d, 0x7e) | OBSTEXT,
    "TCHAR": TCHAR, "SPECIAL": set(b"()<>@,;:\\\"/[]?={}"),
    "QDTEXT": WSP | {0x21} | rng_set(0x23, 0x5b) | rng_set(0x5d, 0x7e) | OBSTEXT,
    "OBSTEXT": OBSTEXT, "ETAGC": {0x21} | rng_set(0x23, 0x7e) | OBSTEXT,
    "TOKEN68C": ALPHA | DIGIT | set(b"-._~+/"),
    "RFC3986_UNRESERVED": ALPHA | DIGIT | set(b"-._~"),
}
ALL = set(range(256))


def set_of(desc):
    """-> (python set, well_defined): well_defined is False when a range has low > high (outside the documented contract)"""
    neg = desc.startswith("!")
    d = desc[1:] if neg else desc
    kind, arg = d[0], d[1:]
    ok = True
    if kind == "n":
        s = set(NAMED[arg])
    else:
        b = unhx(arg)
        if kind == "m":
            s = set(b)
        elif kind == "s":
            s = set(b.split(b"\0")[0])
        else:
            s = set()
            for i in range(0, len(b) - 1, 2):
                lo, hi = b[i], b[i + 1]
                if lo > hi:
                    ok = False
                    s.add(hi)          # what the code does
                else:
                    s |= rng_set(lo, hi)
    return (ALL - s if neg else s), ok


def members(tok):
    return set(unhx(tok))


def check_cs(w, impl):
    op = w[1]
    out = impl.split(" ")
    if impl == "operand-changed":
        return "a by-value operator modified its operand"
    nsets = 3 if op == "chain" else 1 if op in ("compl", "add", "remove", "addrange") else 2
    if len(out) != nsets + 1:
        return "unexpected output " + impl[:80]
    # 1. the constructors built the described sets
    descs = [w[2]] if nsets == 1 else w[2:2 + nsets]
    obs = []
    for d, o in zip(descs, out):
        want, ok = set_of(d)
        got = members(o)
        if bytes(sorted(got)) != unhx(o):
            return "member list not sorted/unique"
        if ok and got != want:
            return "constructor %s built %s members, expected %s" % (d[:20], len(got), len(want))
        obs.append(got)
    res = out[-1]
    # 2. the operation, on the operands as observed through operator[]
    A = obs[0]
    if op == "compl":
        want = ALL - A
    elif op == "add":
        want = A | set(unhx(w[3]))
    elif op == "remove":
        want = A - set(unhx(w[3]))
    elif op == "addrange":
        lo, hi = unhx(w[3])
        if lo > hi:
            return None           # outside the contract; compared with the model only
        want = A | rng_set(lo, hi)
    elif op in ("union", "addassign"):
        want = A | obs[1]
    elif op in ("diff", "subassign"):
        want = A - obs[1]
    elif op == "eq":
        return None if res == ("1" if A == obs[1] else "0") else "operator== disagrees with equality of the member sets"
    elif op == "ne":
        return None if res == ("0" if A == obs[1] else "1") else "operator!= disagrees with inequality of the member sets"
    elif op == "chain":
        want = ALL - ((A | obs[1]) - obs[2])
    else:
        return None
    got = members(res)
    if bytes(sorted(got)) != unhx(res):
        return "member list not sorted/unique"
    if got != want:
        return "%s: result differs from the set operation on %d octets" % (op, len(got ^ want))
    return None


def region_front(B, L):
    return B if L == NPOS else B[:L]


def check_step(op, B, P, res, B2, P2):
    """one tokenizer operation: buffer B/parsed P before, `res`, buffer B2/parsed P2 after -> why or None"""
    f = op.split(":")
    name = f[0]
    unchanged = (B2 == B and P2 == P)
    if name in ("prefix", "prefixthrow"):
        S, _ = set_of(f[1])
        L = int(f[2])
        R = region_front(B, L)
        if res == "F":
            if not unchanged:
                return "failed but changed the tokenizer"
            return None if (not R or R[0] not in S) else "prefix failed although the buffer starts with a member (limit %d)" % L
        tok = unhx(res[1:])
        if not tok:
            return "empty prefix returned as success"
        if tok + B2 != B:
            return "token ++ remaining != buffer"
        if any(c not in S for c in tok):
            return "prefix contains a non-member"
        if len(tok) > len(R):
            return "prefix longer than the limit"
        if len(tok) < len(R) and B[len(tok)] in S:
            return "prefix is not maximal: next octet is a member and the limit is not reached"
        if P2 != P + len(tok):
            return "parsedSize not advanced by the token length"
        if name == "prefixthrow" and not B2:
            return "throwing prefix succeeded with nothing left"
        return None
    if name == "suffix":
        S, _ = set_of(f[1])
        L = int(f[2])
        R = B if L >= len(B) else B[len(B) - L:]
        if res == "F":
            if not unchanged:
                return "failed but changed the tokenizer"
            return None if (not R or R[-1] not in S) else "suffix failed although the buffer ends with a member (limit %d)" % L
        tok = unhx(res[1:])
        if not tok:
            return "empty suffix returned as success"
        if B2 + tok != B:
            return "remaining ++ token != buffer"
        if any(c not in S for c in tok):
            return "suffix contains a non-member"
        if len(tok) > len(R):
            return "suffix longer than the limit"
        if len(tok) < len(R) and B[len(B) - len(tok) - 1] in S:
            return "suffix is not maximal"
        if P2 != P + len(tok):
            return "parsedSize not advanced by the token length"
        return None
    if name == "skipall":
        S, _ = set_of(f[1])
        k = int(res[1:])
        if B[k:] != B2 or k > len(B):
            return "remaining is not the buffer minus the skipped octets"
        if any(c not in S for c in B[:k]):
            return "skipped a non-member"
        if B2 and B2[0] in S:
            return "skipAll stopped before the end of the run"
        return None if P2 == P + k else "parsedSize not advanced by the skipped count"
    if name == "skipalltrail":
        S, _ = set_of(f[1])
        k = int(res[1:])
        if k > len(B) or B[:len(B) - k] != B2:
            return "remaining is not the buffer minus the removed octets"
        if any(c not in S for c in B[len(B) - k:]):
            return "removed a non-member"
        if B2 and B2[-1] in S:
            return "skipAllTrailing stopped before the start of the run"
        return None if P2 == P + k else "parsedSize not advanced by the removed count"
    if name in ("skipone", "skiponetrail"):
        S, _ = set_of(f[1])
        front = name == "skipone"
        if res == "F":
            if not unchanged:
                return "failed but changed the tokenizer"
            c = (B[:1] if front else B[-1:])
            return None if (not c or c[0] not in S) else name + " failed on a member"
        c = B[0] if front else B[-1]
        if not B or c not in S or B2 != (B[1:] if front else B[:-1]) or P2 != P + 1:
            return name + " succeeded wrongly"
        return None
    if name == "token":
        S, _ = set_of(f[1])
        i = 0
        while i < len(B) and B[i] in S:
            i += 1
        j = i
        while j < len(B) and B[j] not in S:
            j += 1
        if res == "F":
            if not unchanged:
                return "failed but changed the tokenizer"
            return None if j == len(B) else "token failed although a delimited token is present"
        tok = unhx(res[1:])
        if j == len(B) or j == i:
            return "token succeeded without a delimited token"
        k = j
        while k < len(B) and B[k] in S:
            k += 1
        if tok != B[i:j]:
            return "token is not the maximal run of non-delimiters after the leading delimiters"
        if B2 != B[k:]:
            return "remaining is not the buffer after the trailing delimiters"
        return None if P2 == P + k else "parsedSize not advanced by delimiters+token+delimiters"
    arg = unhx(f[1])
    if name in ("skip", "skipchar"):
        if res == "F":
            if not unchanged:
                return "failed but changed the tokenizer"
            return None if (not arg or not B.startswith(arg)) else "skip failed on a matching prefix"
        if not arg or not B.startswith(arg) or B2 != B[len(arg):] or P2 != P + len(arg):
            return "skip succeeded wrongly"
        return None
    if name == "skipsuffix":
        if res == "F":
            if not unchanged:
                return "failed but changed the tokenizer"
            return None if (not arg or not B.endswith(arg)) else "skipSuffix failed on a matching suffix"
        if not arg or not B.endswith(arg) or B2 != B[:len(B) - len(arg)] or P2 != P + len(arg):
            return "skipSuffix succeeded wrongly"
        return None
    if name == "skipreq":
        if not B.startswith(arg) or B2 != B[len(arg):] or P2 != P + len(arg):
            return "skipRequired returned without skipping the token"
        return None
    return "unknown op"


def check_throw(op, B, res):
    f = op.split(":")
    if f[0] == "skipreq":
        arg = unhx(f[1])
        if B.startswith(arg):
            return "skipRequired threw on a matching prefix"
        want = "throw:insufficient" if arg.startswith(B) else "throw:parse"
        return None if res == want else "skipRequired threw %s, expected %s" % (res, want)
    if f[0] == "prefixthrow":
        S, _ = set_of(f[1])
        L = int(f[2])
        R = region_front(B, L)
        n = 0
        while n < len(R) and R[n] in S:
            n += 1
        if not B:
            want = "throw:insufficient"
        elif n == 0:
            want = "throw:parse"
        elif n == len(B):
            want = "throw:insufficient"
        else:
            return "throwing prefix threw although a terminated prefix is present"
        return None if res == want else "threw %s, expected %s" % (res, want)
    return "only skipRequired and the throwing prefix may throw"


def check_tk(w, impl):
    B = unhx(w[1])
    P = 0
    ops = w[2:]
    outs = impl.split(" ") if impl != "-" else []
    if not ops:
        return None if not outs else "output without operations"
    for i, op in enumerate(ops):
        if i >= len(outs):
            return "missing output for operation %d" % i
        o = outs[i]
        if o.startswith("throw:"):
            if i != len(outs) - 1:
                return "output continues after a throw"
            return check_throw(op, B, o)
        m = re.fullmatch(r"([TFN][0-9a-f-]*)/(-|[0-9a-f]+)/(\d+)", o)
        if not m:
            return "unexpected output " + o[:60]
        B2, P2 = unhx(m.group(2)), int(m.group(3))
        why = check_step(op, B, P, m.group(1), B2, P2)
        if why:
            return "op %d (%s): %s" % (i, op.split(":")[0], why)
        B, P = B2, P2
    return None


def oracle(line, impl):
    if impl.startswith("abort:"):
        return "sanitizer/abort: " + impl
    if impl == "bad-op":
        return None
    w = line.split()
    if w[0] == "cs":
        return check_cs(w, impl)
    if w[0] == "tk":
        return check_tk(w, impl)
    return None


def nontrivial(line, impl, model):
    if line.startswith("cs"):
        return impl not in ("bad-op", "operand-changed")
    return any(o[:1] == "T" or (o[:1] == "N" and not o.startswith("N0/")) for o in impl.split(" "))


def tag(line, impl, model):
    w = line.split()
    if w[0] == "cs":
        return "cs " + w[1]
    names = [o.split(":")[0] for o in w[2:]]
    if len(names) == 1:
        r = impl[:1] if not impl.startswith("throw") else "throw"
        return "tk %s %s" % (names[0], r)
    return "tk seq len=%s%s" % ("2-4" if len(names) <= 4 else "5+", " throw" if "throw" in impl else "")


def shrink(line):
    w = line.split()
    if w[0] == "tk":
        # drop operations, then bytes of the buffer
        for i in range(2, len(w)):
            yield " ".join(w[:i] + w[i + 1:])
        tk = w[1]
        if tk != "-":
            n = len(tk) // 2
            step = max(1, n // 2)
            while step >= 1:
                for off in range(0, n, step):
                    yield " ".join([w[0], (tk[:off * 2] + tk[(off + step) * 2:]) or "-"] + w[2:])
                step //= 2


# ---------------------------------------------------------------- generators

NAMES = sorted(NAMED)


def rand_set_desc(rng, allow_reversed=False):
    k = rng.below(9)
    if k == 0:
        d = "n" + rng.choice(NAMES)
    elif k in (1, 2):
        d = "m" + hx(rng.bytes(rng.choice([0, 1, 2, 3, 8, 40, 200])))
    elif k == 3:
        # dense: everything but a few
        miss = set(rng.bytes(rng.range(0, 6)))
        d = "m" + hx(bytes(c for c in range(256) if c not in miss))
    elif k == 4:
        b = rng.bytes(rng.range(0, 12))
        d = "s" + hx(b)
    elif k == 5:
        d = "s" + hx(rng.bytes(rng.range(0, 6), b"ab\x00\xff\x01"))
    else:
        prs = bytearray()
        for _ in range(rng.range(0, 4)):
            lo = rng.choice([0, 1, 0x30, 0x41, 0x7f, 0x80, 0xfe, 0xff, rng.below(256)])
            hi = rng.choice([lo, min(255, lo + rng.below(40)), 255, 0xff])
            if allow_reversed and rng.chance(1, 6):
                lo, hi = max(lo, hi), min(lo, hi)
            elif lo > hi:
                lo, hi = hi, lo
            prs += bytes([lo, hi])
        d = rng.choice("ri") + hx(bytes(prs))
    if rng.chance(1, 4):
        d = "!" + d
    return d


def gen_cs(rng, n):
    ops2 = ["union", "diff", "addassign", "subassign", "eq", "ne"]
    # fixed corner cases
    for a in ("m-", "!m-", "nALPHA", "r00ff", "rffff", "r0000", "i-", "s-", "s00", "s6100" + "62", "!nOBSTEXT"):
        yield "cs compl " + a
        for b in ("m-", "!m-", "nDIGIT", a):
            for op in ops2:
                yield "cs %s %s %s" % (op, a, b)
    for lo, hi in ((0, 0), (0, 255), (255, 255), (254, 255), (0x30, 0x39), (0x39, 0x30), (255, 0), (1, 0), (128, 127), (127, 128)):
        yield "cs addrange m- " + hx(bytes([lo, hi]))
        yield "cs addrange nALPHA " + hx(bytes([lo, hi]))
    for _ in range(n):
        k = rng.below(10)
        a = rand_set_desc(rng, allow_reversed=rng.chance(1, 10))
        if k == 0:
            yield "cs compl " + a
        elif k == 1:
            yield "cs add %s %s" % (a, hx(rng.bytes(rng.range(0, 5))))
        elif k == 2:
            yield "cs remove %s %s" % (a, hx(rng.bytes(rng.range(0, 5))))
        elif k == 3:
            lo = rng.below(256)
            hi = rng.choice([lo, rng.below(256), 255, min(255, lo + 3)])
            yield "cs addrange %s %s" % (a, hx(bytes([lo, hi])))
        elif k == 4:
            yield "cs chain %s %s %s" % (a, rand_set_desc(rng), rand_set_desc(rng))
        else:
            b = a if rng.chance(1, 8) else rand_set_desc(rng)
            yield "cs %s %s %s" % (rng.choice(ops2), a, b)


SAMPLES = [
    b"GET /index.html HTTP/1.1\r\nHost: example.com\r\n\r\n",
    b"  \t Content-Length:   42  \r\n",
    b"1a3F;ext=1\r\ndata",
    b"token68==  next",
    b"\"quoted \\\" string\" tail",
    b"W/\"etag-value\", \"second\"",
    b"a=b; c=d;; e",
    b"HTTP/1.1 200 OK\r\n",
    b"\r\n\r\n\r\n",
    b"   ",
    b"abc",
    b"0123456789",
    b"\x00\x01\xff\xfe\x80 mixed \x7f",
    b"key\x00value",
]
PROTO_SETS = ["nWSP", "nSP", "nALPHA", "nDIGIT", "nHEXDIG", "nTCHAR", "nCR", "nLF", "m0d0a", "!m0d0a", "m20", "!m20", "nVCHAR", "nCTL", "nQDTEXT",
              "m3b3d2c", "!m3b3d2c", "nTOKEN68C", "nETAGC", "m-", "!m-", "r3039", "r00ff", "nOBSTEXT", "!nWSP", "s2009", "i30394166"]


def limits_for(rng, n):
    return [NPOS, NPOS, NPOS, 0, 1, 2, max(0, n - 1), n, n + 1, rng.range(0, n + 2), NPOS - 1, 268435455]


def rand_op(rng, buf):
    k = rng.below(14)
    st = rng.choice(PROTO_SETS) if rng.chance(3, 4) else ("m" + hx(rng.bytes(rng.range(1, 4), buf or b"a")) if rng.chance(1, 2) else rand_set_desc(rng))
    lim = rng.choice(limits_for(rng, len(buf)))
    piece = lambda: (buf[:rng.range(0, min(4, len(buf)))] if rng.chance(1, 2) else buf[len(buf) - rng.range(0, min(4, len(buf))):]) if buf else b""
    if k == 0 or k == 1:
        return "prefix:%s:%d" % (st, lim)
    if k == 2 or k == 3:
        return "suffix:%s:%d" % (st, lim)
    if k == 4 or k == 5:
        return "token:" + st
    if k == 6:
        return "skipall:" + st
    if k == 7:
        return "skipalltrail:" + st
    if k == 8:
        return "skipone:" + st
    if k == 9:
        return "skiponetrail:" + st
    if k == 10:
        p = piece()
        if rng.chance(1, 5):
            p = p + b"x"
        return "skip:" + hx(p)
    if k == 11:
        p = piece()
        return "skipsuffix:" + hx(p if rng.chance(3, 4) else p + b"\n")
    if k == 12:
        c = buf[:1] if (buf and rng.chance(2, 3)) else rng.bytes(1)
        return "skipchar:" + hx(c)
    if rng.chance(1, 2):
        p = piece() if rng.chance(2, 3) else (buf + b"more")[:len(buf) + rng.range(0, 3)]
        return "skipreq:" + hx(p)
    return "prefixthrow:%s:%d" % (st, lim)


def gen_tk(rng, n):
    for _ in range(n):
        k = rng.below(6)
        if k <= 2:
            buf = rng.choice(SAMPLES)
            if rng.chance(1, 3):
                i = rng.below(len(buf) + 1)
                buf = buf[i:] if rng.chance(1, 2) else buf[:i]
        elif k == 3:
            buf = rng.bytes(rng.range(0, 20), b"ab \r\n")
        elif k == 4:
            buf = rng.bytes(rng.range(0, 12))
        else:
            buf = rng.bytes(rng.range(0, 300), b"aaaaab ")
        nops = rng.choice([1, 1, 2, 3, 4, 6, 8])
        yield "tk %s %s" % (hx(buf), " ".join(rand_op(rng, buf) for _ in range(nops)))


def exhaustive_small(tier):
    al = b"ab "
    L = 5 if tier == "thorough" else 3
    sets = ["m61", "m6162", "m20", "m-", "!m-", "!m61"]

    def rec(prefix, n):
        if n == 0:
            yield prefix
            return
        for c in al:
            yield from rec(prefix + bytes([c]), n - 1)
    for n in range(0, L + 1):
        for s in rec(b"", n):
            h = hx(s)
            for st in sets:
                for lim in list(range(0, n + 2)) + [NPOS]:
                    yield "tk %s prefix:%s:%d" % (h, st, lim)
                    yield "tk %s suffix:%s:%d" % (h, st, lim)
                yield "tk %s token:%s" % (h, st)
                yield "tk %s skipall:%s skipalltrail:%s" % (h, st, st)
                yield "tk %s skipone:%s skiponetrail:%s" % (h, st, st)
                yield "tk %s prefixthrow:%s:%d" % (h, st, NPOS)
            for arg in (b"", b"a", b"ab", b"a ", s, s + b"a", s[:1], s[-1:]):
                yield "tk %s skip:%s" % (h, hx(arg))
                yield "tk %s skipsuffix:%s" % (h, hx(arg))
                yield "tk %s skipreq:%s" % (h, hx(arg))
            yield "tk %s skipchar:61" % h


def cases(rng, tier):
    yield from gen_cs(rng.fork("cs"), 30000 if tier == "thorough" else 3000)
    yield from exhaustive_small(tier)
    yield from gen_tk(rng.fork("tk"), 60000 if tier == "thorough" else 6000)


def exhaustive(tier):
    return True
