"""C10 Cache hits reproduce one complete stored response (end to end; memory, ufs, aufs, diskd and rock caches)."""
import re, importlib

H = importlib.import_module("harness.c10")

ID = "C10"
PROP_MODULE = "SquidModel.Properties.C10"
MODEL = "c10"
GEN = []
MINIMISE_BUDGET = 40
MAX_REPORT = 4
RULE = ("scenario = cache type (memory only, shared memory cache of two SMP workers, ufs, aufs, diskd, rock; small caches) x up to 3 URLs x a sequence of operations started in "
        "order: origin updates of a URL fetched by a reloading client (sent at once, paced so that the following operations overlap the "
        "transfer, truncated under Content-Length, truncated chunked), readers (normal, or slow with a 4 KB receive buffer that stop "
        "after the response head while later operations run), filler fetches that force eviction, PURGE; sizes across the 4 KB memory "
        "page / rock slot payload / in-memory object limit boundaries; every response is compared byte for byte and header for header "
        "with the origin version it names (X-Ver) - complete responses with the whole version, cut-short ones with a prefix; "
        "non-trivial = at least one reader was served from the cache (Cache-Status hit); distinct = distinct scenario lines")
TRUSTED = ["modelled, not verified: Comm I/O, HTTP parsing, DiskIO modules, the mapping of mem_node pages / shm pages / rock slots / ufs files "
           "onto the model's slots and of StoreEntry::lock / StoreMap read locks onto the model's reader lists (C53-C56 cover the lock-free layers), "
           "the rig's origin and client stubs"]
ASSUMPTIONS = ["-N mode except for the `shm` instance (two workers, memory_cache_shared on; needs the build's DEFAULT_STATEDIR "
               "/usr/local/squid/var/run/squid, which the harness creates); SMP rock diskers are C19's",
               "cacheable 200 responses with validators; collapsed_forwarding off (default)",
               "which of the admissible versions a reader gets depends on timing; the model only fixes the admissible set"]
MANIFEST = {
    "engine": "e2e",
    "text": "partial: for the model of entries as slot chains with reader locks (write, publish/replace, append, finish, abort, hit, chunk copy, "
            "close, evict, purge; any interleaving, any number of entries, readers and slots) theorems reader_copies_only_its_version, "
            "hit_eq_some_complete_version, truncated_never_complete and no_free_while_read show that every reader copies, in order, chunks of "
            "the one response it attached to, is told 'complete' only after the last chunk of a completely stored response, and never for an "
            "aborted one, also while the entry is replaced, purged or the cache evicts; the model is tied to the rebuilt binary by scenario "
            "correspondence (each response names an admissible version) and a direct byte-for-byte oracle over six cache types",
    "note": "trusted: Lean kernel, python rig (origin/client stubs), loopback TCP; not modelled: bytes inside a slot (C53/C57), swap metadata, "
            "DiskIO modules and I/O errors, SMP rock diskers (C19), Vary, range requests",
    "technique": "Lean 4 proof (invariant over all interleavings of writers, readers and the replacement policy) + end-to-end scenario "
                 "correspondence with six rebuilt squid instances (one with two SMP workers)",
}


def build(stage):
    return H.Harness(stage)


SIZES = [0, 1, 2, 3, 100, 1000, 3900, 4000, 4056, 4096, 4097, 8192, 8193, 12288, 16384, 20000, 24000, 24576, 24577, 30000, 32768, 32769, 40000, 65536,
         65537, 100000, 131072, 200000, 300000]


def op_u(rng, k, tier, overlap=None):
    n = rng.choice(SIZES) if rng.chance(3, 4) else rng.below(400000 if tier == "thorough" and rng.chance(1, 6) else 60000)
    mode = rng.choice([0, 0, 1, 1, 1, 2, 3])
    if mode == 2 and n < 3:
        n = 3 + rng.below(5000)
    j = 0 if mode == 0 else (overlap if overlap is not None else rng.below(4))
    return "U%d.%d.%d.%d.%d.%d" % (k, n, rng.below(1000), rng.below(4), mode, j)


def random_case(rng, tier, store):
    nk = rng.range(1, 3)
    n = rng.range(5, 14)
    ops = ["U%d.%d.%d.%d.0.0" % (k, rng.choice(SIZES), rng.below(1000), rng.below(4)) for k in range(nk) if rng.chance(2, 3)]
    while len(ops) < n:
        c = rng.below(20)
        k = rng.below(nk)
        if c < 6:
            ops.append(op_u(rng, k, tier))
        elif c < 16:
            ops.append("R%d.%d" % (k, 1 if rng.chance(1, 4) else 0))
        elif c < 18:
            ops.append("E%d" % rng.choice([10, 25, 40, 55]))
        else:
            ops.append("P%d" % k)
    return "%s %d %s" % (store, nk, ",".join(ops))


def replace_while_reading(rng, tier, store):
    """the shape the property is about: slow readers of a large version are overtaken by one or two updates and by eviction pressure"""
    big = rng.choice([65536, 100000, 131072, 200000, 300000])
    ops = ["U0.%d.%d.%d.0.0" % (big, rng.below(1000), rng.below(4)), "R0.1", "R0.1"]
    ops.append("U0.%d.%d.%d.%d.%d" % (rng.choice(SIZES[8:]), rng.below(1000), rng.below(4), rng.choice([1, 1, 2, 3]), rng.range(1, 3)))
    ops += ["R0.%d" % rng.below(2) for _ in range(rng.range(1, 3))]
    if rng.chance(1, 2):
        ops.append("E%d" % rng.choice([25, 40, 55]))
    if rng.chance(1, 2):
        ops.append(op_u(rng, 0, tier))
    ops += ["R0.0", "R0.0"]
    return "%s 1 %s" % (store, ",".join(ops))


def boundary_cases():
    for store in H.STORES:
        yield "%s 2 U0.5000.1.0.0.0,R0.0,U0.6000.2.1.1.2,R0.0,R0.1,R0.0,U1.100000.3.0.0.0,R1.1,U1.90000.4.1.1.1,R1.0,R1.0" % store
        yield "%s 2 U0.50000.1.0.0.0,R0.0,U0.60000.2.1.2.2,R0.0,R0.0,R0.0,U1.30000.3.3.3.2,R1.0,R1.0,R1.0" % store
        yield "%s 2 U0.50000.1.0.0.0,R0.1,E40,R0.0,U0.60000.2.1.2.2,R0.0,R0.0,R0.0,P0,R0.0" % store
        yield "%s 1 U0.4056.1.0.1.1,R0.0,U0.4057.2.0.1.1,R0.0,U0.24576.3.0.1.1,R0.0,U0.24577.4.3.1.1,R0.0,R0.0" % store
        yield "%s 1 U0.0.1.0.0.0,R0.0,U0.1.2.3.1.1,R0.0,U0.0.3.0.3.1,R0.0,R0.0" % store
        yield "%s 1 U0.300000.1.1.0.0,R0.1,R0.1,U0.300000.2.1.1.3,R0.1,R0.0,E55,R0.0,R0.0" % store


def exhaustive_cases(tier):
    """thorough: every sequence of <= 4 operations from a small alphabet on one URL that starts with a stored big version, per store type"""
    if tier != "thorough":
        return
    alphabet = ["U0.70000.5.1.1.2", "U0.9000.6.0.2.2", "U0.30000.7.3.3.1", "R0.0", "R0.1", "P0"]
    frontier = [[]]
    for depth in range(4):
        frontier = [s + [a] for s in frontier for a in alphabet]
        if depth >= 1:
            for store in H.STORES:
                for i, s in enumerate(frontier):
                    if depth < 3 or i % 9 == H.STORES.index(store):
                        yield "%s 1 %s" % (store, ",".join(["U0.100000.1.0.0.0"] + s + ["R0.0"]))


def exhaustive(tier):
    return tier == "thorough"


def mutate(rng, l):
    t = l.split(" ")
    ops = t[2].split(",")
    k = rng.below(4)
    if k == 0:
        ops.insert(rng.below(len(ops) + 1), rng.choice(ops))
    elif k == 1 and len(ops) > 2:
        i = rng.below(len(ops) - 1)
        ops[i], ops[i + 1] = ops[i + 1], ops[i]
    elif k == 2 and len(ops) > 2:
        del ops[rng.below(len(ops))]
    else:
        ops = ops + ops[:max(1, len(ops) // 2)]
    if len(ops) > 24 or not ops:
        return l
    return "%s %s %s" % (t[0], t[1], ",".join(ops))


def header_update_cases(rng, tier):
    """a multi-slot entry gets its header updated by a 304, then eviction pressure recycles the stale anchor while readers keep hitting the entry"""
    for store in ("rock", "shm", "rock", "shm") if tier == "thorough" else ("rock", "shm"):
        n = rng.choice([70000, 45000, 130000])
        ops = ["U0.%d.%d.%d.0.0" % (n, rng.below(1000), rng.choice([0, 1])), "R0.0", "V0", "R0.0"]
        for _ in range(8):
            ops += ["E%d" % rng.choice([4, 6, 8]), "R0.0"]
        yield "%s 1 %s" % (store, ",".join(ops))
        ops = ["U0.%d.%d.0.0.0" % (n, rng.below(1000)), "U1.%d.%d.1.0.0" % (n // 2, rng.below(1000)), "V0", "V1", "R0.0", "R1.0"]
        for _ in range(6):
            ops += ["E%d" % rng.choice([5, 7]), "R0.0", "R1.0"]
        yield "%s 2 %s" % (store, ",".join(ops))


def cases(rng, tier):
    yield from boundary_cases()
    yield from header_update_cases(rng, tier)
    yield from exhaustive_cases(tier)
    n = 90 if tier == "thorough" else 9
    base = []
    for store in H.STORES:
        for i in range(n):
            l = replace_while_reading(rng, tier, store) if i % 3 == 0 else random_case(rng, tier, store)
            base.append(l)
            yield l
    for i in range(len(base) // 5):
        yield mutate(rng, rng.choice(base))


# ------------------------------------------------------------------------------------------------ oracle

def tokens(impl):
    return impl.split(",") if impl else []


def oracle(l, impl):
    sc = H.parse_line(l)
    if sc is None:
        return None if impl == "bad-op" else "harness accepted a malformed scenario"
    if impl.startswith("skip:"):
        return None                      # this machine cannot run SMP workers (reported in the distribution)
    if impl.startswith("abort") or impl == "bad-op":
        return "no usable observation: " + impl[:200]
    toks = tokens(impl)
    if len(toks) != len(sc["ops"]):
        return "no usable observation: " + impl[:200]
    trunc = {}
    for i, (op, tk) in enumerate(zip(sc["ops"], toks)):
        name, _, val = tk.partition("=")
        if name != op[0] or val in ("none", "timeout") or val.startswith("io-error"):
            return "no usable observation: operation %d gave %s" % (i, tk)
        if op[0] in ("U", "R"):
            f = val.split("!")[0].split(":")
            if "!" in val:
                what = "a complete response" if f[2] == "C" else "a response that was cut short"
                return "operation %d (%s, key %d): %s is not %s of the origin version it names: %s" % (
                    i, op[0], op[1], what, "byte for byte that version" if f[2] == "C" else "a prefix", tk)
            if f[0] != "200" and not (f[0] in ("502", "504") ):
                return "operation %d (%s, key %d): unexpected status: %s" % (i, op[0], op[1], tk)
    return None


def strip(tk):
    """impl token without the hit/miss marker"""
    name, _, val = tk.partition("=")
    f = val.split(":")
    return name, ":".join(f[:3]) if name in ("U", "R") else val


def compare(l, impl, model):
    sc = H.parse_line(l)
    if sc is None:
        return impl == model
    if impl.startswith("skip:"):
        return True
    a, b = tokens(impl), tokens(model)
    if len(a) != len(b):
        return False
    for x, y in zip(a, b):
        n1, v1 = strip(x.split("!")[0])
        n2, alts = y.partition("=")[0], y.partition("=")[2].split("|")
        if n1 != n2:
            return False
        if n1 == "E":
            continue                      # how many fillers arrive is not the model's business
        if v1 not in alts:
            return False
    return True


def classify(l, impl, why):
    return None


def nontrivial(l, impl, model):
    return ":hit" in (impl or "")


def tag(l, impl, model):
    sc = H.parse_line(l)
    if sc is None:
        return "bad-op"
    if (impl or "").startswith("skip:"):
        return "%s skipped" % sc["store"]
    hits = (impl or "").count(":hit")
    cut = (impl or "").count(":I")
    overlap = any(op[0] == "U" and op[5] and op[6] for op in sc["ops"])
    return "%s hits=%s overlap=%d cut-short=%s" % (sc["store"], "0" if not hits else ("1-3" if hits <= 3 else "4+"), int(overlap), "yes" if cut else "no")


def shrink(l):
    t = l.split(" ")
    if len(t) != 3:
        return
    ops = t[2].split(",")
    for i in range(len(ops)):
        if len(ops) > 1:
            yield "%s %s %s" % (t[0], t[1], ",".join(ops[:i] + ops[i + 1:]))
    for i, o in enumerate(ops):
        m = re.fullmatch(r"U(\d+)\.(\d+)\.(\d+)\.(\d)\.(\d)\.(\d)", o)
        if m and int(m.group(2)) > 5000:
            yield "%s %s %s" % (t[0], t[1], ",".join(ops[:i] + ["U%s.%d.1.0.%s.%s" % (m.group(1), int(m.group(2)) // 4, m.group(5), m.group(6))] + ops[i + 1:]))
