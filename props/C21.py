"""C21 HTTP request parsing does not depend on how input is segmented."""
import os
from vf.util import VERIF, hx, unhx
from vf.harness import ProcHarness

ID = "C21"
PROP_MODULE = "SquidModel.Properties.C21"
MODEL = "c21"
GEN = ["http1_request", "charsets"]


def build_exe(stage):
    built = getattr(stage, "built", None)
    if built is None:
        built = stage.built = {}
    if "c21" in built:
        return built["c21"]
    objs = [stage.compile(os.path.join(VERIF, "harness", "c21.cc"))]
    objs += stage.compile_many(["src/parser/Tokenizer.cc", "src/mime_header.cc", "src/http/RequestMethod.cc",
                                "src/base/CharacterSet.cc", "src/sbuf/SBuf.cc"])
    exe = stage.link_like("tests/testHttp1Parser", objs, os.path.join(stage.work, "c21"), drop=("mime_header.o",))
    built["c21"] = exe
    return exe


def build(stage):
    return ProcHarness([build_exe(stage)])

RULE = ("p <relaxed> <limit> <segments>: the real Http1::RequestParser fed the segments one by one (as ConnStateData does) and, "
        "separately, the concatenation in one call; heads are grammar-generated (methods, targets, versions, delimiter and "
        "CR/LF variants, garbage prefixes, header blocks with obs-fold/whitespace lines, trailing bytes), boundary (limits "
        "around the line/head/total length, method and URI length limits) and mutated (flip/insert/delete/truncate/duplicate); "
        "quick: every single split point of every head + random multi-way splits; thorough: additionally all pairs of split "
        "points of heads <= 64 bytes and all strings of length <= 6 over a 6-symbol alphabet at every single split. "
        "non-trivial = the one-shot outcome is accepted or rejected (not need-more); distinct = distinct case lines")
TRUSTED = ["modelled, not verified: SBuf/Tokenizer/CharacterSet primitives are modelled as list operations "
           "(takeWhile/dropWhile/reverse); the correspondence run compares the composed parser on every case",
           "character sets, method table, method/URI length limits are dumped from the running code every run"]
ASSUMPTIONS = ["relaxed_header_parser is 0 or 1 (the warning value -1 parses like 1)",
               "request_header_max_size >= 34 for the theorem (smaller limits are still generated: known finding C21-tiny-limit)",
               "a rejected outcome is compared by status code only: the caller (ConnStateData::parseHttpRequest) discards the whole "
               "input buffer on rejection, so the consumed length of a rejected parse has no effect",
               "the parser object is not used again once it is done (Http1::Server::parseOneRequest creates a new one)"]
MANIFEST = {
    "text": "full: parse_segments_eq_oneShot proves, for both modes, every byte string, every segmentation and every "
            "request_header_max_size >= 34, that the modelled parser as it is now (skipGarbageLines, parseRequestFirstLine with all "
            "field parsers and the length check, grabMimeBlock/headersEnd, cleanMimePrefix, unfoldMime, the stage machine and the "
            "inBuf=remaining() checkpoint; the repairs 37a6911 and 63b469c are probed in the staged code every run and the proof "
            "uses the probed flags) reports the same outcome incrementally and in one shot. Only a limit below 34 bytes is excluded "
            "(tiny_limit_counterexample, known finding C21-tiny-limit). parse_segments_eq_oneShot_partial is the general form for "
            "an unrepaired parser with its two input regions as hypotheses; the former counterexamples are kept as historical "
            "statements about the model with the repair switches off, and their witnesses as regression cases in the corpus",
    "note": "trusted: Lean kernel, table/flag dump, C++ harness, python oracle; the list-level model of Tokenizer/SBuf is tied to the code by "
            "the differential run only",
    "technique": "Lean 4 proof (resume/monotonicity lemmas over the stage machine) + table translator + ASan differential run; "
                 "oracle = incremental vs one-shot on the real parser",
}

CR, LF = b"\r", b"\n"
KNOWN_METHODS = [b"GET", b"POST", b"PUT", b"HEAD", b"CONNECT", b"OPTIONS", b"DELETE", b"TRACE", b"PURGE", b"PROPFIND", b"PRI",
                 b"VERSION-CONTROL", b"BASELINE-CONTROL"]
TCHARS = b"!#$%&'*+-.^_`|~0123456789ABCDEFGHIJKLMNOPQRSTUVWXYZabcdefghijklmnopqrstuvwxyz"
URICH = b":/?#[]@!$&'()*+,;=-._~%0123456789ABCDEFGHIJKLMNOPQRSTUVWXYZabcdefghijklmnopqrstuvwxyz"
RELAXED_DELIMS = b" \t\x0b\x0c\r"
DEFAULT_LIMIT = 65536


def gen_method(rng):
    k = rng.below(10)
    if k < 5:
        return rng.choice(KNOWN_METHODS)
    if k < 7:
        return rng.choice(KNOWN_METHODS).lower() if rng.chance(1, 2) else rng.choice(KNOWN_METHODS).title()
    if k < 9:
        return rng.bytes(rng.range(1, 8), TCHARS)
    return rng.bytes(rng.choice([31, 32, 33]), TCHARS)


def gen_target(rng, relaxed):
    k = rng.below(12)
    if k < 3:
        return b"/"
    if k < 5:
        return b"/" + rng.bytes(rng.range(1, 12), URICH)
    if k == 5:
        return b"http://example.com/" + rng.bytes(rng.range(0, 6), URICH)
    if k == 6:
        return rng.choice([b"*", b"example.com:443", b"/a?b=1", b"/1", b"/HTTP/1.1", b"/x1.1"])
    if k == 7:
        return b"/" + rng.bytes(rng.range(1, 6), b"\"\\|^<>`{}\x80\xff\xc3\xa9 a")   # relaxed-only characters
    if k == 8:
        return b"/a" + rng.choice([b" ", b"\t", b"\r", b"  "]) + b"b"                    # whitespace inside the target
    if k == 9:
        return b"/" + rng.bytes(rng.range(1, 4), bytes(range(256)))
    if k == 10:
        return b""
    return b"/" + rng.bytes(rng.range(20, 60), URICH)


def gen_version(rng):
    k = rng.below(14)
    if k < 6:
        return b"HTTP/1.1"
    if k < 8:
        return b"HTTP/1.0"
    return rng.choice([b"HTTP/1.2", b"HTTP/2.0", b"HTTP/0.9", b"HTTP/0.0", b"HTTP/11.1", b"HTTP/1.10", b"HTTP/9.9", None,
                       b"http/1.1", b"HTTP/1.", b"HTTP/.1", b"HTTP/1", b"ICY/1.1", b"HTTP/1.1x", b"TTP/1.1", b"HTTP/1.1 "])


def gen_delim(rng, relaxed):
    if rng.chance(7, 10):
        return b" "
    if rng.chance(1, 2):
        return rng.bytes(rng.range(1, 3), RELAXED_DELIMS)
    return rng.choice([b"  ", b"\t", b"", b" \r", b"\r ", b"\x0b", b"\x0c "])


def gen_eol(rng):
    return rng.choice([b"\r\n"] * 6 + [b"\n", b"\n", b"\r\r\n", b"\r\r\r\n", b"\r", b""])


def gen_garbage(rng):
    if rng.chance(6, 10):
        return b""
    return rng.choice([b"\r\n", b"\n", b"\r\n\r\n", b"\n\n", b"\n\r\n", b"\r\n\n", b"\r", b"\r\r\n", b"\r\n\r", b" ", b"\r\n ", b"\n\r"])


def gen_headers(rng):
    k = rng.below(10)
    if k == 0:
        return b""
    out = b""
    if rng.chance(1, 6):   # whitespace-preceded line(s) right after the request line (cleanMimePrefix)
        out += rng.choice([b" junk: 1", b"\tx", b" ", b"\rfoo", b"\x0bbar", b"\x0c"]) + gen_eol_h(rng)
    for _ in range(rng.range(0, 3)):
        name = rng.choice([b"Host", b"Accept", b"X-Foo", b"Content-Length", b"Connection"])
        val = rng.choice([b"example.com", b"*/*", b"1", b"0", b"keep-alive", b"a b", b""])
        out += name + rng.choice([b": ", b":", b" : "]) + val + gen_eol_h(rng)
        if rng.chance(1, 5):   # obs-fold continuation
            out += rng.choice([b" ", b"\t", b"  \t"]) + rng.choice([b"more", b"", b"x y"]) + gen_eol_h(rng)
        if rng.chance(1, 12):
            out += rng.choice([b"\r", b"\rX", b"bare\rcr", b"\r\r"])
    return out


def gen_eol_h(rng):
    return rng.choice([b"\r\n"] * 5 + [b"\n", b"\r\r\n"])


def gen_clean_head(rng, relaxed):
    """a head the given mode accepts (most of the time): goes through all stages"""
    m = rng.choice(KNOWN_METHODS) if rng.chance(3, 4) else rng.bytes(rng.range(1, 8), TCHARS)
    t = rng.choice([b"/", b"/index.html", b"http://example.com/a?b=c", b"*", b"example.com:443"]) if rng.chance(1, 2) \
        else b"/" + rng.bytes(rng.range(1, 16), URICH)
    v = rng.choice([b"HTTP/1.1"] * 4 + [b"HTTP/1.0", b"HTTP/1.2", b"HTTP/2.0"])
    if relaxed:
        g = rng.choice([b""] * 3 + [b"\r\n", b"\n", b"\r\n\r\n", b"\n\r\n"])
        d1 = b" " if rng.chance(2, 3) else rng.bytes(rng.range(1, 3), RELAXED_DELIMS)
        d2 = b" " if rng.chance(2, 3) else rng.bytes(rng.range(1, 3), RELAXED_DELIMS)
        if rng.chance(1, 5):
            m = bytes(c ^ 0x20 if 65 <= c <= 90 else c for c in m)
        if rng.chance(1, 5):
            t += rng.choice([b" x", b"\"q\"", b"\xc3\xa9", b"|^"])
        line = g + m + d1 + t + d2 + v + rng.choice([b"\r\n"] * 3 + [b"\n", b"\r\r\n"])
    else:
        line = m + b" " + t + b" " + v + b"\r\n"
    if v == b"HTTP/2.0":
        return line + rng.choice([b"", b"PRI"])
    hdr = b""
    for _ in range(rng.range(0, 4)):
        name = rng.choice([b"Host", b"Accept", b"X-Foo", b"Content-Length", b"Connection", b"User-Agent"])
        val = rng.choice([b"example.com", b"*/*", b"12", b"keep-alive", b"a b c", b"", b"x" * rng.range(1, 30)])
        eol = b"\r\n" if not relaxed or rng.chance(3, 4) else b"\n"
        hdr += name + b": " + val + eol
        if rng.chance(1, 4):
            hdr += rng.choice([b" ", b"\t"]) + rng.choice([b"folded", b"more words"]) + eol
    if rng.chance(1, 8):
        hdr = rng.choice([b" leading: ws\r\n", b"\tx\r\n"]) + hdr
    end = b"\r\n" if not relaxed or rng.chance(3, 4) else b"\n"
    return line + hdr + end + rng.choice([b""] * 3 + [b"BODY", b"GET / HTTP/1.1\r\n\r\n", b"\r\n"])


def gen_wild_head(rng, relaxed):
    line = gen_garbage(rng) + gen_method(rng) + gen_delim(rng, relaxed) + gen_target(rng, relaxed)
    v = gen_version(rng)
    if v is not None:
        line += gen_delim(rng, relaxed) + v
    line += gen_eol(rng)
    head = line + gen_headers(rng) + rng.choice([b"\r\n"] * 5 + [b"\n", b"\n", b"", b"\r", b"\r\r\n"])
    head += rng.choice([b""] * 4 + [b"BODY", b"GET / HTTP/1.1\r\n\r\n", b"\r\n", b"\n", b"x"])
    return head


def gen_head(rng, relaxed):
    return gen_clean_head(rng, relaxed) if rng.chance(3, 5) else gen_wild_head(rng, relaxed)


def mutate(rng, s):
    if not s:
        return rng.bytes(rng.range(1, 4))
    k = rng.below(7)
    i = rng.below(len(s))
    special = b"\r\n \t\x0b\x0c\x00:/HTP1.09G\x80\xff"
    if k == 0:
        return s[:i] + bytes([rng.choice(special) if rng.chance(2, 3) else rng.below(256)]) + s[i + 1:]
    if k == 1:
        return s[:i] + bytes([rng.choice(special)]) + s[i:]
    if k == 2:
        return s[:i] + s[i + 1:]
    if k == 3:
        return s[:i]
    if k == 4:
        j = min(len(s), i + rng.range(1, 6))
        return s[:j] + s[i:j] + s[j:]
    if k == 5:
        j = rng.below(len(s))
        return s[:i] + s[j:]
    return s[:i] + bytes([s[i] ^ (1 << rng.below(8))]) + s[i + 1:]


def after_garbage(relaxed, b):
    """what skipGarbageLines leaves (used for boundary limits and for the finding signatures)"""
    if not relaxed:
        return b
    i = 0
    while i < len(b) and (b[i] == 10 or (b[i] == 13 and i + 1 < len(b) and b[i + 1] == 10)):
        i += 1
    return b[i:]


def boundary_limits(rng, relaxed, head):
    w = after_garbage(relaxed, head)
    nl = w.find(b"\n")
    linelen = nl if nl >= 0 else len(w)
    base = rng.choice([linelen, linelen + 1, len(w), len(head), max(0, len(w) - linelen), 34, 0])
    return max(0, base + rng.range(-2, 2))


def case(relaxed, limit, segs):
    return "p %d %d %s" % (1 if relaxed else 0, limit, " ".join(hx(s) for s in segs) if segs else "-")


def single_cuts(relaxed, limit, head):
    for i in range(0, len(head) + 1):
        yield case(relaxed, limit, [head[:i], head[i:]])


def random_split(rng, head, ways):
    cuts = sorted(rng.below(len(head) + 1) for _ in range(ways - 1))
    segs, prev = [], 0
    for c in cuts + [len(head)]:
        segs.append(head[prev:c])
        prev = c
    return segs


def cases(rng, tier):
    thorough = tier == "thorough"
    nheads = 900 if thorough else 230
    for n in range(nheads):
        relaxed = rng.chance(1, 2)
        stream = rng.below(10)
        head = gen_head(rng, relaxed)
        limit = DEFAULT_LIMIT
        if stream >= 7:                       # mutations of a generated head
            for _ in range(rng.range(1, 3)):
                head = mutate(rng, head)
        elif stream >= 5:                     # boundary: limits around the interesting lengths
            limit = boundary_limits(rng, relaxed, head)
        if len(head) > 160:
            head = head[:160]
        yield from single_cuts(relaxed, limit, head)
        if rng.chance(1, 4):
            yield from single_cuts(not relaxed, limit, head)
        for _ in range(4):
            yield case(relaxed, limit, random_split(rng, head, rng.range(3, 8)))
        yield case(relaxed, limit, [bytes([c]) for c in head])     # byte by byte
        if thorough and len(head) <= 64:
            for i in range(len(head) + 1):
                for j in range(i, len(head) + 1):
                    yield case(relaxed, limit, [head[:i], head[i:j], head[j:]])
    # boundary: long lines and blocks against the real limits (method 32, URI 65536, header size)
    nlong = 40 if thorough else 8
    for n in range(nlong):
        relaxed = rng.chance(1, 2)
        k = rng.below(6)
        limit = DEFAULT_LIMIT
        if k == 0:
            head = b"GET /" + b"a" * rng.choice([65534, 65535, 65536, 65537]) + b" HTTP/1.1\r\n\r\n"
            limit = 1 << 20
        elif k == 1:
            head = b"GET /" + b"a" * rng.choice([65500, 65519, 65520, 65521, 65522, 65530]) + b" HTTP/1.1\r\nHost: x\r\n\r\n"
        elif k == 2:
            head = b"GET / HTTP/1.1\r\nX: " + b"b" * rng.choice([65500, 65510, 65514, 65515, 65516, 65517, 65530]) + b"\r\n\r\n"
        elif k == 3:
            head = b"GET" + b" " * rng.choice([65530, 65536, 65540]) + b"/ HTTP/1.1\r\n\r\n"
        elif k == 4:
            limit = rng.choice([64, 100, 128])
            head = b"POST /" + b"c" * (limit + rng.range(-14, 4)) + b" HTTP/1.1\r\nHost: y\r\n\r\n"
        else:
            limit = rng.choice([64, 100, 128])
            head = b"GET / HTTP/1.1\r\nA: " + b"d" * (limit + rng.range(-24, 2)) + b"\r\n\r\n"
        cuts = sorted(set([0, 1, len(head)] + [max(0, min(len(head), limit + d)) for d in (-2, -1, 0, 1, 2)] +
                          [rng.below(len(head) + 1) for _ in range(6)]))
        for i in cuts:
            yield case(relaxed, limit, [head[:i], head[i:]])
        yield case(relaxed, limit, random_split(rng, head, 5))
    # exhaustive small scope
    alpha = [b"\r", b"\n", b"G", b" ", b"/", b"1"]
    maxlen = 6 if thorough else 4
    def rec(prefix, n):
        if n == 0:
            yield prefix
            return
        for c in alpha:
            yield from rec(prefix + c, n - 1)
    for n in range(0, maxlen + 1):
        for s in rec(b"", n):
            for relaxed in (False, True):
                if thorough or n <= 3:
                    yield from single_cuts(relaxed, DEFAULT_LIMIT, s)
                else:
                    yield case(relaxed, DEFAULT_LIMIT, [bytes([c]) for c in s])
    # a complete tiny request after every garbage/CR pattern, at every single cut
    for g in (b"\r", b"\n", b"\r\n", b"\r\r\n", b"\n\r", b"\r\n\r", b"\n\r\n", b"\r\n\r\n", b" \r\n"):
        for relaxed in (False, True):
            yield from single_cuts(relaxed, DEFAULT_LIMIT, g + b"GET / HTTP/1.1\r\n\r\n")


def parse_outcome(txt):
    w = txt.split()
    if not w or w[0] not in ("more", "ok", "rej"):
        raise ValueError("unparsable outcome %r" % txt[:80])
    d = {"kind": w[0]}
    for tk in w[1:]:
        if "=" not in tk:
            raise ValueError("marker %s" % tk)
        k, v = tk.split("=", 1)
        d[k] = v
    return d


def split_line(line):
    w = line.split()
    relaxed = w[1] == "1"
    limit = int(w[2])
    segs = [unhx(t) for t in w[3:]]
    return relaxed, limit, segs


def oracle(line, impl):
    """the property itself, on the real parser's two runs: incremental outcome == one-shot outcome"""
    if impl.startswith("abort:"):
        return "sanitizer/abort: " + impl
    if " | " not in impl:
        return "unparsable output " + impl[:80]
    a, b = impl.split(" | ")
    try:
        inc, one = parse_outcome(a), parse_outcome(b)
    except ValueError as e:
        return "harness reports an inconsistency: %s" % e
    if inc["kind"] != one["kind"]:
        return "incremental %s but one-shot %s" % (short(inc), short(one))
    if inc["kind"] == "rej":
        if inc["s"] != one["s"]:
            return "incremental rejects with %s but one-shot with %s" % (inc["s"], one["s"])
        return None
    if inc["kind"] == "more":
        if inc["c"] != one["c"]:
            return "need-more with different consumed length (%s vs %s)" % (inc["c"], one["c"])
        return None
    for k in ("m", "g", "u", "v", "h", "c"):
        if inc[k] != one[k]:
            return "accepted with different %s (%s vs %s)" % (k, inc[k][:40], one[k][:40])
    return None


def short(d):
    return {"more": "needs more data", "ok": "accepts", "rej": "rejects(%s)" % d.get("s")}[d["kind"]]


def cr_split_signature(relaxed, segs):
    """relaxed, and a segment boundary where the unparsed buffer is exactly CR and the next byte is LF"""
    if not relaxed:
        return False
    whole = b"".join(segs)
    pos = 0
    for s in segs[:-1]:
        pos += len(s)
        if after_garbage(True, whole[:pos]) == b"\r" and whole[pos:pos + 1] == b"\n":
            return True
    return False


MIN_SANE_LIMIT = 34   # maxMethodLength + 2: below this the blame verdict itself depends on the cut (C21-tiny-limit)


def limit_reached_at_boundary(relaxed, limit, segs):
    """a segment boundary where the buffered first line has no LF yet but already holds >= limit bytes"""
    whole = b"".join(segs)
    pos = 0
    for s in segs[:-1]:
        pos += len(s)
        p = after_garbage(relaxed, whole[:pos])
        if b"\n" not in p and len(p) >= limit:
            return True
    return False


def line_limit_signature(relaxed, limit, segs):
    """... and the LF of that line is part of the input"""
    return limit >= MIN_SANE_LIMIT and b"\n" in after_garbage(relaxed, b"".join(segs)) and limit_reached_at_boundary(relaxed, limit, segs)


def tiny_limit_signature(relaxed, limit, segs):
    return limit < MIN_SANE_LIMIT and limit_reached_at_boundary(relaxed, limit, segs)


def classify(line, impl, why):
    """C21-cr-split and C21-line-limit are FIXED (commits 37a6911, 63b469c): returning their ids only labels a regression,
    it suppresses nothing; C21-tiny-limit is the one known finding"""
    if not line.startswith("p ") or impl.startswith("abort:"):
        return None
    try:
        relaxed, limit, segs = split_line(line)
    except Exception:
        return None
    if tiny_limit_signature(relaxed, limit, segs):      # the one known finding first: with a limit below 34 the length check
        return "C21-tiny-limit"                         # decides on a partial method whatever else the input looks like
    if cr_split_signature(relaxed, segs):
        return "C21-cr-split"
    if line_limit_signature(relaxed, limit, segs):
        return "C21-line-limit"
    return None


def shrink(line):
    """merge adjacent segments first; bytes are dropped only from cases that carry no finding signature"""
    w = line.split()
    head, segs = w[:3], w[3:]
    for i in range(len(segs) - 1):
        a, b = segs[i], segs[i + 1]
        m = (a if a != "-" else "") + (b if b != "-" else "")
        yield " ".join(head + segs[:i] + [m or "-"] + segs[i + 2:])
    if classify(line, "", "") is not None:
        return
    for i, tk in enumerate(segs):
        if tk == "-":
            continue
        n = len(tk) // 2
        step = max(1, n // 2)
        while step >= 1:
            for off in range(0, n, step):
                cand = tk[:off * 2] + tk[(off + step) * 2:]
                yield " ".join(head + segs[:i] + [cand or "-"] + segs[i + 1:])
            step //= 2


def nontrivial(line, impl, model):
    return " | " in impl and not impl.split(" | ")[1].startswith("more")


def tag(line, impl, model):
    if " | " not in impl:
        return impl.split(":")[0]
    w = line.split()
    one = impl.split(" | ")[1].split()
    kind = one[0]
    if kind == "rej":
        kind += one[1][1:]
    elif kind == "more":
        kind += one[1][2:]
    nseg = len(w) - 3
    return "%s %s segs=%s%s" % ("relaxed" if w[1] == "1" else "strict", kind, nseg if nseg <= 3 else ">3",
                                 "" if w[2] == str(DEFAULT_LIMIT) else " limit*")


def exhaustive(tier):
    return True   # all strings up to the tier's length over the 6-symbol alphabet, both modes (every single cut in thorough)


KNOWN_MUST_MATCH_MODEL = True   # inside a known finding's region the observation must still equal the model's (which reproduces the listed defect); see lib/vf/run.py
