"""C60 ICAP adaptation delivers exactly the virgin or the adapted message (end to end, with an ICAP stub)."""
import os, re, importlib.util
from vf.util import VERIF
from e2e import rig

ID = "C60"
PROP_MODULE = "SquidModel.Properties.C60"
MODEL = "c60"
GEN = ["icap_consts"]
RULE = ("scenario = REQMOD/RESPMOD x service (preview none/0/5/100/4096, bypass, 206) x virgin body (none / known / unknown length, sizes around the "
        "preview size and the 64 KB backup limit) x how much of it squid holds when the ICAP stub acts x when the stub acts (after the heads, after the "
        "preview, after 100 Continue + body) x what it does (204, 200 with/without body, request satisfaction, 206 use-original-body, error status, "
        "garbage, close, reset, replies without an HTTP head) x where its reply is cut (ICAP head, adapted head, every region of the chunked body) x close/reset; "
        "non-trivial = the ICAP transaction was started and the recipient's observation could be judged; distinct = distinct scenario lines")
TRUSTED = ["modelled, not verified: Comm I/O and AsyncCall scheduling, the HTTP/ICAP head parsers and the chunked decoder (C23-C26), the store/client-side "
           "delivery of the adapted body, ServiceRep (OPTIONS, suspension), retries on persistent connections (icap_persistent_connections off in the rig)",
           "python stubs (e2e/icap_stub.py, e2e/rig.py) and loopback TCP"]
ASSUMPTIONS = ["one ICAP service per transaction (no chains/sets), icap_retry off, icap_service_failure_limit -1, cache deny all",
               "the bypass clause is judged only when squid still held the whole received virgin prefix (fewer than 65535 body bytes had arrived when the "
               "service failed): a proxy with a bounded buffer cannot replay what it already released (squid.conf: 'Not all ICAP errors can be bypassed')"]
MANIFEST = {
    "engine": "e2e",
    "text": "partial: for the ModXact state machine (every handler of ModXact.cc/Xaction.cc that decides what is sent: preview/100/200/204/206 handling, "
            "virginConsume/backup window, echoing, parseBody, stopSending, callException/bypassFailure, prepEchoing) and every event history: "
            "output_is_virgin_or_adapted_or_error, never_mixed, complete_means_intact, echo_needs_intact_prefix, bypass_flag_means_nothing_used, "
            "bypass_before_adapted_use_yields_virgin_partial (+ counterexamples for the regions where the real code answers with an error). Tied to the rebuilt "
            "binary by end-to-end scenarios against an ICAP stub (outcome class must equal the model's) and a direct oracle on what client and origin received.",
    "note": "trusted: Lean kernel, python rig + ICAP stub, loopback TCP. Not modelled: Comm/AsyncCall scheduling, parsers, store delivery, retries/repeats across attempts, service chains",
    "technique": "Lean 4 invariant over event histories of the ICAP MOD transaction model + end-to-end scenario correspondence with the rebuilt squid",
}
MINIMISE_BUDGET = 24
MAX_REPORT = 6

_spec = importlib.util.spec_from_file_location("vf_harness_c60", os.path.join(VERIF, "harness", "c60.py"))
c60h = importlib.util.module_from_spec(_spec)
_spec.loader.exec_module(c60h)
parse, fmt, KEYS, PREVIEWS, BACKUP = c60h.parse, c60h.fmt, c60h.KEYS, c60h.PREVIEWS, c60h.BACKUP
CAP = BACKUP - 1      # what the virgin pipe can hold (one byte is kept for a terminator)


class Harness:
    """runs the scenarios; an observation that the direct oracle or the model rejects is re-run (flake guard: machine load can make
    a stub miss a timeout) and only reported when it fails three times"""

    def __init__(self, stage):
        self.h = c60h.Harness(stage)
        self.crashes = 0
        self.model = None

    def run(self, lines):
        # scenarios that may kill squid run last, one at a time (every casualty of a crash would have to be replayed)
        risky = [i for i, l in enumerate(lines) if may_be_fatal(l)]
        safe = [i for i in range(len(lines)) if i not in set(risky)]
        outs = [None] * len(lines)
        for i, o in zip(safe, self.h.run([lines[i] for i in safe])):
            outs[i] = o
        for attempt in range(2):
            bad = [i for i in safe
                   if (oracle(lines[i], outs[i]) and not classify(lines[i], outs[i], oracle(lines[i], outs[i]))) or outs[i].startswith("abort:io") or suspicious(lines[i], outs[i])]
            if not bad or len(bad) > 40:
                break
            redo = self.h.run([lines[i] for i in bad])
            for i, o in zip(bad, redo):
                if not (oracle(lines[i], o) or suspicious(lines[i], o)) or attempt == 1:
                    outs[i] = o
        for i in risky:
            outs[i] = self.h.run([lines[i]])[0]
        self.crashes = self.h.crashes
        return outs

    def close(self):
        self.h.close()


def may_be_fatal(line):
    d = parse(line)
    if d is None:
        return False
    return d["act"] in ("206x", "200x") or (d["act"] in ("204", "100") and d["cut"] == "-" and has_body(d) and d["vl"] >= CAP and not allow204_outside(d)
                                            and preview_ad(d) is None)


def relink_if_needed(stage):
    """automake lists $(ADAPTATION_LIBS) in squid_LDADD but not in squid_DEPENDENCIES: after a change in src/adaptation `make all`
    rebuilds libadaptation.la and leaves the squid binary alone. A stage with such a change (VERIF_PATCH) must relink explicitly."""
    src = os.path.join(stage.repo, "src")
    exe = os.path.join(src, "squid")
    libs = [os.path.join(src, "adaptation", ".libs", "libadaptation.a"), os.path.join(src, "adaptation", "icap", ".libs", "libicap.a")]
    try:
        newest = max(os.path.getmtime(l) for l in libs if os.path.exists(l))
        if os.path.exists(exe) and newest <= os.path.getmtime(exe):
            return False
    except (OSError, ValueError):
        return False
    try:
        os.unlink(exe)
    except OSError:
        pass
    stage.make(targets=("squid",), subdir="src")
    return True


def build(stage):
    if hasattr(stage, "make"):
        relink_if_needed(stage)
    return Harness(stage)


# ------------------------------------------------------------------------------------------------ scenario helpers

def mk(**kw):
    kw = dict(kw)
    d = {"m": "rs", "p": "n", "b": 0, "u": 0, "vk": "k", "vl": 100, "pre": None, "at": "e", "act": "204", "al": 50, "acl": 0, "ch": 0,
         "cut": "-", "end": "k", "seg": 0, "uob": 0}
    d.update({k: v for k, v in kw.items() if k in d})
    if d["vk"] == "n":
        d["vl"] = 0
    if d["pre"] is None or d["pre"] > d["vl"]:
        d["pre"] = d["vl"]
    if d["at"] not in ("h", "p"):
        d["pre"] = d["vl"]
    if d["at"] == "p" and d["p"] != "n":
        d["pre"] = max(d["pre"], min(int(d["p"]), d["vl"]))
    if d["cut"] != "-" and d["end"] == "k":
        d["end"] = "c"
    if d["vl"] >= CAP and d["at"] in ("h", "p") and d["p"] == "n" and not allow204_outside(d) and not kw.get("racy"):
        # nothing keeps squid from releasing body bytes while it writes them: whether it already did when the stub acts is a race
        d["at"] = "e"
        d["pre"] = d["vl"]
    if d["act"] == "206":
        # use-original-body must point into what squid surely holds when the reply arrives: nothing is certain when the stub acts
        # before reading any body byte, the preview when it acts after it, everything after it read the whole body
        sure = d["vl"] if d["at"] not in ("h", "p") else (min(preview_ad(d) or 0, d["vl"]) if d["at"] == "p" else 0)
        d["uob"] = min(d["uob"], sure)
    if d["ch"] and d["al"] // d["ch"] > 3000:
        d["ch"] = 0          # tens of thousands of tiny chunks only slow the stubs down
    return fmt(d)


def preview_ad(d):
    """the preview squid advertises (None = no preview)"""
    if d["p"] == "n":
        return None
    ad = min(int(d["p"]), BACKUP)
    if d["vk"] == "n" or (d["vk"] == "k" and d["vl"] == 0):
        return 0
    if d["vk"] == "k":
        ad = min(ad, d["vl"])
    return ad


def has_body(d):
    return d["vk"] == "u" or (d["vk"] == "k" and d["vl"] > 0)


def allow204_outside(d):
    return (not has_body(d)) or (d["vk"] == "k" and d["vl"] < BACKUP)


def continued(d):
    """the stub sent 100 Continue before acting"""
    ad = preview_ad(d)
    if ad is None or d["at"] in ("h", "p") or not has_body(d):
        return False
    ieof = d["vl"] <= ad if d["vk"] == "u" else d["vl"] <= ad
    return not ieof


def reply_complete(d):
    return d["cut"] == "-" and d["act"] in ("204", "200", "200n", "200r", "206")


def headless(d):
    return d["act"] in ("200x", "206x")


def failure_before_adapted_use(d):
    """the service fails before squid got a whole adapted head: error status, garbage, close/reset without a reply, a reply cut inside
    the ICAP head or inside the adapted HTTP head"""
    if d["act"] in ("g", "x", "r", "200x") or re.fullmatch(r"e\d+", d["act"]):
        return True
    if d["act"] in ("204", "200", "200n", "200r", "206") and d["cut"][0] in "it":
        if d["cut"][0] == "t" and d["act"] == "204":
            return False
        return True
    return False


def parse_obs(impl):
    m = re.fullmatch(r"c=(\d+):(\S):(\d+):(\S+):(\S+):([01]) o=(\d+):(\S):(\d+):(\S+):(\S+):([01]) i=(\d+):(\S+):(\S+)", impl)
    if not m:
        return None
    g = m.groups()
    return {"c": {"status": int(g[0]), "mark": g[1], "len": int(g[2]), "relV": g[3], "relA": g[4], "complete": g[5] == "1"},
            "o": {"n": int(g[6]), "mark": g[7], "len": int(g[8]), "relV": g[9], "relA": g[10], "complete": g[11] == "1"},
            "i": {"n": int(g[12]), "saw": g[13], "did": g[14]}}


def msg_class(x):
    """class of one received message: V / A (complete and intact), VT / AT (visibly cut short), E (squid error page), O (origin's own reply),
    0 (nothing), or MIX:<why>"""
    mark = x["mark"]
    if mark == "E":
        return "E"
    if mark == "O":
        return "O"
    if mark == "-":
        return "E" if x.get("status", 0) >= 400 else "MIX:message without a known head (status %s)" % x.get("status")
    r = x["relV"] if mark == "V" else x["relA"]
    name = "virgin" if mark == "V" else "adapted"
    if r == "no":
        other = x["relA"] if mark == "V" else x["relV"]
        return "MIX:%s head followed by a body that is not a prefix of the %s body%s" % (name, name, " (it is the other message's body)" if other != "no" and x["len"] else "")
    if x["complete"]:
        if r != "eq":
            return "MIX:%s message delivered as complete with %d body bytes only" % (name, x["len"])
        return mark
    return mark + "T"


def recipient_class(d, obs):
    """what the recipient of the adaptation result got"""
    if d["m"] == "rs":
        if obs["c"]["status"] == 0:
            return "0"
        return msg_class(obs["c"])
    # REQMOD: the origin receives the (virgin or adapted) request; request satisfaction and errors go to the client
    if obs["o"]["n"] >= 1:
        return msg_class(dict(obs["o"], status=200))
    if obs["c"]["status"] == 0:
        return "0"
    return msg_class(obs["c"])


# ------------------------------------------------------------------------------------------------ the direct oracle

def oracle(line, impl):
    d = parse(line)
    if d is None:
        return None if impl == "bad-op" else "scenario not understood by the runner: " + impl
    if impl.startswith("abort") or impl == "bad-op":
        return "no usable observation: " + impl[:100]
    obs = parse_obs(impl)
    if obs is None:
        return "unreadable observation: " + impl[:100]
    if obs["i"]["n"] == 0:
        return "the ICAP service was not consulted"
    if obs["i"]["saw"] != "ok":
        return "the ICAP service was sent something else than the virgin message (%s)" % obs["i"]["saw"]
    if d["m"] == "rq" and obs["o"]["n"] > 1:
        return "the origin received the request %d times" % obs["o"]["n"]
    # every message anybody received is virgin, adapted or an error -- never a mix
    for who in ("c", "o"):
        x = obs[who]
        if who == "o" and (d["m"] == "rs" or x["n"] == 0):
            continue
        if who == "c" and x["status"] == 0:
            continue
        k = msg_class(dict(x, status=x.get("status", 200)))
        if k.startswith("MIX:"):
            return ("client: " if who == "c" else "origin: ") + k[4:]
    got = recipient_class(d, obs)
    if d["m"] == "rq" and obs["o"]["n"] >= 1 and obs["o"]["complete"] and obs["c"]["mark"] not in ("O",):
        return "the origin received a complete request but the client got %s instead of the origin's reply" % obs["c"]["mark"]
    if d["m"] == "rq" and obs["o"]["n"] == 0 and obs["c"]["mark"] == "O":
        return "the client got the origin's reply although no request reached the origin"
    held = d["pre"] if d["at"] in ("h", "p") else d["vl"]
    # bypass: a failure before any adapted content was used yields the virgin message
    if d["b"] == 1 and failure_before_adapted_use(d) and held < CAP:
        if got != "V":
            return "bypass=1 and the service failed before any adapted content was used, but the recipient got %s instead of the virgin message" % got
    # 204 that squid offered to honour: exactly the virgin message
    if d["act"] in ("204", "100") and d["cut"] == "-":
        offered = (preview_ad(d) is not None and not continued(d)) or allow204_outside(d)
        if d["act"] == "100":
            offered = False
        if offered and got != "V":
            return "204 No Content (offered by squid) but the recipient got %s instead of the virgin message" % got
    # a complete, well-formed 200: exactly the adapted message
    if d["act"] in ("200", "200n", "200r") and d["cut"] == "-" and not (d["act"] == "200r" and d["m"] == "rs"):
        if got != "A":
            return "complete ICAP 200 but the recipient got %s instead of the adapted message" % got
    return None


# ------------------------------------------------------------------------------------------------ model correspondence

def suspicious(line, impl):
    """cheap pre-check used by the flake guard only: the class nobody should see without a fault"""
    d = parse(line)
    obs = parse_obs(impl) if d else None
    if not obs:
        return False
    got = recipient_class(d, obs)
    return got in ("0",) or (reply_complete(d) and got in ("E", "VT", "AT") and d["act"] != "206" and not (d["act"] == "204" and not allow204_outside(d)))


def compare(line, impl, model):
    d = parse(line)
    if d is None:
        return impl == model
    want = model.split(" ")[0].split("|")
    if impl.startswith("abort:squid-died"):
        return "CRASH" in want
    obs = parse_obs(impl)
    if obs is None:
        return False
    got = recipient_class(d, obs)
    if got in want:
        return True
    if got == "0" and "E" in want:
        return True      # the client connection was closed instead of an error page
    if d["m"] == "rq":
        # a truncated request may not have left squid at all when the abort came
        if ("AT" in want or "VT" in want) and got in ("E", "0"):
            return True
    who = obs["o"] if (d["m"] == "rq" and obs["o"]["n"] >= 1) else obs["c"]
    if "AT" in want and got == "A" and d["acl"] == 1 and who["relA"] == "eq":
        return True      # every announced (Content-Length) byte arrived before the abort: the recipient cannot see it
    if d["m"] == "rs" and "VT" in want and got == "V" and d["vk"] == "k" and obs["c"]["relV"] == "eq":
        return True
    if ("AT" in want and got == "E") or ("VT" in want and got == "E"):
        # the abort overtook the head on its way to the recipient (store entry still empty)
        return obs["c"]["mark"] == "E"
    return False


def nontrivial(line, impl, model):
    d = parse(line)
    obs = parse_obs(impl) if d else None
    return bool(obs and obs["i"]["n"] >= 1)


def tag(line, impl, model):
    d = parse(line)
    if d is None:
        return "bad"
    obs = parse_obs(impl)
    got = recipient_class(d, obs) if obs else "?"
    act = d["act"] if not re.fullmatch(r"e\d+", d["act"]) else "err"
    return "%s p=%s b=%d body=%s at=%s act=%s%s -> %s" % (d["m"], "y" if d["p"] != "n" else "n", d["b"], d["vk"], d["at"][0], act,
                                                          "" if d["cut"] == "-" else " cut=" + d["cut"][0], got[:3])


# ------------------------------------------------------------------------------------------------ known findings

def stalls_behind_virgin_body(d):
    """RESPMOD: the service answered while squid still holds the whole received virgin prefix as a backup (nothing consumed) and the origin has
    more body to send than the virgin pipe can take: nobody tells the origin side that the body is no longer wanted"""
    return (d["m"] == "rs" and d["act"] in ("200", "200n", "206") and d["cut"] == "-" and d["at"] in ("h", "p") and preview_ad(d) is not None
            and d["pre"] < d["vl"] and d["vl"] > CAP)


def classify(line, impl, why):
    d = parse(line)
    if d is None or not why:
        return None
    if why.startswith("complete ICAP 200 but the recipient got AT") and stalls_behind_virgin_body(d) and d["acl"] == 0:
        return "C60-adapted-reply-stalls-behind-unconsumed-virgin-body"
    if why.startswith("no usable observation: abort:squid-died"):
        if d["act"] == "206x" and d["u"] == 1 and has_body(d) and d["cut"][0] != "i" and "Segment_Violation" in impl:
            return "C60-206-without-http-head-segfault"
        if d["act"] in ("204", "100") and d["cut"] == "-" and has_body(d) and "virginConsumed" in impl and d["vl"] >= CAP and not allow204_outside(d):
            return "C60-unsolicited-204-fatal"
        return None
    if why.startswith("bypass=1 and the service failed"):
        if d["m"] == "rs" and (d["act"] == "r" or (d["cut"][0] == "i" and d["end"] == "r")):
            return "C60-respmod-read-error-not-bypassed"
        if d["cut"][0] == "t" and d["act"] in ("200", "200n", "200r", "206"):
            return "C60-bypass-lost-after-icap-200-status"
        if has_body(d):
            backup_planned = preview_ad(d) is not None or allow204_outside(d)
            m = re.fullmatch(r"e(\d+)", d["act"])
            if m and 100 <= int(m.group(1)) <= 599 and d["cut"][0] != "i" and backup_planned:
                return "C60-bypass-lost-after-stopbackup"     # handleUnknownScode(): stopBackup() before the throw
            if continued(d) and not allow204_outside(d):
                return "C60-bypass-lost-after-stopbackup"     # handle100Continue(): stopBackup() when 204/206 outside the preview is not allowed
    return None


# ------------------------------------------------------------------------------------------------ generators

ERRS = ["e500", "e404", "e503", "e400", "e302", "e999"]


def cuts_for(rng, act, al):
    if act in ("204",) or re.fullmatch(r"e\d+", act):
        return ["i1", "i%d" % rng.range(2, 40), "i60"]
    c = ["i1", "i%d" % rng.range(2, 60), "t1", "t%d" % rng.range(2, 40), "t9999"]    # t9999 = all but the last byte of the adapted head
    if act != "200n":
        c += ["b0", "b1", "z", "y"]
        if al > 2:
            c += ["b%d" % rng.range(2, al - 1), "b%d" % (al - 1)]
    return c


def gen_valid(rng, big):
    m = rng.choice(["rs", "rq"])
    p = rng.choice(PREVIEWS)
    vk = rng.choice(["n", "k", "k", "u", "u"])
    sizes = [1, 3, 5, 6, 99, 100, 101, 1000, 4095, 4096, 4097, 20000]
    if big:
        sizes += [65534, 65535, 65536, 65537, 70000, 150000]
    vl = 0 if vk == "n" else rng.choice(sizes)
    at = rng.choice(["h", "p", "e", "e", "c%d" % rng.range(0, 50)])
    acts = ["204", "204", "200", "200", "200n", "206"] + (["200r"] if m == "rq" else [])
    act = rng.choice(acts)
    al = rng.choice([0, 1, 50, 777, 5000] + ([65535, 65536, 70001, 140000] if big else []))
    u = 1 if act == "206" and rng.chance(5, 6) else rng.below(2)
    pre = vl if rng.chance(1, 2) else rng.range(0, min(vl, 60000))
    return mk(m=m, p=p, b=rng.below(2), u=u, vk=vk, vl=vl, pre=pre, at=at, act=act, al=al, acl=rng.below(2), ch=rng.choice([0, 0, 1, 7, 4096]),
              end=rng.choice(["k", "k", "c"]), seg=rng.choice([0, 0, 0, 50, 1000]), uob=rng.range(0, max(vl, 1)))


def gen_fault(rng, big):
    m = rng.choice(["rs", "rq"])
    p = rng.choice(PREVIEWS)
    vk = rng.choice(["n", "k", "k", "u", "u"])
    sizes = [1, 5, 6, 100, 101, 3000, 20000]
    if big:
        sizes += [65534, 65535, 65536, 100000]
    vl = 0 if vk == "n" else rng.choice(sizes)
    at = rng.choice(["h", "p", "e", "e"])
    pre = vl if rng.chance(1, 2) else rng.range(0, min(vl, 60000))
    b = 1 if rng.chance(2, 3) else 0
    k = rng.below(10)
    al = rng.choice([0, 1, 50, 3000])
    if k < 3:
        return mk(m=m, p=p, b=b, u=rng.below(2), vk=vk, vl=vl, pre=pre, at=at, act=rng.choice(ERRS), end=rng.choice(["k", "c"]))
    if k < 5:
        return mk(m=m, p=p, b=b, u=rng.below(2), vk=vk, vl=vl, pre=pre, at=at, act=rng.choice(["g", "x", "r", "x", "g"]))
    act = rng.choice(["200", "200", "204", "200n", "206"] + (["200r"] if m == "rq" else []) + ERRS[:2])
    cut = rng.choice(cuts_for(rng, act, al))
    return mk(m=m, p=p, b=b, u=1 if act == "206" else rng.below(2), vk=vk, vl=vl, pre=pre, at=at, act=act, al=al, acl=rng.below(2), ch=rng.choice([0, 7, 1000]),
              cut=cut, end=rng.choice(["c", "c", "r"]), seg=rng.choice([0, 0, 30]), uob=rng.range(0, max(vl, 1)))


def gen_boundary(rng, big):
    """virgin sizes around the preview size and the backup limit, adapted sizes around the pipe capacity"""
    m = rng.choice(["rs", "rq"])
    p = rng.choice(["0", "5", "100", "4096"])
    ad = int(p)
    vk = rng.choice(["k", "u"])
    near = [max(ad - 1, 0), ad, ad + 1, ad + 2]
    if big:
        near += [BACKUP - 2, BACKUP - 1, BACKUP, BACKUP + 1]
    vl = rng.choice(near)
    if vk == "k" and vl == 0:
        vk = "n"
    at = rng.choice(["p", "p", "e", "h"])
    act = rng.choice(["204", "204", "200", "x", "e500", "206"])
    return mk(m=m, p=p, b=rng.below(2), u=1 if act == "206" else 0, vk=vk, vl=vl, at=at, act=act, al=rng.choice([0, 10, BACKUP - 1, BACKUP] if big else [0, 10]),
              acl=rng.below(2), ch=rng.choice([0, 3]), uob=rng.choice([0, 1, max(vl - 1, 0), vl]))


def exhaustive_small():
    out = []
    for m in ("rs", "rq"):
        for p in ("n", "0", "5"):
            for b in (0, 1):
                for vk, vl in (("n", 0), ("k", 3), ("k", 8), ("u", 3), ("u", 8)):
                    for at in ("h", "p", "e"):
                        for act, cut, end in (("204", "-", "k"), ("200", "-", "k"), ("200n", "-", "c"), ("e500", "-", "k"), ("x", "-", "k"), ("r", "-", "k"),
                                              ("g", "-", "k"), ("200", "i9", "c"), ("200", "t9", "c"), ("200", "b0", "c"), ("200", "b2", "r"), ("200", "z", "c"),
                                              ("204", "i9", "c"), ("206", "-", "k")):
                            out.append(mk(m=m, p=p, b=b, vk=vk, vl=vl, at=at, act=act, al=4, ch=3, cut=cut, end=end))
    return out


def gen_fatal(rng):
    """replies squid does not survive today (kept few: every one costs a restart)"""
    k = rng.below(3)
    if k == 0:     # 206 with a body but without an encapsulated HTTP head
        return mk(m=rng.choice(["rs", "rq"]), p=rng.choice(["5", "100"]), b=rng.below(2), u=1, vk="k", vl=rng.choice([50, 3000]), at=rng.choice(["p", "e"]), act="206x", al=rng.choice([0, 10]))
    if k == 1:     # the same shape as a 200: refused by validate200Ok()
        return mk(m=rng.choice(["rs", "rq"]), p=rng.choice(["n", "5"]), b=rng.below(2), u=1, vk="k", vl=50, at="e", act="200x", al=10)
    # 204 nobody offered, while the body (too big to back up) is still being written
    return mk(m="rs", p="n", b=0, u=0, vk=rng.choice(["u", "k"]), vl=rng.choice([300000, 390000]), at="h", act="204", racy=True)


def cases(rng, tier):
    thorough = tier == "thorough"
    n = 1000 if thorough else 260
    seen = set()
    out = []

    def add(l):
        if l not in seen:
            seen.add(l)
            out.append(l)
    for i in range(8 if thorough else 3):
        add(gen_fatal(rng))
    if thorough:
        for l in exhaustive_small():
            add(l)
    for i in range(n):
        big = rng.chance(1, 6) if not thorough else rng.chance(1, 4)
        k = rng.below(10)
        if k < 4:
            add(gen_valid(rng, big))
        elif k < 8:
            add(gen_fault(rng, big))
        else:
            add(gen_boundary(rng, big))
    return out


def exhaustive(tier):
    return tier == "thorough"


def shrink(line):
    d = parse(line)
    if d is None:
        return
    def alt(**kw):
        e = dict(d)
        e.update(kw)
        return mk(**e)
    for k in ("vl", "al"):
        if d[k] > 8:
            for f in (16, 2):
                yield alt(**{k: max(d[k] // f, 1), "pre": None})
    if d["seg"]:
        yield alt(seg=0)
    if d["ch"]:
        yield alt(ch=0)
    if d["u"] and d["act"] != "206":
        yield alt(u=0)
    if d["acl"]:
        yield alt(acl=0)
    if d["pre"] < d["vl"]:
        yield alt(pre=d["vl"])
    if d["uob"]:
        yield alt(uob=0)
