"""C46 Proxy authentication gates forwarding and never mixes identities (end to end)."""
import os, re, base64, binascii
from vf.util import hx, unhx
from e2e import rig

ID = "C46"
PROP_MODULE = "SquidModel.Properties.C46"
MODEL = "c46"
GEN = ["auth_basic"]
RULE = ("scenario = a schedule of client arrivals (tagged GETs with valid / wrong / garbled / missing Basic credentials of 1-3 users, on shared or "
        "separate persistent connections) interleaved with helper answers released in a chosen order (honest helper: OK iff password = 'pw-'+user) "
        "and clock steps past credentialsttl; every scenario ends by answering every lookup; non-trivial = at least one helper lookup and "
        "two arrivals with decodable credentials; distinct = distinct scenario lines")
TRUSTED = ["modelled, not verified: Comm I/O, ACL tree evaluation around the proxy_auth node (one `http_access allow <proxy_auth REQUIRED>` rule), "
           "the 407 page and the forwarding path after AUTH_AUTHENTICATED; header parsing and base64 are tied separately (C25/C36)",
           "the harness reads Squid's own debug trace (sections 29/84) to learn when a step has been processed and which requests a helper answer resumed"]
ASSUMPTIONS = ["Basic is the only configured scheme; casesensitive off; credentialsttl > 0; one helper process with concurrency (answers in any order); "
               "no key_extras (the helper line is `user SP password LF`; a line that does not fit HELPER_INPUT_BUFFER is modelled: not submitted, challenged, record untouched); "
               "honest helper (its verdict is a function of the user/password line it receives); no max_user_ip, no external ACLs"]
MANIFEST = {
    "engine": "e2e",
    "text": "partial: for the Basic authentication state machine (scheme match + credential split, the shared per-user record in the name cache with "
            "updateCached, authenticated/direction, startHelperLookup queueing, HandleReply writing the verdict to the shared record and resuming the waiters, "
            "TTL, cache garbage collection) and every history of arrivals, helper answers (any order, any verdicts), clock steps and cache clean-ups: "
            "no_credentials_challenged_at_once / unauthenticated_never_forwarded (a request without user+password is answered 407 immediately, in every history), "
            "forwarded_under_own_name and logged_under_own_name (the identity a request is authorised or logged under is the user name of its own header), "
            "one_outcome_per_request, no_request_stranded; forwarded_only_after_own_credentials_verified is FALSE of the code (theorem race_counterexample: "
            "A=(u,good) pending, B=(u,bad) replaces the cached password, A's OK marks the shared record Ok, C=(u,bad) is forwarded) and is proved as "
            "forwarded_only_after_own_credentials_verified_partial under 'no request changes the cached password of a user while a lookup for that record "
            "is in flight', and at full strength for the repaired variant of decode (fixed_forwarded_only_after_own_credentials_verified). Tied to the rebuilt "
            "binary by scripted end-to-end scenarios whose step-by-step observation (cache decision new/same/swap, submitted or queued, helper line, which "
            "requests each helper answer resumed and in which order, status, forwarded or not, logged user) must equal the model's, plus a direct oracle: "
            "forwarded => own credentials valid, invalid => 407 with a Basic challenge, logged user = own user name, origin body = own tag.",
    "note": "trusted: Lean kernel, python rig (origin, clients, helper relay), loopback sockets, Squid's debug trace as the step hand-shake; not modelled: "
            "other schemes and connection-oriented authentication, max_user_ip, external ACL/annotation plumbing, helper overload/timeouts",
    "technique": "Lean 4 invariant over event histories of the authentication state machine + end-to-end scripted-schedule correspondence with the rebuilt squid",
}
MINIMISE_BUDGET = 24
MAX_REPORT = 4

FINDING = "C46-basic-shared-record-race"
FINDING_LONG = "C46-overlong-credentials-left-pending"


# ------------------------------------------------------------------------------------------------- harness

class Harness:
    def __init__(self, stage):
        from harness import c46_e2e
        self.e2e = c46_e2e.E2E(stage, n_default=int(os.environ.get("C46_INSTANCES", "4")))
        self.crashes = 0

    def run(self, lines):
        def retry(line, out):
            return bool(oracle(line, out))
        return self.e2e.run(lines, retry=retry)

    def close(self):
        self.e2e.close()


def build(stage):
    return Harness(stage)


# ------------------------------------------------------------------------------------------------- reading a header the lenient way (oracle side)

def lenient_creds(hdr):
    """(user as Squid keys it, password) under the most generous reading of a Proxy-Authorization value, or None.
    Independent of the model: python's base64 with every non-alphabet octet discarded and missing padding supplied."""
    if hdr is None or hdr[:5].lower() != b"basic":
        return None
    rest = hdr
    i = 0
    while i < len(rest) and 0x21 <= rest[i] <= 0x7e:
        i += 1
    rest = rest[i:].lstrip(b" \t\r\n\v\f")
    rest = rest.split(b"\n")[0]
    clean = re.sub(rb"[^A-Za-z0-9+/]", b"", rest)
    if not clean:
        return None
    clean += b"=" * (-len(clean) % 4)
    try:
        text = base64.b64decode(clean)
    except (binascii.Error, ValueError):
        try:
            text = base64.b64decode(clean[:len(clean) // 4 * 4 - 4] if len(clean) > 4 else b"")
        except (binascii.Error, ValueError):
            return None
    text = text.split(b"\0")[0]
    if b":" not in text:
        return None
    u, p = text.split(b":", 1)
    return u.lower(), p


def is_valid(hdr):
    c = lenient_creds(hdr)
    return c is not None and c[1] == b"pw-" + c[0] and c[1] != b""


# ------------------------------------------------------------------------------------------------- scenario lines

def basic(user, pw, scheme=b"Basic", sep=b" "):
    return scheme + sep + base64.b64encode(user + b":" + pw)


def parse(line):
    toks = line.split(" ")
    steps = []
    for s in toks[1:]:
        if s[0] == "a":
            t, c, h = s[1:].split(":")
            steps.append(("a", int(t), int(c), None if h == "." else unhx(h)))
        elif s[0] == "r":
            steps.append(("r", int(s[1:]), False))
        elif s[0] == "t":
            steps.append(("t", int(s[1:])))
        elif s == "g":
            steps.append(("g",))
        else:
            steps.append(("?", s))
    return toks[0], steps


def mk(cfg, steps):
    out = [cfg]
    for s in steps:
        if s[0] == "a":
            out.append("a%d:%d:%s" % (s[1], s[2], "." if s[3] is None else hx(s[3])))
        elif s[0] == "r":
            out.append("r%d" % s[1])
        elif s[0] == "t":
            out.append("t%d" % s[1])
        elif s[0] == "g":
            out.append("g")
    return " ".join(out)


USERS = [b"al", b"bob", b"carol", b"Dave", b"e.v-e_1", b"zoe z", b"m\xfcller", b"x%41"]
SCHEMES_OTHER = [b"Digest username=\"al\", realm=\"verif\", nonce=\"x\", uri=\"/\", response=\"y\"", b"Bearer abcdef", b"Negotiate YIIB", b"NTLM TlRMTVNTUAAB",
                 b"", b"Basi", b"Basi c", b"asic YWw6cHctYWw=", b"Token YWw6cHctYWw=", b"xBasic YWw6cHctYWw="]


def wrong_pw(rng, user):
    good = b"pw-" + user.lower()
    return rng.choice([b"BAD", b"bad", good + b"x", good[:-1], good.upper(), b"pw-", b"pw-" + user.lower()[::-1] + b"q", b"pw:" + user.lower(), b" " + good, good + b" ",
                       b"pw-" + rng.choice(USERS).lower() + b"2"])


def garbled(rng, user):
    """a header value a client may really send (no leading/trailing blanks: the header parser trims them before this code runs)"""
    return garbled0(rng, user).strip(b" \t")


def garbled0(rng, user):
    good = basic(user, b"pw-" + user.lower())
    b64 = good[6:]
    k = rng.below(16)
    if k == 0:
        return rng.choice(SCHEMES_OTHER)
    if k == 1:
        return b"Basic " + base64.b64encode(user)                          # no colon
    if k == 2:
        return b"Basic " + base64.b64encode(user + b":")                   # empty password
    if k == 3:
        return b"Basic " + base64.b64encode(b":pw-")                       # empty user name
    if k == 4:
        i = rng.below(len(b64))
        return b"Basic " + b64[:i] + rng.choice([b"!", b"*", b"-", b"_", b".", b"%", b"\x80"]) + b64[i + 1:]   # foreign character
    if k == 5:
        return b"Basic " + b64[:rng.range(0, len(b64) - 1)]                # truncated
    if k == 6:
        return b"Basic " + b64.rstrip(b"=") + rng.choice([b"=", b"==", b"===", b"===="])
    if k == 7:
        i = rng.below(len(b64))
        return b"Basic " + b64[:i] + rng.choice([b" ", b"\t", b"  "]) + b64[i:]     # white space inside
    if k == 8:
        return rng.choice([b"basic ", b"BASIC ", b"bAsIc ", b"Basic  ", b"Basic\t", b"Basicx ", b"Basic-foo \t "]) + b64    # still Basic for Squid
    if k == 9:
        return b"Basic " + base64.b64encode(user + rng.choice([b"\r", b"\n", b"\0", b"\r\n"]) + b":pw-" + user.lower())
    if k == 10:
        return b"Basic " + base64.b64encode(user + b":pw-" + user.lower() + rng.choice([b"\n", b"\0x", b"\rz"]))
    if k == 11:
        return b"Basic"
    if k == 12:
        return b"Basic " + b64 + b" trailing"
    if k == 13:
        return b"Basic " + base64.b64encode(user.upper() + b":pw-" + user.lower())   # case folded user name: valid for Squid
    if k == 14:
        return b"Basic " + base64.b64encode(user + b":pw-" + user.lower() + b":more")   # colon inside the password
    return b"Basic " + rng.bytes(rng.range(1, 12), b"ABCDabcd0123+/=")


def drain(n):
    return [("r", k, False) for k in range(1, n + 1)]


def sc_race(rng, cfg="c0:0"):
    """one user, good and bad passwords arriving while lookups are in flight, answers in random order"""
    u = rng.choice(USERS[:6])
    good = basic(u, b"pw-" + u.lower())
    bads = [basic(u, wrong_pw(rng, u)) for _ in range(2)]
    steps, tag, nsub = [], 0, 0
    n = rng.range(3, 8)
    pend = []
    for _ in range(n):
        tag += 1
        h = good if rng.chance(1, 2) else rng.choice(bads)
        steps.append(("a", tag, rng.range(1, 3) if rng.chance(1, 3) else tag + 10, h))
        nsub += 1
        pend.append(nsub)
        while pend and rng.chance(2, 5):
            k = rng.choice(pend + list(range(1, nsub + 1)))
            steps.append(("r", k, False))
            if k in pend:
                pend.remove(k)
    order = list(range(1, nsub + 1))
    rng.shuffle(order)
    steps += [("r", k, False) for k in order]
    return mk(cfg, steps)


def sc_cache(rng, cfg="c0:0"):
    """verified credentials are reused; a changed password is checked again; a failed one is never cached"""
    u = rng.choice(USERS)
    good = basic(u, b"pw-" + u.lower())
    steps, tag = [], 0
    for _ in range(rng.range(3, 9)):
        tag += 1
        k = rng.below(6)
        h = good if k < 3 else basic(u, wrong_pw(rng, u)) if k < 5 else None
        steps.append(("a", tag, rng.range(1, 2), h))
        if rng.chance(3, 4):
            steps.append(("r", rng.range(1, tag), False))
    return mk(cfg, steps + drain(tag))


def sc_multi(rng, cfg="c0:0"):
    """several users, shared and separate connections, answers out of order"""
    us = [rng.choice(USERS) for _ in range(rng.range(2, 3))]
    steps, tag = [], 0
    for _ in range(rng.range(4, 10)):
        tag += 1
        u = rng.choice(us)
        k = rng.below(8)
        h = basic(u, b"pw-" + u.lower()) if k < 4 else basic(u, wrong_pw(rng, u)) if k < 6 else garbled(rng, u) if k < 7 else None
        steps.append(("a", tag, rng.range(1, 2) if rng.chance(1, 2) else tag + 10, h))
        if rng.chance(1, 2):
            steps.append(("r", rng.range(1, tag), False))
    order = list(range(1, tag + 1))
    rng.shuffle(order)
    return mk(cfg, steps + [("r", k, False) for k in order])


def sc_garbled(rng, cfg="c0:0"):
    u = rng.choice(USERS)
    steps, tag = [], 0
    for _ in range(rng.range(2, 6)):
        tag += 1
        h = garbled(rng, u) if rng.chance(4, 5) else basic(u, b"pw-" + u.lower())
        steps.append(("a", tag, 1 if rng.chance(1, 2) else tag + 10, h))
        if rng.chance(1, 3):
            steps.append(("r", rng.range(1, tag), False))
    return mk(cfg, steps + drain(tag))


def sc_ttl(rng):
    """credentialsttl 6 s: verified credentials expire, are looked up again; a changed password in between"""
    u = rng.choice(USERS[:4])
    good = basic(u, b"pw-" + u.lower())
    bad = basic(u, wrong_pw(rng, u))
    k = rng.below(4)
    if k == 0:
        steps = [("a", 1, 1, good), ("r", 1, False), ("a", 2, 1, good), ("t", 8), ("a", 3, 1, good), ("a", 4, 2, good), ("r", 2, False), ("a", 5, 1, good)]
    elif k == 1:
        steps = [("a", 1, 1, good), ("r", 1, False), ("t", 8), ("a", 2, 1, bad), ("a", 3, 2, good), ("r", 3, False), ("r", 2, False), ("a", 4, 3, good)]
    elif k == 2:
        steps = [("a", 1, 1, good), ("t", 8), ("r", 1, False), ("a", 2, 1, good), ("a", 3, 1, bad), ("r", 2, False), ("t", 8), ("a", 4, 1, bad)]
    else:
        steps = [("a", 1, 1, bad), ("r", 1, False), ("a", 2, 1, good), ("r", 2, False), ("t", 8), ("a", 3, 1, good), ("a", 4, 2, bad), ("r", 3, False), ("r", 4, False)]
    n = sum(1 for s in steps if s[0] == "a")
    return mk("c6:0", steps + drain(n))


def sc_gc(rng):
    """authenticate_ttl 5 s, clean-up every second: records leave the cache (also while their lookup is in flight) and come back as new ones"""
    u, v = rng.choice(USERS[:4]), rng.choice(USERS[4:6])
    good, bad = basic(u, b"pw-" + u.lower()), basic(u, wrong_pw(rng, u))
    vgood = basic(v, b"pw-" + v.lower())
    k = rng.below(4)
    if k == 0:     # verified, evicted, verified again from scratch
        steps = [("a", 1, 1, good), ("r", 1, False), ("a", 2, 1, good), ("t", 8), ("g",), ("a", 3, 1, good), ("r", 2, False), ("a", 4, 2, good)]
    elif k == 1:   # evicted while the lookup is in flight: the answer goes to the orphaned record, the other password lives in a new one
        steps = [("a", 1, 1, good), ("t", 8), ("g",), ("a", 2, 2, bad), ("r", 1, False), ("a", 3, 3, bad), ("r", 2, False), ("a", 4, 1, good)]
    elif k == 2:   # only the old user goes
        steps = [("a", 1, 1, good), ("r", 1, False), ("t", 8), ("a", 2, 2, vgood), ("r", 2, False), ("g",), ("a", 3, 1, good), ("a", 4, 2, vgood)]
    else:          # a queue on an evicted record is still released by its own lookup
        steps = [("a", 1, 1, good), ("a", 2, 2, good), ("t", 8), ("g",), ("a", 3, 3, good), ("r", 2, False), ("r", 1, False), ("g",), ("a", 4, 1, good)]
    n = sum(1 for s in steps if s[0] == "a")
    return mk("c6:5", steps + drain(n))


def fixed_cases():
    al_good, al_bad = basic(b"al", b"pw-al"), basic(b"al", b"BAD")
    bob_good = basic(b"bob", b"pw-bob")
    yield mk("c0:0", [("a", 1, 1, None), ("a", 2, 1, al_good), ("r", 1, False), ("a", 3, 1, al_good), ("a", 4, 1, bob_good), ("a", 5, 1, al_bad), ("r", 2, False), ("r", 3, False)])
    yield mk("c0:0", [("a", 1, 1, al_bad), ("a", 2, 2, al_bad), ("a", 3, 3, al_bad), ("r", 1, False), ("a", 4, 1, al_bad), ("r", 2, False)])
    yield mk("c0:0", [("a", 1, 1, al_good), ("a", 2, 2, al_good), ("a", 3, 3, al_good), ("r", 1, False), ("a", 4, 4, al_good)])
    yield mk("c0:0", [("a", 1, 1, al_good), ("a", 2, 2, bob_good), ("r", 2, False), ("r", 1, False), ("a", 3, 2, al_good), ("a", 4, 1, bob_good)])


def race_witnesses():
    g, b = basic(b"al", b"pw-al"), basic(b"al", b"BAD")
    # DESIGN section 8 #18: A good pending, B bad replaces the password, A's OK, C bad forwarded
    yield mk("c0:0", [("a", 1, 1, g), ("a", 2, 2, b), ("r", 1, False), ("a", 3, 3, b), ("r", 2, False)])
    # the queued variant: C queues behind B's lookup and is released by A's OK
    yield mk("c0:0", [("a", 1, 1, g), ("a", 2, 2, b), ("a", 3, 3, b), ("r", 1, False), ("r", 2, False)])


def cases(rng, tier):
    big = tier == "thorough"
    for l in fixed_cases():
        yield l
    n = 260 if big else 42
    fams = [sc_race, sc_cache, sc_multi, sc_garbled, sc_cache, sc_multi]
    for i in range(n):
        yield fams[i % len(fams)](rng)
    for i in range(12 if big else 4):
        yield sc_ttl(rng)
    for i in range(12 if big else 4):
        yield sc_gc(rng)
    if big:
        # exhaustive small scope: one user, three arrivals each good or bad, every interleaving position of the first answer, both answer orders
        g, b = basic(b"al", b"pw-al"), basic(b"al", b"BAD")
        for mask in range(8):
            hs = [g if mask >> i & 1 else b for i in range(3)]
            for pos in range(1, 4):
                for first in range(1, pos + 1):
                    steps = [("a", i + 1, i + 1, hs[i]) for i in range(pos)] + [("r", first, False)] + [("a", i + 1, i + 1, hs[i]) for i in range(pos, 3)]
                    yield mk("c0:0", steps + drain(3))
    for l in race_witnesses():
        yield l


# ------------------------------------------------------------------------------------------------- observation parsing

def outcomes(impl):
    """tag -> final outcome token ('f200/616c', 'n407/-', ...) from the step tokens"""
    res = {}
    for tok in impl.split(" "):
        if tok.startswith("a"):
            m = re.match(r"a(\d+):(.*)$", tok)
            if m:
                last = m.group(2).split(",")[-1]
                if re.match(r"[fn]\d{3}/|none", last):
                    res[int(m.group(1))] = last
        elif tok.startswith("r"):
            m = re.match(r"r\d+:[oe]\[(.*)\]$", tok)
            if m and m.group(1):
                for it in m.group(1).split(","):
                    t, o = it.split("=", 1)
                    if re.match(r"[fn]\d{3}/|none", o):
                        res[int(t)] = o
    return res


def oracle(line, impl):
    if impl is None or impl.startswith("abort") or impl.startswith("slow") or impl == "bad-op":
        return "no usable observation: " + str(impl)[:80]
    cfg, steps = parse(line)
    hdrs = {s[1]: s[3] for s in steps if s[0] == "a"}
    outs = outcomes(impl)
    m = re.search(r" wait=([\d,]+)", impl)
    waiting = [int(x) for x in m.group(1).split(",")] if m else []
    nlook = len(re.findall(r"sub\d+:", impl))
    answered = set(int(x) for x in re.findall(r"(?:^| )r(\d+):[oe]\[", impl))
    for t in sorted(hdrs):
        valid = is_valid(hdrs[t])
        cr = lenient_creds(hdrs[t])
        if t in waiting:
            if len(answered) >= nlook:
                return "request %d was never answered although the helper answered every lookup" % t
            continue
        o = outs.get(t)
        if o is None or o == "none":
            return "request %d got no response" % t
        m = re.match(r"([fn])(\d{3})/([0-9a-f]+|-|nolog\d+)(/.*)?$", o)
        if not m:
            return "unreadable outcome for request %d: %s" % (t, o)
        fwd, status, lu, extra = m.group(1) == "f", int(m.group(2)), m.group(3), m.group(4) or ""
        if (fwd or status == 200) and not valid:
            return "request %d was forwarded (status %d) although its credentials are not valid" % (t, status)
        if not valid and status != 407:
            return "request %d without valid credentials was answered %d, not 407" % (t, status)
        if status not in (200, 407):
            return "request %d: unexpected status %d" % (t, status)
        if fwd != (status == 200):
            return "request %d: status %d but %s the origin" % (t, status, "reached" if fwd else "did not reach")
        if extra:
            return "request %d: %s" % (t, extra.strip("/"))
        if lu.startswith("nolog"):
            return "request %d has %s access.log lines" % (t, lu[5:])
        own = None if cr is None else cr[0]
        if lu != "-":
            if own is None or unhx(lu) != own:
                # a user name without password (broken credentials) is still the request's own name
                bare = bare_user(hdrs[t])
                if bare is None or unhx(lu) != bare:
                    return "request %d is logged as user %r, which is not the user name of its own credentials" % (t, unhx(lu))
        elif status == 200 and own != b"":
            return "forwarded request %d is logged without a user" % t
    return None


def bare_user(hdr):
    """user name of a header whose text has no colon (Squid logs it with the 407)"""
    if hdr is None or hdr[:5].lower() != b"basic":
        return None
    i = 0
    while i < len(hdr) and 0x21 <= hdr[i] <= 0x7e:
        i += 1
    rest = re.sub(rb"[^A-Za-z0-9+/]", b"", hdr[i:].lstrip(b" \t").split(b"\n")[0])
    rest += b"=" * (-len(rest) % 4)
    try:
        text = base64.b64decode(rest)
    except (binascii.Error, ValueError):
        return None
    return text.split(b"\0")[0].split(b":")[0].lower()


def compare(line, impl, model):
    return impl == model


def race_region(line, impl):
    """tags of requests of a user whose cached password was replaced while a lookup for that user was in flight (the signature of
    the known defect), computed from the scenario and the observation only"""
    cfg, steps = parse(line)
    hdrs = {s[1]: s[3] for s in steps if s[0] == "a"}
    inflight = {}     # lookup number -> user
    tainted = set()
    for tok in impl.split(" "):
        m = re.match(r"a(\d+):(.*)$", tok)
        if m:
            t, parts = int(m.group(1)), m.group(2).split(",")
            cr = lenient_creds(hdrs.get(t))
            if cr and "swap" in parts and cr[0] in inflight.values():
                tainted.add(cr[0])
            for p in parts:
                mm = re.match(r"sub(\d+):", p)
                if mm and cr:
                    inflight[int(mm.group(1))] = cr[0]
                if p == "toolong" and cr:
                    inflight["toolong%d" % t] = cr[0]     # left Pending for good (the other known finding)
            continue
        m = re.match(r"r(\d+):[oe]\[", tok)
        if m:
            inflight.pop(int(m.group(1)), None)
    return tainted


def overlong(hdr):
    """the helper line `user password` cannot fit HELPER_INPUT_BUFFER (signature of the repaired finding C46-overlong-credentials-left-pending)"""
    cr = lenient_creds(hdr)
    return cr is not None and len(cr[0]) + len(cr[1]) >= 8000


def classify(line, impl, why):
    if not impl or not why:
        return None
    cfg, steps = parse(line)
    hdrs = {s[1]: s[3] for s in steps if s[0] == "a"}
    m = re.match(r"request (\d+) was forwarded \(status \d+\) although its credentials are not valid", why)
    if m:
        cr = lenient_creds(hdrs.get(int(m.group(1))))
        if cr and cr[0] in race_region(line, impl):
            return FINDING
        return None
    m = re.match(r"request (\d+) was never answered although the helper answered every lookup", why)
    if m:
        return FINDING_LONG if overlong(hdrs.get(int(m.group(1)))) and "toolong" in impl else None
    if why == "model and implementation differ" and "toolong" in impl and any(overlong(h) for h in hdrs.values()):
        return FINDING_LONG
    return None


def nontrivial(line, impl, model):
    cfg, steps = parse(line)
    return "sub1:" in (impl or "") and sum(1 for s in steps if s[0] == "a" and lenient_creds(s[3])) >= 2


def tag(line, impl, model):
    cfg, steps = parse(line)
    impl = impl or ""
    outs = outcomes(impl)
    na = sum(1 for s in steps if s[0] == "a")
    kinds = []
    if race_region(line, impl):
        kinds.append("pw-change-in-flight")
    if " g" in line:
        kinds.append("gc")
    elif " t" in line:
        kinds.append("ttl")
    if "q" in re.findall(r",(q)(?: |$)", impl):
        kinds.append("queued")
    if "swap" in impl:
        kinds.append("swap")
    f = sum(1 for o in outs.values() if o.startswith("f"))
    return "arrivals=%s fwd=%s %s" % ("1-3" if na <= 3 else "4-6" if na <= 6 else "7+", "0" if f == 0 else "1-2" if f <= 2 else "3+", "+".join(kinds) or "plain")


def shrink(line):
    cfg, steps = parse(line)
    # drop one step at a time (arrivals keep their tags; answers keep their lookup numbers only when no earlier arrival goes)
    for i in range(len(steps)):
        if steps[i][0] in ("r", "t", "g"):
            yield mk(cfg, steps[:i] + steps[i + 1:])
    for i in range(len(steps) - 1, -1, -1):
        if steps[i][0] == "a":
            yield mk(cfg, steps[:i] + steps[i + 1:])
