"""C11 Responses forbidden to be stored are never served from cache (end to end)."""
import os, re, importlib.util
from vf.util import VERIF, hx, unhx

ID = "C11"
PROP_MODULE = "SquidModel.Properties.C11"
MODEL = "c11"
GEN = ["reusable", "collapse_flags"]
RULE = ("scenario = config (default / negative_ttl / ignore-* overrides) x method x Authorization (header / URL userinfo / none) x request "
        "Cache-Control field lines x status x response Cache-Control field lines (case, spacing, duplicates, quoted arguments, numeric edge values, "
        "near-miss names, several field lines, quote tricks, byte mutations) x Content-Type x Date/Expires/Last-Modified/Age offsets x body length x "
        "shape of the second request, each run through the rebuilt squid against a counting origin; non-trivial = the property has a premise "
        "(response no-store/private, request no-store, or Authorization); distinct = distinct scenario lines")
TRUSTED = ["modelled, not verified: Comm I/O, HTTP message parsing (tied by other properties), store_client/MemObject data paths, the 304 handling of "
           "a revalidation; the decision is read from squid's own debug line `decided: ...` (section 11 level 3) and from the origin's request log",
           "time: both requests of a scenario are assumed to fall into one second; generators keep every offset at least 15 s away from a threshold"]
ASSUMPTIONS = ["default configuration plus the stock refresh_pattern lines (memory cache only, no cache_peer, no Vary, no ICAP), forward-proxy "
               "requests to a loopback origin; cfg n/o scenarios (negative_ttl 3600 / ignore-no-store ignore-private) only tie the model, the "
               "property is claimed for cfg d",
               "field values contain no CR, LF or NUL (they cannot, on the wire)"]
MANIFEST = {
    "engine": "e2e",
    "text": "partial: for the model of strListGetItem + HttpHdrCc::parse + getCc, maybeCacheable / clientInterpretRequestHeaders flags / storeCreateEntry, "
            "HttpStateData::reusableReply, the key handling of haveParsedReplyHeaders and refreshCheck: no_store_or_private_never_public, "
            "request_no_store_never_public, request_no_store_entry_released, auth_public_only_if_shared_ok, auth_nocache_always_revalidated (all inputs); "
            "forbidden_never_served_from_cache and auth_always_reaches_origin for the two-request scenario model (any field bytes, status, dates, method); "
            "wellformed_lines_no_store_recognised / _private_recognised + directive_spelling_recognised: in quote-balanced comma lists over any number of "
            "field lines the directive is always seen (any case, spacing, duplicates, arguments), giving wellformed_*_never_served_partial; "
            "headline theorems for the tree as it is: response_sent_with_no_store_or_private_never_served / request_sent_with_no_store_never_served (one "
            "well-formed field line with the directive is enough, whatever the other lines) and not_modified_with_no_store_not_reused; the pre-fix "
            "behaviours survive only as counterexamples conditional on the old code forms (generated flags). The model is tied to the rebuilt binary by "
            "scenario correspondence (logged decision + reason, hit/revalidation/miss at the origin, which response the client got) and a direct oracle with "
            "its own strict RFC 9110 list parser",
    "note": "trusted: Lean kernel, python rig (origin/client stubs), loopback TCP, squid's debug line; not modelled: socket I/O, message parser, "
            "Vary, collapsed forwarding, disk stores, peers, adaptation, the runtime between the decision and the reply bytes",
    "technique": "Lean 4 proof about the decision model + generated tables (status groups, directive names, method classes, defaults) + end-to-end scenario correspondence with the rebuilt squid",
}

_spec = importlib.util.spec_from_file_location("verif_harness_c11", os.path.join(VERIF, "harness", "c11.py"))
hmod = importlib.util.module_from_spec(_spec)
_spec.loader.exec_module(hmod)


def build(stage):
    return hmod.Harness(stage)


# ----------------------------------------------------------------------------------------------- scenario lines

def mk(cfg="d", method="GET", auth=0, reqcc=(), status=200, respcc=(), ctype=None, date=0, exp=None, lm=None, age=None, clen=5, pragma=0, second="P"):
    def t(v):
        return "x" if v is None else ("b" if v == "b" else str(v))
    return " ".join([cfg, method, str(auth), ",".join(hx(v) for v in reqcc) if reqcc else ".", str(status),
                     ",".join(hx(v) for v in respcc) if respcc else ".", "." if ctype is None else hx(ctype),
                     t(date), t(exp), t(lm), t(age), str(clen), str(pragma), second])


def mk3(nmcc, **kw):
    """three-request scenario: request 2's revalidation is answered by a 304 carrying the Cache-Control lines `nmcc`"""
    return "R " + mk(**kw) + " " + (",".join(hx(v) for v in nmcc) if nmcc else ".")


def parts(l):
    f = l.split(" ")
    nmcc = None
    if f[0] == "R":
        nmcc = [] if f[15] == "." else [unhx(x) for x in f[15].split(",")]
        f = f[1:15]
    p = _parts(f)
    p["nmcc"] = nmcc
    return p


def _parts(f):
    cfg, method, auth, reqcc, status, respcc, ctype, date, exp, lm, age, clen, pragma, second = f
    return {"cfg": cfg, "method": method, "auth": int(auth), "reqcc": [] if reqcc == "." else [unhx(x) for x in reqcc.split(",")],
            "status": int(status), "respcc": [] if respcc == "." else [unhx(x) for x in respcc.split(",")],
            "ctype": None if ctype == "." else unhx(ctype), "date": date, "exp": exp, "lm": lm, "age": age, "clen": int(clen),
            "pragma": pragma, "second": second}


# ----------------------------------------------------------------------------------------------- generators

FLAGS = [b"public", b"private", b"no-cache", b"no-store", b"no-transform", b"must-revalidate", b"proxy-revalidate", b"immutable"]
SAFE_AGES = [0, 20, 300, 3600, 86400, 31536000, 2147483647]
AGE_DIRS = [b"max-age", b"s-maxage"]
ARGD = [b'private="set-cookie"', b'no-cache="set-cookie"', b'private=""', b'no-cache=""', b'no-store="x"', b"no-store=1", b"private=x", b"no-cache=x",
        b'no-cache="a\\"b"', b'private="a\tb"', b'no-cache="a\tb"', b"public=1", b'must-revalidate="y"', b"stale-if-error=300", b"stale-if-error=0"]
BAD_AGES = [b"max-age=abc", b"max-age=-1", b"max-age=", b"max-age", b's-maxage="3600"', b"s-maxage= 3600", b"max-age=+300", b"max-age=4294967596",
            b"max-age=99999999999999999999", b"max-age=2147483648", b"max-age=300x", b"s-maxage=abc", b"s-maxage", b"s-maxage=-5", b"max-age= 0",
            b"max-age=00", b"s-maxage=0x10", b"max-age=9223372036854775808", b"s-maxage=18446744073709551916"]
UNKNOWN = [b"foo", b"foo=bar", b'community="UCI"', b"x-y=1", b"Other,"[:5], b"pre-check=0", b"post-check=0"]
NEAR = [b"no-storex", b"xno-store", b"no_store", b"nostore", b'"no-store"', b"no-store;x", b"privatex", b"private-x", b"no-store =1", b"no-store= 1", b"no -store",
        b"public;", b"publicx", b"must-revalidat", b"s-maxage =3600", b"no-cachex", b"\\no-store", b"no-store\\", b"private\"", b"'private'", b"no-store\x80",
        b"\xffprivate"]
QUOTE_TRICKS = [b'x="a,no-store"', b'x="a\\",no-store"', b'x="a\\\\",no-store', b'x="a', b'x="a\\', b'x=a"', b'"', b'x="private",public', b'x="a,private,b"',
                b'no-cache="a,no-store"', b'private="a,no-store', b'x="\\"', b'""', b'x="a" "b']
SEPS = [b", ", b",", b" , ", b",,", b" ,\t", b",  ", b"\t,\t", b", ,"]
REQ_CC = [[b"no-store"], [b"no-cache"], [b"max-age=0"], [b"max-age=50000"], [b"max-stale"], [b"max-stale=50000"], [b"min-fresh=10"], [b"min-fresh=100000"],
          [b"NO-STORE"], [b"no-store, max-age=0"], [b"no-transform"], [b"no-storex"], [b"no-store=1"], [b'x="a', b"no-store"], [b"foo", b"no-store"],
          [b'x="a,no-store"'], [b"max-age=0", b"no-store"], [b"No-Store , no-cache"], [b"private"], [b"max-age=abc"], [b"no-store;"], [b",no-store,"]]
STATUS_COMMON = [200, 200, 200, 200, 200, 200, 203, 204, 206, 300, 301, 302, 303, 307, 308, 400, 401, 403, 404, 405, 410, 414, 421, 451, 500, 501, 502, 503, 504]
STATUS_ALL = [200, 201, 202, 203, 204, 205, 206, 207, 226, 299, 300, 301, 302, 303, 305, 306, 307, 308, 400, 401, 402, 403, 404, 405, 406, 408, 409, 410, 411, 412,
              413, 414, 415, 416, 417, 418, 421, 422, 423, 424, 425, 426, 428, 429, 431, 451, 500, 501, 502, 503, 504, 505, 507, 508, 510, 511, 599]
CTYPES = [b"text/html", b"multipart/x-mixed-replace", b"MULTIPART/X-Mixed-Replace;boundary=x", b"multipart/x-mixed-replacement", b"multipart/x-mixed-replac",
          b"multipart/x-mixed-replace; boundary=abc", b"multipart/mixed", b"xmultipart/x-mixed-replace"]
METHODS = ["GET"] * 12 + ["HEAD", "HEAD", "POST", "PUT", "OPTIONS", "FOO", "PROPFIND"]
MUT_ALPHABET = b'",\\= \t;:-_.*=="",,aAzZ09/()<>\x80\xff\x7f'


def randcase(rng, b):
    k = rng.below(4)
    if k == 0:
        return b.upper()
    if k == 1:
        return bytes((c ^ 0x20) if (65 <= c <= 90 or 97 <= c <= 122) and rng.chance(1, 2) else c for c in b)
    if k == 2:
        return b[:1].upper() + b[1:]
    return b


def directive(rng, depth):
    """one directive; depth picks how exotic"""
    r = rng.below(100)
    if r < 45:
        d = rng.choice(FLAGS)
    elif r < 65:
        d = rng.choice(AGE_DIRS) + b"=" + str(rng.choice(SAFE_AGES)).encode()
    elif r < 75:
        d = rng.choice(ARGD)
    elif r < 82:
        d = rng.choice(BAD_AGES)
    elif r < 88:
        d = rng.choice(UNKNOWN)
    elif r < 95 or depth == 0:
        d = rng.choice(NEAR)
    else:
        d = rng.choice(QUOTE_TRICKS)
    if rng.chance(1, 3):
        d = randcase(rng, d)
    return d


def cc_lines(rng, depth):
    """1..3 Cache-Control field values built from 1..5 directives"""
    n = rng.choice([1, 1, 2, 2, 3, 3, 4, 5])
    ds = [directive(rng, depth) for _ in range(n)]
    if rng.chance(1, 6):
        ds.insert(rng.below(len(ds) + 1), rng.choice(ds))     # duplicate
    nl = rng.choice([1, 1, 1, 2, 2, 3])
    lines = [[] for _ in range(nl)]
    for d in ds:
        lines[rng.below(nl)].append(d)
    out = []
    for l in lines:
        sep = rng.choice(SEPS) if rng.chance(1, 2) else b", "
        v = sep.join(l)
        if rng.chance(1, 10):
            v = rng.choice([b" ", b",", b"\t", b", "]) + v
        if rng.chance(1, 10):
            v = v + rng.choice([b" ", b",", b"\t", b" ,"])
        out.append(v)
    return out


def mutate(rng, v):
    v = bytearray(v)
    for _ in range(rng.range(1, 3)):
        k = rng.below(5)
        pos = rng.below(len(v) + 1)
        if k == 0 and v:
            del v[min(pos, len(v) - 1)]
        elif k == 1:
            v.insert(pos, rng.choice(MUT_ALPHABET))
        elif k == 2 and v:
            v[min(pos, len(v) - 1)] = rng.choice(MUT_ALPHABET)
        elif k == 3 and v:
            v[min(pos, len(v) - 1)] ^= 0x20
        else:
            a = rng.below(len(v) + 1)
            v[pos:pos] = v[a:a + rng.range(1, 6)]
    return bytes(v)


def clean(lines):
    """never generate the bytes that cannot travel in a field value, nor only-if-cached (the request would be answered 504 locally)"""
    out = []
    for v in lines:
        v = bytes(c for c in v if c not in (0, 10, 13))
        if re.search(rb"(?i)only-if-cached", v):
            v = re.sub(rb"(?i)only-if-cached", b"only-if-cachex", v)
        out.append(v)
    return out


def times(rng, status):
    """(date, exp, lm, age): offsets in seconds, chosen so that no comparison in the code is closer than 15 s to its threshold"""
    date = rng.choice([0, 0, 0, 0, 0, 0, None, -100000, 100000, -7200])
    exp = rng.choice([None, None, None, None, -100000, -3600, 3600, 100000, "=", "b"])
    if exp == "=":
        exp = date
    lm = rng.choice([None, None, None, -1, -1000, -100000, -31536000, 3600])   # -1: L-M factor lifetime 0 s; never a lifetime of a few seconds
    age = rng.choice([None, None, None, None, None, 0, 100, 100000])
    if exp == "b" and status in (302, 307) and date not in (None, -7200):
        date = None      # Expires: 0 becomes "now"; comparing it with a Date of "now" is a race
    if date == -7200 and age == 100000:
        age = 100
    return date, exp, lm, age


def scenario(rng, kind):
    cfg = "d" if rng.chance(17, 20) else rng.choice(["n", "n", "o"])
    method = rng.choice(METHODS)
    auth = rng.choice([0, 0, 0, 1, 1, 2])
    status = rng.choice(STATUS_COMMON) if rng.chance(4, 5) else rng.choice(STATUS_ALL)
    depth = 0 if kind == "valid" else 1
    respcc = cc_lines(rng, depth) if rng.chance(9, 10) else []
    reqcc = rng.choice(REQ_CC) if rng.chance(1, 3) else []
    if kind == "boundary":
        # numeric and structural edges
        k = rng.below(4)
        if k == 0:
            respcc = [rng.choice(BAD_AGES) + rng.choice([b"", b", public", b", no-store", b", private"])]
        elif k == 1:
            respcc = [rng.choice(QUOTE_TRICKS), rng.choice([b"no-store", b"private", b"public, max-age=3600", b"no-store, max-age=3600"])]
            if rng.chance(1, 2):
                respcc.append(b"max-age=3600")
            if rng.chance(1, 3):
                respcc.reverse()
        elif k == 2:
            respcc = [b"", rng.choice([b"no-store", b"private", b"max-age=300"])] if rng.chance(1, 2) else [b",", b" ", rng.choice([b"no-store", b"max-age=300"])]
        else:
            respcc = [rng.choice(NEAR) + rng.choice(SEPS) + b"max-age=3600"]
    if kind == "mutation":
        base = cc_lines(rng, 1) or [b"no-store"]
        respcc = [mutate(rng, v) if rng.chance(2, 3) else v for v in base]
        if reqcc and rng.chance(1, 2):
            reqcc = [mutate(rng, v) for v in reqcc]
    if kind == "random":
        respcc = [rng.bytes(rng.range(0, 12), MUT_ALPHABET + b"nostreprivaublc-") for _ in range(rng.range(1, 2))]
    date, exp, lm, age = times(rng, status)
    ctype = rng.choice(CTYPES) if rng.chance(1, 8) else None
    clen = 0 if rng.chance(1, 12) else 5
    pragma = 1 if rng.chance(1, 20) else 0
    second = rng.choice(["P", "P", "A", "S"])
    return mk(cfg, method, auth, clean(reqcc), status, clean(respcc), ctype, date, exp, lm, age, clen, pragma, second)


NM_FIRST = [[b"max-age=0"], [b"no-cache"], [b"max-age=0, must-revalidate"], [b"s-maxage=0"], [b"max-age=0, public"], [], [b"max-age=3600"],
            [b"no-store"], [b"max-age=0", b"proxy-revalidate"]]
NM_CC = [[b"no-store"], [b"private"], [b"no-store, max-age=3600"], [b"private, max-age=3600"], [b"max-age=3600"], [], [b"max-age=0"], [b"no-cache"],
         [b"public, max-age=3600"], [b"No-Store"], [b'private="set-cookie", max-age=3600'], [b"max-age=3600", b"no-store"], [b"no-storex, max-age=3600"],
         [b'x="a', b"no-store"], [b"must-revalidate, max-age=3600"], [b"immutable, max-age=300"]]


def scenario3(rng):
    first = rng.choice(NM_FIRST)
    nm = rng.choice(NM_CC)
    if rng.chance(1, 4):
        nm = cc_lines(rng, 0)
    lm = rng.choice([-100000, -100000, -31536000, None, -1])
    exp = rng.choice([None, None, None, -3600, 3600])
    return mk3(clean(nm), respcc=clean(first), lm=lm, exp=exp, status=rng.choice([200, 200, 200, 203, 301, 410]))


def exhaustive(tier):
    return tier == "thorough"


def cases(rng, tier):
    # fixed anchors: the plain cases of the statement
    for auth in (0, 1):
        for cc in ([], [b"no-store"], [b"private"], [b"public"], [b"must-revalidate"], [b"s-maxage=3600"], [b"max-age=3600"], [b"no-cache"],
                   [b"max-age=3600, public"], [b"max-age=3600", b"no-store"], [b"public, private"], [b'private="set-cookie", max-age=3600']):
            yield mk(auth=auth, respcc=cc, lm=-100000)
    # every flag directive next to an explicit lifetime, with and without credentials: only public / must-revalidate / s-maxage (and, in
    # this build, no-cache) may let an authenticated response be stored
    for d in FLAGS + [b"s-maxage=3600", b"stale-if-error=300", b"foo"]:
        for auth in (0, 1):
            yield mk(auth=auth, respcc=[d + b", max-age=3600"], second="A")
    yield mk(reqcc=[b"no-store"], respcc=[b"max-age=3600"])
    yield mk(reqcc=[b"no-store"], respcc=[b"max-age=3600"], second="S")
    for nm in ([b"no-store"], [b"private, max-age=3600"], [b"max-age=3600"], []):
        yield mk3(nm, respcc=[b"max-age=0"], lm=-100000)
    for i in range(300 if tier == "thorough" else 40):
        yield scenario3(rng)
    n = 2400 if tier == "thorough" else 330
    for i in range(n):
        r = rng.below(20)
        kind = "valid" if r < 11 else "boundary" if r < 14 else "mutation" if r < 19 else "random"
        yield scenario(rng, kind)
    if tier == "thorough":
        # exhaustive small scope: every subset of the directives the decision looks at x Authorization x request no-store x a status of each group
        ds = [b"public", b"private", b"no-store", b"no-cache", b"must-revalidate", b"s-maxage=3600", b"max-age=3600"]
        for mask in range(1 << len(ds)):
            sub = [d for i, d in enumerate(ds) if mask >> i & 1]
            for auth in (0, 1):
                for rq in ([], [b"no-store"]):
                    for status in ((200, 404, 302) if mask % 4 == 0 else (200,)):
                        yield mk(auth=auth, reqcc=rq, status=status, respcc=[b", ".join(sub)] if sub else [], lm=-100000, second="A")


# ----------------------------------------------------------------------------------------------- direct oracle

TCHAR = set(b"!#$%&'*+-.^_`|~0123456789abcdefghijklmnopqrstuvwxyzABCDEFGHIJKLMNOPQRSTUVWXYZ")


def strict_list(v):
    """RFC 9110 #( token [ "=" ( token / quoted-string ) ] ) -> [(lower-case name, argument or None)], or None when the line is not of that form"""
    i, n, out = 0, len(v), []
    def ows(i):
        while i < n and v[i] in (32, 9):
            i += 1
        return i
    while True:
        i = ows(i)
        if i < n and v[i] != 44:
            j = i
            while j < n and v[j] in TCHAR:
                j += 1
            if j == i:
                return None
            name, arg, i = v[i:j].lower(), None, j
            if i < n and v[i] == 61:
                i += 1
                if i < n and v[i] == 34:
                    i += 1
                    buf = bytearray()
                    while True:
                        if i >= n:
                            return None
                        c = v[i]
                        if c == 34:
                            i += 1
                            break
                        if c == 92:
                            if i + 1 >= n or not (v[i + 1] in (9, 32) or 0x21 <= v[i + 1] <= 0x7e or v[i + 1] >= 0x80):
                                return None
                            buf.append(v[i + 1])
                            i += 2
                            continue
                        if not (c in (9, 32, 0x21) or 0x23 <= c <= 0x5b or 0x5d <= c <= 0x7e or c >= 0x80):
                            return None
                        buf.append(c)
                        i += 1
                    arg = bytes(buf)
                else:
                    j = i
                    while j < n and v[j] in TCHAR:
                        j += 1
                    if j == i:
                        return None
                    arg, i = v[i:j], j
            out.append((name, arg))
        i = ows(i)
        if i == n:
            return out
        if v[i] != 44:
            return None
        i += 1


def lenient_names(lines):
    """every name a lenient recipient could see: split at every comma (quotes ignored and honoured), text before '=' trimmed, lower case"""
    names = set()
    for v in list(lines) + [b", ".join(lines)]:
        for piece in v.split(b","):
            names.add(piece.split(b"=")[0].strip(b" \t\"'").lower())
        depth, cur = False, bytearray()
        for c in v + b",":
            if c == 34:
                depth = not depth
            if c == 44 and not depth:
                names.add(bytes(cur).split(b"=")[0].strip(b" \t").lower())
                cur = bytearray()
            else:
                cur.append(c)
    return names


def premises(p):
    """what the statement says about this scenario, judged per field line with a strict RFC 9110 parser"""
    resp = [d for v in p["respcc"] for d in (strict_list(v.strip(b" \t")) or [])]
    req = [d for v in p["reqcc"] for d in (strict_list(v.strip(b" \t")) or [])]
    res = []
    if any(n == b"no-store" for n, _ in resp):
        res.append("resp-no-store")
    if any(n == b"private" for n, _ in resp):
        res.append("resp-private")
    if any(n == b"no-store" for n, _ in req):
        res.append("req-no-store")
    if p["auth"] == 1 and not (lenient_names(p["respcc"]) & {b"public", b"must-revalidate", b"s-maxage"}):
        res.append("auth")
    return res


def obs(impl):
    """-> (decision, kind of request 2, X-Seq seen by the last request, kind of request 3 or None)"""
    m = re.fullmatch(r"d=(\S+) k=(\S+)(?: k3=(\S+))? b=(\S+)", impl or "")
    return (m.group(1), m.group(2), m.group(4), m.group(3)) if m else None


def premises304(p):
    """the 304 of a three-request scenario was sent with no-store / private (strict per-line reading)"""
    nm = [d for v in (p["nmcc"] or []) for d in (strict_list(v.strip(b" \t")) or [])]
    return [x for x, name in (("304-no-store", b"no-store"), ("304-private", b"private")) if any(n == name for n, _ in nm)]


def oracle(l, impl):
    p = parts(l)
    if impl == "bad-op":
        return None
    o = obs(impl)
    if o is None:
        return "no usable observation: " + str(impl)
    if p["cfg"] != "d" or p["method"] not in ("GET", "HEAD"):
        return None     # the statement is about default settings; responses to other methods are never stored (checked by correspondence)
    d, k, b, k3 = o
    pr = premises(p)
    if p["nmcc"] is not None:
        if k not in ("hit", "reval", "miss") or k3 not in ("hit", "reval", "miss"):
            return "no usable observation: " + str(impl)
        p3 = premises304(p)
        if k == "reval" and p3 and k3 == "hit":
            return "third request was served from cache without contacting the origin although the 304 that refreshed the entry carried: " + ",".join(p3)
        if pr and (k == "hit" or k3 == "hit" or (pr != ["auth"] and (k != "miss" or k3 != "miss" or b != "3"))):
            return "a later request was served from cache although: " + ",".join(pr)
        return None
    if not pr:
        return None
    if k == "hit":
        return "second request did not reach the origin although: " + ",".join(pr)
    if b != "2":
        return "second request was answered with the stored first response (X-Seq %s, %s) although: %s" % (b, k, ",".join(pr))
    if k != "miss" and pr != ["auth"]:
        return "response was stored (second request was a revalidation) although: " + ",".join(pr)
    return None


def classify(l, impl, why):
    p = parts(l)
    o = obs(impl)
    if o is None:
        return None
    pr = premises(p)
    if pr == ["auth"] and o[1] == "reval" and o[2] == "1":
        names = lenient_names(p["respcc"])
        if b"no-cache" in names:
            return "C11-auth-no-cache-stored"
    return None


def compare(l, impl, model):
    return impl == model


def nontrivial(l, impl, model):
    p = parts(l)
    return p["cfg"] == "d" and (bool(premises(p)) or (p["nmcc"] is not None and bool(premises304(p))))


def tag(l, impl, model):
    p = parts(l)
    o = obs(impl)
    pr = premises(p)
    cls = "+".join(x.replace("resp-", "") for x in pr) if pr else "free"
    if p["nmcc"] is not None:
        cls = "R:" + cls + ("/" + "+".join(premises304(p)) if premises304(p) else "")
    if o is None:
        return "%s %s -> %s" % (p["cfg"], cls, (impl or "")[:30])
    return "%s %s %s -> %s %s%s" % (p["cfg"], p["method"] if p["method"] in ("GET", "HEAD") else "other", cls, o[0].split("|")[0], o[1],
                                    "" if o[3] is None else "," + o[3])


def shrink(l):
    """drop field lines, directives and optional fields"""
    p = parts(l)
    def emit(q):
        base = emit0(q)
        return base if q["nmcc"] is None else "R " + base + " " + (",".join(hx(v) for v in q["nmcc"]) if q["nmcc"] else ".")
    def emit0(q):
        return mk(q["cfg"], q["method"], q["auth"], q["reqcc"], q["status"], q["respcc"], q["ctype"],
                  None if q["date"] == "x" else int(q["date"]),
                  None if q["exp"] == "x" else ("b" if q["exp"] == "b" else int(q["exp"])),
                  None if q["lm"] == "x" else int(q["lm"]), None if q["age"] == "x" else int(q["age"]), q["clen"], int(q["pragma"]), q["second"])
    for key in ("respcc", "reqcc") + (("nmcc",) if p["nmcc"] is not None else ()):
        for i in range(len(p[key])):
            q = dict(p)
            q[key] = p[key][:i] + p[key][i + 1:]
            yield emit(q)
        for i, v in enumerate(p[key]):
            pieces = v.split(b",")
            for j in range(len(pieces)):
                if len(pieces) > 1:
                    q = dict(p)
                    q[key] = p[key][:i] + [b",".join(pieces[:j] + pieces[j + 1:])] + p[key][i + 1:]
                    yield emit(q)
    for key, val in (("ctype", None), ("exp", "x"), ("lm", "x"), ("age", "x"), ("pragma", "0"), ("second", "P")):
        if p[key] != val:
            q = dict(p)
            q[key] = val
            yield emit(q)


KNOWN_MUST_MATCH_MODEL = True   # inside a known finding's region the observation must still equal the model's (which reproduces the listed defect); see lib/vf/run.py
