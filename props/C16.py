"""C16 Disk cache crash consistency (end to end; rock, ufs, aufs): squid is killed at every disk-write boundary of scripted
workloads (and after torn writes), restarted on the same cache_dir, and every hit afterwards is compared byte for byte with the
versions the origin had served."""
import os, re, subprocess, importlib, math
from vf import leanp

H = importlib.import_module("harness.c16")

ID = "C16"
PROP_MODULE = "SquidModel.Properties.C16"
MODEL = "c16"
GEN = ["c16_consts", "c16_keys", "rock_rebuild"]
MINIMISE_BUDGET = 12
MAX_REPORT = 3
RULE = ("scenario = cache_dir type (rock with 4 KB / 32 KB slots, ufs, aufs) x a workload of stores, same-URL overwrites (same and "
        "different sizes), purges and evictions x a crash point: the LD_PRELOAD injector SIGKILLs the whole squid process group when "
        "the N-th change of a cache_dir file (write/pwrite/unlink/rename/truncate, counted across squid, its I/O threads and unlinkd) "
        "is about to happen, optionally after writing only the first b bytes of that write; quick: every 5th event of two workloads per store type "
        "+ torn variants, thorough: every event of 3-5 workloads for rock, every 2nd / 3rd event for ufs / aufs, a torn variant per point (rock) or per 2 points; some scenarios crash a second time (during the index rebuild "
        "or later) or crash during a clean shutdown; then a start without fault injection, an only-if-cached probe of every URL, two "
        "more stores, and the probes again; non-trivial = the crash point was reached (squid died by the injector) after at least one "
        "completed store; distinct = distinct scenario lines")
TRUSTED = ["modelled, not verified: DiskIO modules (Blocking, DiskThreads), unlinkd, Comm I/O, HTTP parsing, swap metadata encoding (keys, "
           "sizes and parse results are abstract), the rig's origin stub and the LD_PRELOAD injector (e2e/crashpoint.c); "
           "`Rock::Rebuild` is modelled per entry position (interaction with other positions only through slots that another entry "
           "mapped, the `foreign` parameter) and, for the tie, by the C57 whole-image model"]
ASSUMPTIONS = ["the crash is a process kill: completed write() calls are on disk in program order (no power loss, no reordering by the OS)",
               "requests are sent only after the index rebuild has finished (\"Completed Validation Procedure\" in cache.log)",
               "-N mode (no workers/diskers): rock uses blocking I/O; one cache_dir of 1 MB per instance",
               "cacheable 200 responses of a fixed header shape; the origin is reached through a cache_peer so that URLs (and store keys) "
               "are the same in every run"]
MANIFEST = {
    "engine": "e2e",
    "text": "partial: the full statement is FALSE of the real code for rock (two confirmed defects, theorems rock_stale_slot_splice_counterexample "
            "and rock_torn_last_slot_counterexample): (1) a crash between the slot writes of a swap-out that re-uses freed slots of an older "
            "response for the same URL leaves the new first slot linked to the old response's remaining slots, and Rock::Rebuild accepts the "
            "mixed chain (it compares keys, never versions); (2) a torn write of the last slot (header complete, payload partial) is accepted "
            "because slots carry no payload checksum. Proved for the models: rock_post_crash_hit_was_complete_pre_crash_partial (for ALL images "
            "and ALL writer histories: if no cell of the entry's position links to a cell of another swap-out and all cells are intact, every hit "
            "is exactly the complete piece sequence of one swap-out that finished before the crash) and "
            "ufs_post_crash_hit_was_complete_pre_crash (for ALL event histories the run time can produce, every prefix, torn writes included: "
            "a hit after the dirty-log rebuild delivers exactly one completely written object of that key). The models are tied to the rebuilt "
            "binary by (a) the rock writer/allocator model predicting the exact slot write trace and post-restart lookups of every scenario, "
            "(b) the rebuild models replayed on the db image / swap.state + files read from the real cache_dir after every crash, (c) the real "
            "ufs event trace validated against the protocol the ufs theorem assumes",
    "note": "trusted: Lean kernel, python rig, LD_PRELOAD injector, loopback TCP; not modelled: power loss (loss/reordering of completed "
            "writes), SMP diskers, hits served while the rebuild is still running, header updates (304) of rock entries, a second crash "
            "inside the rebuild window after new stores, I/O errors",
    "technique": "Lean 4 proofs (invariants over writer/event histories and over the rebuild fold) + constants/key-table translators + "
                 "systematic fault enumeration with an LD_PRELOAD write interposer against the rebuilt squid",
}

STATE = {}


class Wrapper:
    """the harness + one batched run of the model driver over everything compare() is going to ask"""

    def __init__(self, h):
        self.h = h

    @property
    def crashes(self):
        return self.h.crashes

    def predrive(self, lines, outs):
        want = []
        for l, o in zip(lines, outs):
            try:
                want += driver_lines(l, o)
            except Exception:
                pass
        if want:
            try:
                drive(sorted(set(want)))
            except Exception:
                pass

    def suspicious(self, l, o):
        """an observation that would be reported (not a known finding)"""
        try:
            why = oracle(l, o)
            if why:
                return classify(l, o, why) is None
            return not compare(l, o, None)
        except Exception:
            return True

    def run(self, lines):
        outs = self.h.run(lines)
        self.predrive(lines, outs)
        # flake guard: a scenario is reported only if it misbehaves three times in a row (timing under load: a swap-out that
        # does not settle in time, a port taken by another process); genuine failures are deterministic here
        for attempt in range(2):
            bad = [i for i, (l, o) in enumerate(zip(lines, outs)) if self.suspicious(l, o)]
            if not bad or len(bad) > 12:
                break
            again = self.h.run([lines[i] for i in bad])
            self.predrive([lines[i] for i in bad], again)
            for i, o in zip(bad, again):
                if not self.suspicious(lines[i], o):
                    outs[i] = o
        return outs

    def close(self):
        self.h.close()


def build(stage):
    h = H.Harness(stage)
    STATE["harness"] = h
    return Wrapper(h)


# ------------------------------------------------------------------------------------------------ observation parsing

def split_obs(impl):
    """-> dict(cal, phases: [dict(start, ops, events, died, exit)], final: dict(start, first, second, extra, problem), trace, img) or None"""
    if not impl.startswith("cal="):
        return None
    m = re.match(r"^cal=(\d+)\.(\d+) \| (.*?) trace=(\S*) img=(.*)$", impl)
    if not m:
        return None
    parts = m.group(3).split(" | ")
    out = {"cal": (int(m.group(1)), int(m.group(2))), "phases": [], "final": None, "trace": m.group(4), "img": m.group(5).split("|")}
    for p in parts:
        if p.startswith("final "):
            f = {"start": None, "first": [], "second": [], "extra": [], "problem": None}
            mm = re.match(r"final start=(\S+)(?: (.*))?$", p)
            if not mm:
                return None
            f["start"] = mm.group(1)
            rest = mm.group(2) or ""
            pm = re.search(r" problem=(\S+)$", rest)
            if pm:
                f["problem"] = pm.group(1)
                rest = rest[:pm.start()]
            if rest:
                segs = rest.split(" ; ")
                if len(segs) != 3:
                    return None
                f["first"], f["second"] = segs[0].split(" "), segs[1].split(" ")
                f["extra"] = [] if segs[2] == "-" else segs[2].split(" ")
            out["final"] = f
        else:
            mm = re.match(r"start=(\S+) ops=(\S+) events=(\d+) died=(\d)(?: exit=(\S+))?$", p)
            if not mm:
                return None
            out["phases"].append({"start": mm.group(1), "ops": [] if mm.group(2) == "-" else mm.group(2).split(","), "events": int(mm.group(3)),
                                  "died": mm.group(4) == "1", "exit": mm.group(5)})
    return out


def probe_problem(r):
    """None if the probe result is allowed by the property, else a description"""
    if r == "M":
        return None
    if r.startswith("H"):
        return None if re.fullmatch(r"H[1-9]\d*", r) else "hit differs from every complete response the origin served: " + r
    return "no proper answer to a cache lookup: " + r


def oracle(l, impl):
    sc = H.parse_line(l)
    if sc is None:
        return None if impl == "bad-op" else "harness accepted a malformed scenario"
    if impl == "bad-calibration":
        return None
    o = split_obs(impl)
    if o is None or o["final"] is None:
        return "no usable observation: " + impl[:200]
    for i, ph in enumerate(o["phases"]):
        if ph["start"].startswith("fail") or ph["start"] == "timeout":
            return "squid did not start on the cache_dir left by phase %d: %s" % (i - 1, ph["start"][:160])
        for r in ph["ops"]:
            kind, val = r.split("=", 1)
            why = None
            if kind == "G":
                why = probe_problem(val)
            elif kind == "F" and val not in ("fail", "died"):
                if val.startswith("M"):
                    why = None if re.fullmatch(r"M[1-9]\d*", val) else "a fetched response was relayed wrongly: " + val
                else:
                    why = probe_problem(val)
            if why and i > 0:
                return "phase %d: %s" % (i, why)
    f = o["final"]
    if f["start"] != "ok":
        return "squid did not start after the last crash: " + f["start"][:160]
    if f["problem"]:
        return "squid reported a fatal problem after the restart: " + f["problem"]
    for name, lst in (("first", f["first"]), ("second", f["second"]), ("extra", f["extra"])):
        for k, r in enumerate(lst):
            why = probe_problem(r)
            if why:
                return "%s probe of key %d after the restart: %s" % (name, k, why)
    return None


def image_chain(o, keyname):
    """the tags of the cells the on-disk links lead through, starting at the (only) inode of the key, from the last rock image"""
    img = o["img"][-1] if o and o["img"] and o["img"][-1].startswith("rock:") else None
    if not img:
        return None
    cells = {}
    for c in img.split(":", 3)[3].split(";"):
        f = c.split(",")
        if len(f) == 11:
            cells[int(f[0])] = {"key": f[1], "first": int(f[7]), "next": int(f[8]), "tag": f[10]}
    inodes = [sl for sl, c in cells.items() if c["key"] == keyname and c["first"] == sl]
    if len(inodes) != 1:
        return None
    tags, cur, seen = [], inodes[0], []
    while cur >= 0 and cur in cells and cur not in seen:
        seen.append(cur)
        tags.append(cells[cur]["tag"])
        cur = cells[cur]["next"]
    return tags, seen


def torn_slots(o):
    """slots hit by a torn write (`P:<slot>:<bytes>` records of the injector's trace)"""
    return set(int(m.group(1)) for m in re.finditer(r"(?:^|[;:|])P:(\d+):\d+", o["trace"]))


def classify(l, impl, why):
    sc = H.parse_line(l)
    if sc is None or not why:
        return None
    m = re.search(r"probe of key (\d+) after the restart: hit differs", why) or re.search(r"phase \d+: hit differs", why)
    if not sc["store"].startswith("rock") or not m or "!pieces(" not in why:
        return None
    o = split_obs(impl or "")
    if o is None:
        return None
    if m.lastindex:
        keys = ["k%d" % int(m.group(1))]
    else:
        keys = ["k%d" % k for k in range(sc["nkeys"])]
    torn = torn_slots(o) if any(c[0] == "n" and c[2] > 0 for _, c in sc["phases"]) else set()
    for keyname in keys:
        ch = image_chain(o, keyname)
        if not ch or not ch[0]:
            continue
        tags, slots = ch
        if torn & set(slots):
            # the slot whose write was torn is part of the chain the rebuild accepted
            return "C16-rock-torn-slot-accepted"
        if "x" in tags:
            continue
        srcs = set(re.match(r"([kx]\d+v\d+)p\d+$", t).group(1) for t in tags if re.match(r"([kx]\d+v\d+)p\d+$", t))
        if len(srcs) >= 2 and all(x.split("v")[0] == keyname for x in srcs):
            return "C16-rock-stale-slot-splice"
    return None


# ------------------------------------------------------------------------------------------------ model tie

_driver = [None]
CACHE = {}


def drive(lines):
    miss = [x for x in lines if x not in CACHE]
    if miss:
        for x, y in zip(miss, drive_raw(miss)):
            CACHE[x] = y
    return [CACHE[x] for x in lines]


def drive_raw(lines):
    if _driver[0] is None:
        dev = os.environ.get("VERIF_DEV_DRIVER_C16")
        _driver[0] = dev.split(" ") if dev else [leanp.driver_path(MODEL)]
    r = subprocess.run(_driver[0], input=("\n".join(lines) + "\n").encode(), capture_output=True, timeout=300)
    return r.stdout.decode().split("\n")[:len(lines)]


def npieces(cal, slot_size, n):
    return max(1, math.ceil((cal[0] + n) / (slot_size - 40)))


def versions(sc):
    """(key, ver) -> body size, following the ops in order (what the harness does)"""
    cur, vers = {}, {}
    for ops, _ in sc["phases"]:
        for op in ops:
            if op[0] in "SC":
                cur[op[1]] = cur.get(op[1], 0) + 1
                vers[(op[1], cur[op[1]])] = op[2]
            elif op[0] == "F" and op[1] not in cur:
                cur[op[1]] = 1
                vers[(op[1], 1)] = 64
    vers[("x0", 1)] = 9000
    vers[("x1", 1)] = 13000
    return vers


def same_lookup(real, pred, name, vers, cal, slot_size):
    """real probe result of the harness vs the model's `M` / `H:tag+tag`"""
    if real == "M" or pred == "M":
        return real == pred
    if not pred.startswith("H:"):
        return False
    tags = pred[2:].split("+")
    m = re.fullmatch(r"H([1-9]\d*)", real)
    if m:
        v = int(m.group(1))
        key = int(name[1:]) if name[0] == "k" else name
        n = vers.get((key, v))
        if n is None:
            return False
        return tags == ["%sv%dp%d" % (name, v, j) for j in range(npieces(cal, slot_size, n))]
    m = re.search(r"!pieces\(([^)]*)\)", real)
    if m:
        got = m.group(1).split("+")
        if got and "~" in got[-1]:
            # the reply header promised fewer bytes than the chain holds: the response ends inside a piece (whose few bytes
            # may not identify it)
            return len(tags) >= len(got) and tags[:len(got) - 1] == got[:-1]
        return tags == got
    return False


def rock_queries(nkeys):
    qs = []
    for k in range(nkeys):
        d = H.store_key(H.URLFMT % k)
        qs.append("k%d:%d:%d" % (k, int.from_bytes(d[:8], "little"), int.from_bytes(d[8:], "little")))
    return ",".join(qs)


def strip_versions(trace_phase):
    """real trace records carry the cell version (a timestamp); the model's do not"""
    out = []
    for r in trace_phase.split(";"):
        f = r.split(":")
        if f[0] == "W" and len(f) == 9:
            out.append(":".join(f[:7] + f[8:]))
        elif f[0] == "P" and len(f) == 9:
            out.append("P:%s:%s" % (f[1], f[8]))
        elif f[0] == "P" and len(f) == 2 and f[1].startswith("@"):
            mm = re.fullmatch(r"@(\d+)\+(\d+)", f[1])
            out.append(r if not mm else "P:@%s:%s" % (mm.group(1), mm.group(2)))
        else:
            out.append(r)
    return out


def rockimg_line(sc, o):
    img = o["img"][-1] if o["img"] and o["img"][-1].startswith("rock:") else None
    f = o["final"]
    if img and f["start"] == "ok" and f["first"]:
        _, ss, ns, cells = img.split(":", 3)
        return "rockimg %s %s %s %s" % (ss, ns, cells, rock_queries(sc["nkeys"]))
    return None


def scenario_line(l, o):
    toks = l.split(" ")
    return " ".join([toks[0], "%d.%d" % o["cal"]] + toks[2:])


def ufs_lines(sc, o):
    f = o["final"]
    img = o["img"][-1] if o["img"] and o["img"][-1].startswith("ufs:") else None
    lines = []
    if img and f["start"] == "ok" and f["first"]:
        _, logs, files = img.split(":", 2)
        # the log the next start reads is swap.state (a leftover swap.state.new is truncated)
        recs = "-"
        for part in logs.split("/"):
            if part.startswith("swap.state="):
                recs = re.sub(r"~\d+$", "", part.split("=", 1)[1])
        recs = "+".join(x for x in recs.split("+") if not x.startswith("3,")) or "-"
        lines.append("ufsimg %s %s %s" % (recs, files, ",".join("k%d" % k for k in range(sc["nkeys"]))))
    tr = dict((int(x.split(":", 1)[0]), x.split(":", 1)[1]) for x in o["trace"].split("|") if ":" in x)
    evs = ufs_trace_events(tr.get(0, "-"))
    if evs is None:
        return None
    lines.append("ufstrace %s" % (";".join(evs) or "-"))
    return lines


def driver_lines(l, impl):
    sc = H.parse_line(l)
    o = split_obs(impl or "")
    if sc is None or o is None or o["final"] is None:
        return []
    if sc["store"].startswith("rock"):
        x = rockimg_line(sc, o)
        return ([x] if x else []) + [scenario_line(l, o)]
    return ufs_lines(sc, o) or []


def compare_rock(sc, o, l):
    cal = o["cal"]
    slot_size = int(sc["store"][4:])
    vers = versions(sc)
    f = o["final"]
    # (b) the rebuild models on the image read from the real db file after the last phase
    il = rockimg_line(sc, o)
    if il:
        out = drive([il])[0]
        if not out.startswith("rebuild=ok"):
            return False
        res = dict(x.split("=", 1) for x in out.split(" ")[1:])
        torn_in_head = any(c[0] == "n" and 0 < c[2] < 40 + cal[0] for _, c in sc["phases"])
        for k in range(sc["nkeys"]):
            mine, whole = res.get("k%d" % k, "?/?").split("/")
            if torn_in_head and whole.startswith("H:") and whole[2:].split("+")[0] == "x":
                continue         # the torn cell is the first piece of the chain: whether its mix of new and old bytes parses as a
                                 # reply (hit) or not (swap-in failure, miss) is outside the piece abstraction
            if not same_lookup(f["first"][k], whole, "k%d" % k, vers, cal, slot_size):
                return False
            if mine != whole and "f" not in mine:      # the per-position model may differ only where a foreign slot is involved
                return False
    # (a) the writer/allocator model predicts the whole scenario
    for ops, c in sc["phases"]:
        if c[0] == "n" and 40 < c[2] < 40 + cal[0]:
            return True          # a write torn inside the swap metadata / reply header of a first piece: what the parsers make of
                                 # the mix of new and old bytes is outside the piece abstraction
        if any(op[0] == "C" for op in ops):
            return True
        # slot numbers after a PURGE depend on when squid drops the purged entry's read lock (the slots of the entry stored by
        # the preceding operation, and of single-slot geometries, are freed later): the allocation is not predicted then
        last_store = None
        for op in ops:
            if op[0] in "SF":
                last_store = op[1]
            elif op[0] == "P" and (op[1] == last_store or slot_size >= 32768):
                return True
    pred = drive([scenario_line(l, o)])[0]
    pp = pred.split(" | ")
    real_tr = dict((int(x.split(":", 1)[0]), x.split(":", 1)[1]) for x in o["trace"].split("|") if ":" in x)
    for i, ph in enumerate(o["phases"]):
        if i >= len(pp):
            return False
        m = re.match(r"start=ok ops=(\S+) trace=(\S+)$", pp[i])
        if not m:
            return ph["start"] != "ok"
        want_ops = [] if m.group(1) == "-" else m.group(1).split(",")
        got_ops = ph["ops"]
        if len(want_ops) != len(got_ops):
            return False
        for j, (w, g) in enumerate(zip(want_ops, got_ops)):
            kind, gv = g.split("=", 1)
            wk, wv = w.split("=", 1)
            if kind != wk:
                return False
            if kind in "SC":
                if (gv == "ok") != (wv == "ok"):
                    return False
            elif kind == "P":
                if gv != wv:
                    return False
            elif kind == "G":
                if not same_lookup(gv, wv, "k%d" % sc["phases"][i][0][j][1], vers, cal, slot_size):
                    return False
            elif kind == "F":
                if (gv[:1] == "M") != (wv[:1] == "M") and gv not in ("fail", "died"):
                    return False
        want_tr = [] if m.group(2) == "-" else m.group(2).split(";")
        got_tr = [] if real_tr.get(i, "-") == "-" else strip_versions(real_tr[i])
        if want_tr != got_tr:
            return False
    fm = re.match(r"final (.*) ; (.*) ; (.*) txn=(\w+)$", pp[-1]) if pp else None
    if not fm or f["start"] != "ok" or fm.group(4) != "ok":
        return False          # (txn=ok: every completed swap-out of the simulation wrote exactly `txnCells` of its slots)
    for real, want, names in ((f["first"], fm.group(1).split(" "), ["k%d" % k for k in range(sc["nkeys"])]),
                              (f["second"], fm.group(2).split(" "), ["k%d" % k for k in range(sc["nkeys"])]),
                              (f["extra"], fm.group(3).split(" "), ["x0", "x1"])):
        if len(real) != len(want):
            return False
        for r, w, nm in zip(real, want, names):
            if not same_lookup(r, w, nm, vers, cal, slot_size):
                return False
    return True


def ufs_trace_events(trace_phase):
    """the injector's records of phase 0 (empty cache_dir) as events of the ufs protocol model"""
    evs, stores, by_file, added = [], 0, {}, {}
    recs = trace_phase.split(";") if trace_phase != "-" else []
    # total of every swap-out: the size its ADD record logs, or one more than what was written (it never completed)
    for r in recs:
        f = r.split(":")
        if f[0] not in ("W", "P", "U", "T", "K", "R", "F"):
            return None
        path = f[1]
        if path == "swap.state.clean":
            break            # a clean shutdown rewrites the log from the index: beyond the run-time protocol
        if path.startswith("swap.state") and path != "swap.state":
            continue         # the temporary log of the rebuild
        if path.startswith("swap.state"):
            if f[0] == "W" and len(f) >= 4:
                for rec in f[3].split("+"):
                    op, filen, sz, key = rec.split(".")
                    if op == "VER":
                        continue
                    fileno = int(filen, 16)
                    if op == "ADD":
                        st = by_file.get(fileno)
                        if st is None:
                            return None
                        st["total"] = int(sz)
                        added[(fileno, key)] = st
                        evs.append(("l", 1, fileno, int(sz), key, st))
                    elif op == "DEL":
                        st = added.get((fileno, key))
                        if st is None:
                            return None
                        evs.append(("l", 2, fileno, int(sz), key, st))
            continue
        if path in ("swap.state", ".") or "/" not in path:
            continue
        fileno = int(path.rsplit("/", 1)[1], 16)
        if f[0] in ("W", "P"):
            off, ln = int(f[2]), int(f[3])
            if off == 0:
                stores += 1
                st = {"id": stores, "total": None, "written": 0, "hdr": ln, "fileno": fileno, "key": None}
                by_file[fileno] = st
                evs.append(("c", fileno, st))
            st = by_file.get(fileno)
            if st is None:
                return None
            st["written"] += ln
            evs.append(("a", fileno, ln))
        elif f[0] == "U":
            st = by_file.get(fileno)
            if st is not None and st["total"] is None and not st.get("aborted"):
                st["aborted"] = True
                evs.append(("x", st))
            evs.append(("u", fileno))
        elif f[0] == "T":
            pass
    out = []
    for e in evs:
        if e[0] == "c":
            st = e[2]
            total = st["total"] if st["total"] is not None else st["written"] + 1
            out.append("c,%d,%d,%s,%d,%d" % (e[1], st["id"], st.get("keyname") or "k%d" % st["id"], total, st["hdr"]))
        elif e[0] == "a":
            out.append("a,%d,%d" % (e[1], e[2]))
        elif e[0] == "l":
            out.append("l,%d,%d,%d,%s,%d,0,%d" % (e[1], e[2], e[3], e[4], 0, e[5]["id"]))
        elif e[0] == "u":
            out.append("u,%d" % e[1])
        elif e[0] == "x":
            out.append("x,%d" % e[1]["id"])
    # the key of a swap-out is known from its ADD record; swap-outs that never logged one keep a private name
    names = {}
    for e in evs:
        if e[0] == "l" and e[1] == 1:
            names[e[5]["id"]] = e[4]
    fixed = []
    for x in out:
        f = x.split(",")
        if f[0] == "c" and int(f[2]) in names:
            f[3] = names[int(f[2])]
        fixed.append(",".join(f))
    return fixed


def compare_ufs(sc, o, l):
    f = o["final"]
    lines = ufs_lines(sc, o)
    if lines is None:
        return False
    outs = drive(lines)
    if outs[-1] != "wf":
        return False
    if len(lines) == 2:
        res = dict(x.split("=", 1) for x in outs[0].split(" ") if "=" in x)
        for k in range(sc["nkeys"]):
            real, pred = f["first"][k], res.get("k%d" % k, "?")
            if real == "M" or pred == "M":
                if real != pred:
                    return False
                continue
            m = re.fullmatch(r"H:k(\d+)v(\d+)(c|p\d+):(\d+):(\d+)", pred)
            if not m:
                return False
            complete = m.group(3) == "c" and m.group(4) == m.group(5)
            if re.fullmatch(r"H[1-9]\d*", real):
                if not complete or real != "H" + m.group(2):
                    return False
            elif complete:
                return False
    return True


def compare(l, impl, model):
    sc = H.parse_line(l)
    if sc is None:
        return impl == "bad-op"
    if impl == "bad-calibration":
        return True
    o = split_obs(impl)
    if o is None or o["final"] is None:
        return False
    if sc["store"].startswith("rock"):
        return compare_rock(sc, o, l)
    return compare_ufs(sc, o, l)


# ------------------------------------------------------------------------------------------------ generators

WORKLOADS = [
    # same-URL overwrites with equal sizes, a second URL, a purge
    (3, "S0.9000.1,S1.100.2,S0.9000.3,P1,S2.5000.4,S0.9000.5"),
    # overwrites that grow and shrink
    (2, "S0.12500.1,S0.5000.2,S1.4000.3,S0.13000.4"),
    # objects that fit one slot / one write
    (3, "S0.100.1,S1.3000.2,S0.200.3,S1.3000.4,S2.3741.5"),
    # purge then store again, slots / file numbers are taken again
    (3, "S0.9000.1,S1.9000.2,P0,S2.9000.3,S0.9000.4,P1,S1.5000.5"),
]
EVICTION = (6, "S0.190000.1,S1.190000.2,S2.190000.3,S3.190000.4,S4.190000.5,S5.190000.6,S0.190000.7")
STORES_QUICK = ["rock4096", "ufs", "aufs"]
TORN = [1, 8, 16, 20, 30, 39, 40, 41, 72, 100, 158, 600, 4000, 4095]


def event_counts(lines):
    """runs the scenarios without a crash point and returns how many events each phase-0 workload causes"""
    h = STATE.get("harness")
    if h is None:
        return [0] * len(lines)
    outs = h.run(lines)
    res = []
    for o in outs:
        so = split_obs(o)
        res.append(so["phases"][0]["events"] if so and so["phases"] else 0)
    return res


def random_workload(rng, nk):
    ops = []
    for i in range(rng.range(3, 7)):
        c = rng.below(10)
        k = rng.below(nk)
        if c < 7:
            n = rng.choice([100, 3000, 3741, 3742, 5000, 7797, 7798, 9000, 9000, 9000, 12000, 20000]) if rng.chance(3, 4) else rng.below(20000)
            ops.append("S%d.%d.%d" % (k, n, rng.below(1000)))
        elif c < 8:
            ops.append("P%d" % k)
        elif c < 9:
            ops.append("G%d" % k)
        else:
            ops.append("F%d" % k)
    return ",".join(ops)


def cases(rng, tier):
    thorough = tier == "thorough"
    plans = []      # (store, nkeys, ops, step between crash points, torn variants per crash point as (num, den))
    if thorough:
        # every event of every workload for rock (the store type with the findings), every 2nd / 3rd for ufs / aufs
        for st, step, torn, nw in (("rock4096", 1, (1, 1), 4), ("rock32768", 1, (1, 1), 2), ("ufs", 2, (1, 2), 3), ("aufs", 3, (1, 2), 2)):
            for nk, ops in WORKLOADS[:nw]:
                plans.append((st, nk, ops, step, torn))
            nk = rng.range(1, 3)
            plans.append((st, nk, random_workload(rng, nk), step, torn))
        plans.append(("rock32768", EVICTION[0], EVICTION[1], 4, (1, 2)))
    else:
        # quick: every 5th event (the offset moves with the seed) of one fixed and one random workload per store type
        for st in STORES_QUICK:
            nk, ops = WORKLOADS[rng.below(len(WORKLOADS))] if st != "rock4096" else WORKLOADS[0]
            plans.append((st, nk, ops, 5, (1, 2)))
            nk = rng.range(1, 2)
            plans.append((st, nk, random_workload(rng, nk), 5, (1, 2)))
        plans.append(("rock32768", EVICTION[0], EVICTION[1], 12, (0, 1)))
    disc = ["%s auto %d %s@e" % p[:3] for p in plans]
    counts = event_counts(disc)
    # the runs without a crash point are cases too (SIGKILL of an idle squid)
    for d in disc:
        yield d
    for (st, nk, ops, step, torn), total in zip(plans, counts):
        if total <= 0:
            continue
        off = rng.below(step)
        pts = [n for n in range(1, total + 1) if (n - 1) % step == off]
        for n in pts:
            yield "%s auto %d %s@%d" % (st, nk, ops, n)
            k = torn[0] // torn[1] + (1 if rng.chance(torn[0] % torn[1], torn[1]) else 0)
            for _ in range(k):
                yield "%s auto %d %s@%dt%d" % (st, nk, ops, n, rng.choice(TORN))
        # second crashes: during the rebuild that follows the first one, during later stores, during a clean shutdown
        if "190000" in ops or (not thorough and not rng.chance(1, 2)):
            continue
        for _ in range(3 if thorough else 1):
            n1 = rng.range(1, total)
            kind = rng.below(4)
            if kind == 0:
                yield "%s auto %d %s@%d -@%d" % (st, nk, ops, n1, rng.range(1, 6))
            elif kind == 1:
                yield "%s auto %d %s@%d S0.9000.77,S1.4000.78@%d" % (st, max(nk, 2), ops, n1, rng.range(1, 12))
            elif kind == 2:
                yield "%s auto %d %s@%dq" % (st, nk, ops, total + rng.range(1, 6))
            else:
                yield "%s auto %d %s@q G0,S0.9000.79@%d" % (st, nk, ops, rng.range(1, 8))


def exhaustive(tier):
    return tier == "thorough"


def nontrivial(l, impl, model):
    sc = H.parse_line(l)
    o = split_obs(impl or "")
    if sc is None or o is None:
        return False
    return any(ph["died"] and any(r in ("S=ok", "C=ok") for r in ph["ops"]) for ph in o["phases"])


def tag(l, impl, model):
    sc = H.parse_line(l)
    if sc is None:
        return "bad-op"
    o = split_obs(impl or "")
    crash = sc["phases"][0][1]
    kind = "torn" if crash[0] == "n" and crash[2] else ("boundary" if crash[0] == "n" else ("clean-shutdown" if crash[3] else "idle-kill"))
    if len(sc["phases"]) > 1:
        kind += "+2nd"
    if o is None or o["final"] is None:
        return "%s %s -> %s" % (sc["store"], kind, (impl or "?").split(" ")[0][:30])
    why = oracle(l, impl)
    if why:
        res = "wrong-hit" if "hit differs" in why else "failure"
    else:
        res = "hits-exact" if any(r.startswith("H") for r in o["final"]["first"]) else "all-miss"
    return "%s %s -> %s" % (sc["store"], kind, res)


def shrink(l):
    t = l.split(" ")
    if len(t) < 4:
        return
    if len(t) > 4:
        yield " ".join(t[:-1])
    o, c = t[3].split("@") if t[3].count("@") == 1 else (None, None)
    if o is None or o == "-":
        return
    ops = o.split(",")
    # dropping an operation after the crash point does not change what happens before it
    for i in range(len(ops) - 1, -1, -1):
        yield " ".join(t[:3] + [",".join(ops[:i] + ops[i + 1:]) + "@" + c] + t[4:])


KNOWN_MUST_MATCH_MODEL = True   # inside a known finding's region the observation must still equal the model's (which reproduces the listed defect); see lib/vf/run.py
