"""C48 Byte-string values behave as independent values (SBuf / MemBlob copy-on-write)."""
import os, json, re
from vf.util import VERIF, hx, unhx
from vf.harness import ProcHarness

ID = "C48"
PROP_MODULE = "SquidModel.Properties.C48"
MODEL = "c48"
GEN = ["sbuf_consts"]
RULE = ("one case = one history `s <K> <alloc> <op>...` over K=1..6 SBuf objects (copies, substr/consume/chop views of one blob, "
        "appends from other objects / own raw areas / foreign memory, trim, case changes, setAt, c_str, reserve*, rawAppend, "
        "appendf/Printf, searches, comparisons; arguments include npos, 0, length±1, maxSize±1, values near 2^32); "
        "alloc x = exact-size blobs, c = squid's buffer size classes; non-trivial = at least one operation wrote through an "
        "object while another object shared its blob; distinct = distinct histories")
TRUSTED = ["modelled, not verified: RefCount<MemBlob> (a counter incremented/decremented where the C++ copies/destroys pointers), "
           "memAllocBuf (any function with n <= alloc n <= maxSize), vsnprintf (its output for the six formats of the harness), "
           "memcpy/memmove/memchr/memcmp/tolower as their list-level meaning",
           "harness reads SBuf::off_/len_/store_ via -fno-access-control (never writes them) and empties the prototype store between lines"]
ASSUMPTIONS = ["pointer arguments either point into the contents of a live SBuf or to foreign memory of the stated length",
               "objects are not used after being moved from; single thread",
               "glibc C locale for tolower/toupper/isupper/islower"]
MANIFEST = {
    "text": "partial: for every history of the 36 modelled SBuf operations (copy, assign from SBuf / foreign memory / own raw area, the append "
            "family incl. self-append, push_back, clear, chop, substr, consume, trim incl. trim by itself, setAt, toLower/toUpper, c_str, "
            "reserveSpace/Capacity/reserve, rawAppendStart/Finish, 15 searches and comparisons) over any number of objects sharing blobs, "
            "from the initial state and under any allocation policy (n <= alloc n <= maxSize; proved for the exact and the size-class policy), "
            "the heap model of SBuf.cc/MemBlob.cc (blob heap + off/len views, LockCount, copy-on-write incl. in-place shift, Locker, in-place "
            "append) never reads or writes outside the used area / capacity of a blob, keeps its invariant, and every object's bytes and every "
            "result incl. `throw` equal those of the same history on independent byte lists (theorem run_refines_partial); over-limit requests "
            "throw and leave all values unchanged. EXCLUDED by the explicit hypothesis Safe: four argument regions where the real code "
            "violates the property (each proved as a counterexample of the model and confirmed on the real code under ASan: chop/substr with "
            "pos+n wrapping uint32; rawAppendStart(0)+rawAppendFinish(0) on a non-tail view; appendf/Printf with an empty format; "
            "rawAppendStart(n) with length+n >= 2^32-1), the printf family (differential only), assign() of a foreign area > maxSize. "
            "The real code runs under ASan/UBSan against the model (contents, results, off_/len_/size/capacity/LockCount after every call: "
            "0 divergences) and against a python reference on independent values (std::string semantics for every search/compare).",
    "note": "trusted: Lean kernel, translator (maxSize/npos/size classes/5 code-shape flags), harness, python reference; modelled not verified: "
            "RefCount, memAllocBuf, vsnprintf, libc memory primitives, glibc tolower on negative char; searches/comparisons are proved to depend "
            "on the bytes only (their std::string meaning is checked by the python reference, three comparison deviations are known findings); "
            "contents beyond ~70 KB only at the limit checks (one 256 MB reservation per run)",
    "technique": "Lean 4 refinement proof (heap model -> independent values; invariant, frame and exclusivity lemmas, loop inductions) + "
                 "ASan differential run comparing internals + independent reference",
}

NPOS = 0xffffffff
MAXSIZE = 0x0fffffff
W = 1 << 32
FORMATS = [b"", b"%s", b"<%s>", b"%s%s", b"%%", b"%d:%s"]


# ------------------------------------------------------------------------------------------------------------------
# build
# ------------------------------------------------------------------------------------------------------------------
def build_exe(stage):
    if "c48" in getattr(stage, "built", {}):
        return stage.built["c48"]
    objs = [stage.compile(os.path.join(VERIF, "harness", "c48.cc"), extra=["-fno-access-control"]),
            stage.compile("src/sbuf/SBuf.cc"), stage.compile("src/sbuf/MemBlob.cc")]
    exe = stage.link_like("tests/testSBuf", objs, os.path.join(stage.work, "c48"),
                          drop=["tests/SBufFindTest.o", "tests/stub_libmem.o"])
    stage.built = getattr(stage, "built", {})
    stage.built["c48"] = exe
    return exe


class TwoPolicies:
    """`x` lines go to a process with exact-size allocation, `c` lines to one with squid's size classes."""

    def __init__(self, exe, classes):
        env = {"UBSAN_OPTIONS": "print_stacktrace=0:halt_on_error=1:exitcode=86"}
        self.hx = ProcHarness([exe], env=env)
        self.hc = ProcHarness([exe, "--classes=" + ",".join(str(c) for c in classes)], env=env)
        self.crashes = 0

    def run(self, lines):
        ix = [i for i, l in enumerate(lines) if l.split(" ")[2:3] != ["c"]]
        ic = [i for i, l in enumerate(lines) if l.split(" ")[2:3] == ["c"]]
        out = [None] * len(lines)
        for idx, h in ((ix, self.hx), (ic, self.hc)):
            if idx:
                for i, o in zip(idx, h.run([lines[i] for i in idx])):
                    out[i] = o
        self.crashes = self.hx.crashes + self.hc.crashes
        return out


def build(stage):
    from translate import sbuf_consts
    classes = [g for (_t, g) in sbuf_consts.size_classes(stage)]
    return TwoPolicies(build_exe(stage), classes)


# ------------------------------------------------------------------------------------------------------------------
# reference: the same operations on independent python `bytes` values (std::string semantics)
# ------------------------------------------------------------------------------------------------------------------
class Throw(Exception):
    pass


def lower(b):
    return bytes(c + 32 if 65 <= c <= 90 else c for c in b)


def upper(b):
    return bytes(c - 32 if 97 <= c <= 122 else c for c in b)


def sgn(x):
    return "-1" if x < 0 else "1" if x > 0 else "0"


def cmp_bytes(a, b):
    return (a > b) - (a < b)


def chop_ref(a, pos, n):
    """std::string::substr-like: pos beyond the end (or npos) = end; n capped to what is there."""
    if pos == NPOS or pos > len(a):
        pos = len(a)
    if n == NPOS or pos + n > len(a):
        n = len(a) - pos
    return a[pos:pos + n]


def posr(p):
    return "npos" if p is None or p < 0 else str(p)


def need_room(a, n):
    if len(a) + n > MAXSIZE:
        raise Throw()


def ref_apply(vals, f):
    """-> expected result token, or None when the reference does not judge the result (internal numbers).
    Mutates vals.  Raises Throw when the operation must throw (vals untouched)."""
    op = f[0]
    I = lambda k: int(f[k])
    B = lambda k: unhx(f[k])
    if op == "n":
        vals[I(1)] = b""; return "ok"
    if op == "A":
        vals[I(1)] = vals[I(2)]; return "ok"
    if op == "ab":
        vals[I(1)] = B(2); return "ok"
    if op in ("ar", "pr"):
        i, j, p, n = I(1), I(2), I(3), I(4)
        p = min(p, len(vals[j])); n = min(n, len(vals[j]) - p)
        area = vals[j][p:p + n]
        if op == "ar":
            vals[i] = area
        else:
            need_room(vals[i], len(area)); vals[i] = vals[i] + area
        return "ok"
    if op == "pb":
        need_room(vals[I(1)], len(B(2))); vals[I(1)] += B(2); return "ok"
    if op == "ps":
        i, j = I(1), I(2)
        need_room(vals[i], len(vals[j])); vals[i] = vals[i] + vals[j]; return "ok"
    if op == "pc":
        need_room(vals[I(1)], 1); vals[I(1)] += bytes([I(2)]); return "ok"
    if op == "cl":
        vals[I(1)] = b""; return "ok"
    if op == "ch":
        vals[I(1)] = chop_ref(vals[I(1)], I(2), I(3)); return "ok"
    if op == "ss":
        vals[I(1)] = chop_ref(vals[I(2)], I(3), I(4)); return "ok"
    if op == "co":
        i, j, n = I(1), I(2), I(3)
        n = len(vals[j]) if n == NPOS else min(n, len(vals[j]))
        head, tail = vals[j][:n], vals[j][n:]
        vals[j] = tail; vals[i] = head; return "ok"
    if op == "tr":
        i, j, fl = I(1), I(2), I(3)
        s = vals[j]; a = vals[i]
        if fl & 2:
            a = a.rstrip(s) if s else a
        if fl & 1:
            a = a.lstrip(s) if s else a
        vals[i] = a; return "ok"
    if op == "sa":
        i, p, c = I(1), I(2), I(3)
        if p >= len(vals[i]):
            raise Throw()
        vals[i] = vals[i][:p] + bytes([c]) + vals[i][p + 1:]; return "ok"
    if op == "lo":
        vals[I(1)] = lower(vals[I(1)]); return "ok"
    if op == "up":
        vals[I(1)] = upper(vals[I(1)]); return "ok"
    if op == "cs":
        need_room(vals[I(1)], 1); return hx(vals[I(1)] + b"\0")
    if op == "rs":
        n = I(2)
        if n > MAXSIZE or len(vals[I(1)]) > MAXSIZE - n:
            raise Throw()
        return "ok"
    if op == "rc":
        if I(2) > MAXSIZE:
            raise Throw()
        return "ok"
    if op == "rv":
        return None
    if op == "ra":
        i, n, b = I(1), I(2), B(3)
        need_room(vals[i], n); vals[i] += b; return "ok"
    if op in ("af", "pf"):
        i, fi, d, b = I(1), I(2), I(3), B(4)
        d %= 100000
        out = [b"", b, b"<" + b + b">", b + b, b"%", str(d).encode() + b":" + b][fi]
        if op == "af":
            need_room(vals[i], len(out)); vals[i] += out
        else:
            vals[i] = out
        return "ok"
    if op in ("fa", "fp"):
        i, j = I(1), I(2)
        out = vals[j].split(b"\0")[0]       # what "%.*s" prints
        if op == "fa":
            need_room(vals[i], len(out)); vals[i] = vals[i] + out
        else:
            vals[i] = out
        return "ok"
    # ---- queries ----
    a = vals[I(1)]
    if op == "ln":
        return str(len(a))
    if op == "at":
        if I(2) >= len(a):
            raise Throw()
        return str(a[I(2)])
    if op == "cm":
        b, ci, n = vals[I(2)], I(3), I(4)
        x, y = (a, b) if n == NPOS else (a[:n], b[:n])
        if ci:
            x, y = lower(x), lower(y)
        return sgn(cmp_bytes(x, y))
    if op == "eq":
        return "1" if a == vals[I(2)] else "0"
    if op == "sw":
        b, ci = vals[I(2)], I(3)
        return "1" if (lower(a).startswith(lower(b)) if ci else a.startswith(b)) else "0"
    if op == "fc":
        c, p = I(2), I(3)
        return posr(a.find(bytes([c]), p)) if p <= len(a) else "npos"
    if op == "fs":
        b, p = vals[I(2)], I(3)
        return posr(a.find(b, p)) if p <= len(a) else "npos"
    if op == "Rc":
        c, p = I(2), I(3)
        if not a:
            return "npos"
        return posr(a.rfind(bytes([c]), 0, min(p, len(a) - 1) + 1))
    if op == "Rs":
        b, p = vals[I(2)], I(3)
        if len(b) > len(a):
            return "npos"
        return posr(a.rfind(b, 0, min(p, len(a) - len(b)) + len(b)))
    if op in ("ff", "fn"):
        st, p = set(B(2)), I(3)
        want = op == "ff"
        for k in range(min(p, len(a)), len(a)):
            if (a[k] in st) == want:
                return str(k)
        return "npos"
    if op in ("fl", "fm"):
        st, p = set(B(2)), I(3)
        want = op == "fl"
        if not a:
            return "npos"
        for k in range(min(p, len(a) - 1), -1, -1):
            if (a[k] in st) == want:
                return str(k)
        return "npos"
    if op == "cp":
        return hx(a[:min(I(2), 1 << 20)])
    if op == "cc":
        s, ci, n = B(2), I(3), I(4)
        x, y = a[:n], s[:n]
        if ci:
            x, y = lower(x), lower(y)
        return sgn(cmp_bytes(x, y))
    raise ValueError("unknown op " + op)


def parse_internals(tok, K):
    vs, bs = tok.split("#")
    views = [tuple(int(x) for x in v.split(".")) for v in vs.split(":")]
    blobs = [tuple(int(x) for x in b.split(".")) for b in bs.split(":")]
    return views, blobs


def judge(line, impl):
    """-> None, or (index of the first failing op, message)"""
    toks = line.split(" ")
    K = int(toks[1])
    ops = [t for t in toks[3:] if t]
    if impl is None or impl.startswith("abort:"):
        return (len(ops), "sanitizer/abort: %s" % impl)
    if impl in ("bad-op", "empty", "wrong-alloc-mode"):
        return None
    outs = impl.split(" ")
    vals = [b""] * K
    for k, tok in enumerate(ops):
        if k >= len(outs):
            return (k, "output ends early")
        f = tok.split(",")
        parts = outs[k].split("|")
        if len(parts) != 3:
            return (k, "unparsable output %r" % outs[k][:60])
        res, changes, internals = parts
        before = list(vals)
        try:
            want = ref_apply(vals, f)
        except Throw:
            want = "throw"
            vals = before
        if changes == "corrupt":
            return (k, "after %s an object's area leaves the used part of its blob (%s)" % (tok, internals))
        if want is not None and res != want:
            return (k, "%s returned %s, independent values give %s" % (tok, res, want))
        got = {}
        if changes:
            for c in changes.split(","):
                i, h = c.split("=")
                got[int(i)] = unhx(h)
        exp = {i: vals[i] for i in range(K) if vals[i] != before[i]}
        if got != exp:
            bad = sorted(set(got) ^ set(exp)) or sorted(i for i in got if got[i] != exp[i])
            return (k, "after %s object %d holds %s, independent values give %s" % (
                tok, bad[0], hx(got.get(bad[0], before[bad[0]]))[:80], hx(vals[bad[0]])[:80]))
        # memory discipline, from the real object fields alone
        try:
            views, blobs = parse_internals(internals, K)
        except Exception:
            return (k, "unparsable internals %r" % internals[:60])
        refs = [0] * len(blobs)
        for (b, off, ln) in views:
            size, cap, _r = blobs[b]
            if off + ln > size or size > cap:
                return (k, "after %s: off+len %d > size %d or size > capacity %d" % (tok, off + ln, size, cap))
            refs[b] += 1
        refs[0] += 1
        for b, (size, cap, r) in enumerate(blobs):
            if r != refs[b]:
                return (k, "after %s: blob %d has LockCount %d but %d referrers" % (tok, b, r, refs[b]))
        for i, (b, off, ln) in enumerate(views):
            if ln != len(vals[i]):
                return (k, "after %s: object %d length field %d but %d bytes" % (tok, i, ln, len(vals[i])))
    return None


def oracle(line, impl):
    j = judge(line, impl)
    return None if j is None else "op#%d: %s" % j


def compare(line, impl, model):
    if impl == model:
        return True
    if impl is None or model is None:
        return False
    # the model stops at undefined behaviour: anything is allowed from there on
    ms = model.split(" ")
    if ms and ms[-1] == "ub":
        return impl.split(" ")[:len(ms) - 1] == ms[:-1]
    return False


# ------------------------------------------------------------------------------------------------------------------
# known findings
# ------------------------------------------------------------------------------------------------------------------
def _known_status():
    try:
        with open(os.path.join(VERIF, "known_findings.d", "C48.json")) as f:
            return {e["id"]: e["status"] for e in json.load(f)["findings"]}
    except Exception:
        return {}


def trigger(vals, f):
    """the known-finding region the op `f` falls into, given the independent values before it (or None)"""
    op = f[0]
    I = lambda k: int(f[k])
    if op in ("ch", "ss"):
        a = vals[I(1)] if op == "ch" else vals[I(2)]
        pos, n = (I(2), I(3)) if op == "ch" else (I(3), I(4))
        if pos == NPOS or pos > len(a):
            pos = len(a)
        if n != NPOS and pos + n >= W:
            return "C48-chop-length-wraps"
    if op == "ra":
        if I(2) == 0:
            return "C48-rawappend-zero-shrinks-shared-blob"
        if len(vals[I(1)]) + I(2) >= NPOS:      # (minSpace + length()) wraps or equals npos, the "default" argument of cow()
            return "C48-rawspace-beyond-maxsize-no-throw"
    if op in ("af", "pf") and I(2) == 0:
        return "C48-empty-format-writes-terminator-into-shared-bytes"
    if op == "cm":
        ci = I(3)
        if ci and (0xff in vals[I(1)] or 0xff in vals[I(2)]):
            return "C48-casecmp-byte-ff-sorts-first"
    if op == "cc":
        a, s = vals[I(1)], unhx(f[2])
        if 0 in a or any(c >= 0x80 for c in a) or any(c >= 0x80 for c in s):
            return "cc"        # resolved by classify() from the value the code returned
    return None


def classify(line, impl, why):
    m = re.match(r"op#(\d+): ", why or "")
    if not m:
        return None
    k = int(m.group(1))
    toks = line.split(" ")
    K = int(toks[1])
    ops = [t for t in toks[3:] if t]
    if k >= len(ops):
        # the process died: the culprit is the first op in a known region (only the memory-unsafe ones can kill it)
        vals = [b""] * K
        for tok in ops:
            f = tok.split(",")
            t = trigger(vals, f)
            if t in ("C48-chop-length-wraps", "C48-rawappend-zero-shrinks-shared-blob"):
                return t
            try:
                ref_apply(vals, f)
            except Throw:
                pass
            except Exception:
                return None
        return None
    vals = [b""] * K
    for tok in ops[:k]:
        before = list(vals)
        try:
            ref_apply(vals, tok.split(","))
        except Throw:
            vals = before
    t = trigger(vals, ops[k].split(","))
    if t == "cc":
        f = ops[k].split(",")
        try:
            got = impl.split(" ")[k].split("|")[0]
        except Exception:
            return None
        a, s, ci, n = vals[int(f[1])], unhx(f[2]), int(f[3]), int(f[4])
        if got == sgn(cstring_compare(a, s, ci, n, signed=False)):
            return "C48-cstring-compare-stops-at-nul"      # what an unsigned-char C-string comparison answers
        if got == sgn(cstring_compare(a, s, ci, n, signed=True)):
            return "C48-cstring-compare-signed"
        return None
    return t


def cstring_compare(a, s, ci, n, signed):
    """strncmp-like comparison of the C-string view of `a` (ends at its first NUL) with the C string `s`, at most n characters"""
    def val(c):
        if signed and c >= 128:
            c -= 256
        if ci:
            if c == -1:
                return -1
            c &= 0xff
            return c + 32 if 65 <= c <= 90 else c
        return c
    a = a.split(b"\0")[0]
    x, y = a[:n] + b"\0", s[:n] + b"\0"
    for k in range(min(n, max(len(x), len(y)))):
        p = x[k] if k < len(x) else 0
        q = y[k] if k < len(y) else 0
        d = val(p) - val(q)
        if d or p == 0:
            return d
    return 0


# ------------------------------------------------------------------------------------------------------------------
# generators
# ------------------------------------------------------------------------------------------------------------------
ALPHA = b"abcXYZ \t-0"
WORDS = [b"", b"a", b"B", b"ab", b"Hello", b" \t", b"xx", b"abcabc", b"HTTP/1.1", b"\r\n", b"\0", b"a\0b", b"\xff", b"\x80z", b"Content-Length"]


class Gen:
    """grammar-directed generator that tracks the independent values, so that arguments can aim at the
    interesting places (ends, lengths ±1, existing bytes) and known-finding regions can be avoided or targeted"""

    def __init__(self, rng, K, avoid, maxlen=80):
        self.r = rng
        self.K = K
        self.vals = [b""] * K
        self.avoid = avoid
        self.maxlen = maxlen
        self.ops = []

    def var(self):
        return self.r.below(self.K)

    def nonempty_var(self):
        c = [i for i in range(self.K) if self.vals[i]]
        return self.r.choice(c) if c else self.var()

    def data(self):
        r = self.r
        k = r.below(10)
        if k < 4:
            return r.choice(WORDS)
        if k < 8:
            return r.bytes(r.range(1, 12), ALPHA)
        if k == 8:
            return r.bytes(r.range(1, 8))
        return r.bytes(r.choice([31, 32, 33, 63, 64, 65, 100]), ALPHA)

    def pos(self, i, wild=True):
        """a size_type argument relative to object i"""
        r = self.r
        n = len(self.vals[i])
        k = r.below(12)
        if k < 5:
            return r.range(0, n) if n else 0
        if k == 5:
            return n
        if k == 6:
            return n + 1
        if k == 7:
            return max(0, n - 1)
        if k == 8:
            return NPOS
        if k == 9:
            return 0
        if not wild:
            return r.range(0, n + 2)
        return r.choice([NPOS - 1, NPOS - n, MAXSIZE, MAXSIZE + 1, 1 << 31, (1 << 31) - 1, W - n - 1 if n else NPOS - 1, 0x7fffffff, 65536, n + 2])

    def count(self, i):
        return self.pos(i)

    def emit(self, tok):
        f = tok.split(",")
        t = trigger(self.vals, f)
        if t == "cc":
            t = "C48-cstring-compare-signed" if ("C48-cstring-compare-signed" in self.avoid or "C48-cstring-compare-stops-at-nul" not in self.avoid) else "C48-cstring-compare-stops-at-nul"
            if not ({"C48-cstring-compare-signed", "C48-cstring-compare-stops-at-nul"} & self.avoid):
                t = None
        if t and t in self.avoid:
            return False
        if f[0] in ("lo", "up", "tr") and len(self.vals[int(f[1])]) > 2000:
            return False     # per-byte copy-on-write checks: quadratic in the list model, nothing new beyond 2 KB
        before = list(self.vals)
        try:
            ref_apply(self.vals, f)
        except Throw:
            self.vals = before
        if any(len(v) > 70000 for v in self.vals):
            self.vals = before
            return False
        self.ops.append(tok)
        return True

    def mutate_op(self):
        r = self.r
        i = self.var()
        j = self.var()
        k = r.below(34)
        v = self.vals
        if k == 0: return "n,%d" % i
        if k in (1, 2): return "A,%d,%d" % (i, j)
        if k == 3: return "ab,%d,%s" % (i, hx(self.data()))
        if k == 4: return "ar,%d,%d,%d,%d" % (i, j, self.pos(j), self.count(j))
        if k in (5, 6): return "pb,%d,%s" % (i, hx(self.data()))
        if k in (7, 8): return "ps,%d,%d" % (i, j)
        if k == 9: return "ps,%d,%d" % (i, i)
        if k == 10: return "pr,%d,%d,%d,%d" % (i, r.choice([i, j]), self.pos(j), self.count(j))
        if k == 11: return "pc,%d,%d" % (i, r.choice([0, 65, 97, 255, r.below(256)]))
        if k == 12: return "cl,%d" % i
        if k in (13, 14): return "ch,%d,%d,%d" % (i, self.pos(i), self.count(i))
        if k in (15, 16, 17): return "ss,%d,%d,%d,%d" % (i, r.choice([i, j, self.nonempty_var()]), self.pos(j), self.count(j))
        if k in (18, 19): return "co,%d,%d,%d" % (i, r.choice([i, j, self.nonempty_var()]), self.count(j))
        if k == 20: return "tr,%d,%d,%d" % (self.nonempty_var(), j, r.below(4))
        if k == 21:
            ii = self.nonempty_var()
            return "sa,%d,%d,%d" % (ii, self.pos(ii, wild=False), r.below(256))
        if k == 22: return "lo,%d" % self.nonempty_var()
        if k == 23: return "up,%d" % self.nonempty_var()
        if k == 24: return "cs,%d" % i
        if k == 25: return "rs,%d,%d" % (i, r.choice([0, 1, 7, 31, 32, 33, 100, r.below(200)]))
        if k == 26: return "rc,%d,%d" % (i, r.choice([0, 1, len(v[i]), len(v[i]) + 1, 32, 33, 64, 200, r.below(300)]))
        if k == 27: return "rv,%d,%d,%d,%d,%d" % (i, r.choice([0, 10, 100]), r.choice([0, 1, 20, 64]), r.choice([MAXSIZE, 4096, len(v[i]), 16]), r.below(2))
        if k in (28, 29):
            d = self.data()[:20]
            n = r.choice([len(d), len(d) + 1, len(d) + 30, 0, 64])
            if n < len(d): d = d[:n]
            return "ra,%d,%d,%s" % (i, n, hx(d))
        if k == 30:
            d = self.data().replace(b"\0", b"0")
            return "%s,%d,%d,%d,%s" % (r.choice(["af", "af", "pf"]), i, r.below(6), r.below(1000), hx(d))
        if k == 31: return "%s,%d,%d" % (r.choice(["fa", "fa", "fp"]), i, r.choice([i, j]))
        if k == 32: return "ar,%d,%d,%d,%d" % (i, i, self.pos(i), self.count(i))
        return "pr,%d,%d,%d,%d" % (i, i, self.pos(i), self.count(i))

    def query_op(self):
        r = self.r
        i = self.var()
        j = self.var()
        v = self.vals
        k = r.below(16)
        anyb = lambda s: (s[r.below(len(s))] if s else r.below(256))
        if k == 0: return "ln,%d" % i
        if k == 1: return "at,%d,%d" % (i, self.pos(i, wild=False))
        if k in (2, 3): return "cm,%d,%d,%d,%d" % (i, j, r.below(2), r.choice([NPOS, NPOS, 0, 1, len(v[i]), len(v[j]), r.below(10)]))
        if k == 4: return "eq,%d,%d" % (i, j)
        if k == 5: return "sw,%d,%d,%d" % (i, j, r.below(2))
        if k == 6: return "fc,%d,%d,%d" % (i, anyb(v[i]), self.pos(i))
        if k == 7: return "fs,%d,%d,%d" % (i, j, self.pos(i))
        if k == 8: return "Rc,%d,%d,%d" % (i, anyb(v[i]), self.pos(i))
        if k == 9: return "Rs,%d,%d,%d" % (i, j, self.pos(i))
        if k in (10, 11, 12, 13):
            st = bytes(set(r.choice([v[j][:6], b" \t", b"abc", self.data()[:5], b""])))
            return "%s,%d,%s,%d" % (["ff", "fn", "fl", "fm"][k - 10], i, hx(st), self.pos(i))
        if k == 14: return "cp,%d,%d" % (i, self.pos(i))
        s = r.choice([v[j], v[i], v[i][:-1], v[i] + b"x", self.data()]).replace(b"\0", b"")
        return "cc,%d,%s,%d,%d" % (i, hx(s), r.below(2), r.choice([NPOS, NPOS, 0, 1, len(v[i]), len(s), r.below(8)]))

    def history(self, n, qratio=3):
        tries = 0
        while len(self.ops) < n and tries < 6 * n:
            tries += 1
            self.emit(self.query_op() if self.r.below(10) < qratio else self.mutate_op())

    def line_for(self, alloc):
        return "s %d %s %s" % (self.K, alloc, " ".join(self.ops))


def _line(K, alloc, ops):
    return "s %d %s %s" % (K, alloc, " ".join(ops))


def small_scope(tier):
    """every history of length 3 (quick: a thinner set) over a small alphabet of aliasing operations on 2 objects,
    each followed by observations; this is where copy-on-write bugs live"""
    base = ["ab,0,616263444546", "A,1,0"]
    alpha = ["A,1,0", "A,0,1", "ss,1,0,1,3", "ss,0,0,2,4294967295", "co,1,0,2", "ch,0,1,2", "ch,1,0,2", "pb,0,58", "pb,1,59", "ps,0,1", "ps,1,1",
             "pr,0,0,1,2", "ar,1,1,1,2", "sa,1,0,90", "lo,0", "up,1", "cs,0", "cs,1", "rs,1,8", "rc,0,3", "ra,1,4,7a", "cl,0", "tr,0,1,3",
             "fa,0,1", "fp,1,1", "n,0", "pc,1,0"]
    if tier != "thorough":
        alpha = alpha[::2]
    depth = 3 if tier == "thorough" else 2
    tail = ["ln,0", "ln,1", "eq,0,1"]

    def rec(prefix, d):
        if d == 0:
            yield prefix
            return
        for a in alpha:
            yield from rec(prefix + [a], d - 1)
    for alloc in ("x", "c"):
        for seq in rec([], depth):
            yield _line(2, alloc, base + seq + tail)


BOUNDARY = [
    # limits: requests beyond maxSize must throw and change nothing
    "s 2 x ab,0,6162 rs,0,268435455 rs,0,268435454 ln,0 rc,0,268435456 rs,0,268435456 rs,0,4294967295 rc,0,4294967295 ln,0",
    "s 2 c ab,0,6162 A,1,0 rs,1,268435454 rc,1,268435456 ra,1,268435454,61 ln,1 eq,0,1",
    "s 1 x ab,0,616263 ra,0,268435453,- ra,0,268435452,6162 ln,0",
    "s 1 c rv,0,0,4294967295,268435455,1 rv,0,4294967295,0,16,0 ab,0,6162 rv,0,0,4294967295,4294967295,0 ln,0",
    "s 2 x ab,0,616263 ch,0,4294967295,4294967295 ab,0,616263 ch,0,0,4294967295 ch,0,3,0 ab,0,616263 ch,0,4,1 ab,0,616263 ch,0,1,4294967294 ln,0",
    "s 2 c ab,0,616263 ss,1,0,4294967295,0 ss,1,0,3,4294967295 ss,1,0,2,2 ss,1,0,0,268435455 co,1,0,4294967295 co,1,0,0 ln,0 ln,1",
    "s 2 x ab,0,616263 at,0,3 at,0,2 at,0,4294967295 sa,0,3,65 sa,0,4294967295,65 sa,0,2,65 cp,0,4294967295 cp,0,0",
    "s 2 c ab,0,61626361 fc,0,97,4 fc,0,97,5 fc,0,97,4294967295 Rc,0,97,0 Rc,0,97,4294967295 Rc,0,97,3 Rc,0,97,4 fs,0,1,4 fs,0,1,5 Rs,0,1,4294967295 Rs,0,1,0",
]

# witnesses of the known findings (also in corpus/C48/known.txt); emitted last, a few per run
KNOWN_WITNESSES = [
    "s 1 x ab,0,6162636465666768 ch,0,2,4294967294 ln,0",
    "s 2 c ab,0,616263646566 ss,1,0,2,4294967295 ss,1,1,2,4294967294 ln,1",
    "s 2 x ab,0,616263646566 ss,1,0,0,3 ra,1,0,- pb,1,58595a ln,0",
    "s 2 c ab,0,616263646566 ss,1,0,0,3 af,1,0,0,- ln,0",
    "s 2 c ab,0,616263646566 ss,1,0,0,3 pf,1,0,0,- ln,0",
    "s 1 x ab,0,6162636465666768696a6b6c6d6e6f707172737475767778797a414243444546 ra,0,4294967280,- ln,0",
    "s 2 x ab,0,ff ab,1,00 cm,0,1,1,4294967295",
    "s 1 x ab,0,61 cc,0,80,0,1",
    "s 1 x ab,0,610062 cc,0,61,0,4294967295",
]


def cases(rng, tier):
    status = _known_status()
    avoid = {fid for fid, st in status.items() if st == "known"}
    thorough = tier == "thorough"
    for l in BOUNDARY:
        yield l
    yield from small_scope(tier)
    # valid stream: long aliasing histories, mostly mutations
    nhist = 6000 if thorough else 700
    for n in range(nhist):
        r = rng.fork("h%d" % n)
        K = r.choice([1, 2, 2, 3, 3, 4, 5, 6])
        g = Gen(r, K, avoid)
        g.history(r.choice([6, 12, 25, 40]), qratio=r.choice([1, 3, 5]))
        if g.ops:
            yield g.line_for("c" if r.below(3) else "x")
    # boundary stream: wild arguments everywhere, short histories (an early failure hides little)
    for n in range(2500 if thorough else 300):
        r = rng.fork("b%d" % n)
        g = Gen(r, r.choice([1, 2, 3]), avoid)
        g.emit("ab,0,%s" % hx(r.bytes(r.choice([1, 5, 31, 32, 33, 64]), ALPHA)))
        if g.K > 1:
            g.emit(r.choice(["A,1,0", "ss,1,0,1,%d" % NPOS, "ss,1,0,0,3"]))
        for _ in range(r.range(1, 5)):
            i = g.var(); j = g.var()
            big = r.choice([NPOS, NPOS - 1, MAXSIZE, MAXSIZE - 1, MAXSIZE + 1, W - len(g.vals[i]), W - len(g.vals[i]) - 1, 1 << 31, 0, 1])
            ln = len(g.vals[i])
            throwing = big if (big > MAXSIZE or (ln + big > MAXSIZE)) else 3      # only requests that must be refused: no 256 MB blobs here
            tok = r.choice([
                "ch,%d,%d,%d" % (i, r.choice([0, 1, big]), big), "ss,%d,%d,%d,%d" % (i, j, r.choice([0, 1, big]), big),
                "co,%d,%d,%d" % (i, j, big), "rs,%d,%d" % (i, throwing), "rc,%d,%d" % (i, big if big > MAXSIZE else 5),
                "ra,%d,%d,61" % (i, throwing), "rv,%d,%d,%d,%d,%d" % (i, big, big, r.choice([16, 64, ln + 5]), r.below(2)),
                "ar,%d,%d,%d,%d" % (i, j, big, big), "pr,%d,%d,%d,%d" % (i, j, r.choice([0, big]), big),
                "cm,%d,%d,%d,%d" % (i, j, r.below(2), big), "fc,%d,97,%d" % (i, big), "Rs,%d,%d,%d" % (i, j, big), "fl,%d,6162,%d" % (i, big),
                "cp,%d,%d" % (i, big), "at,%d,%d" % (i, big), "sa,%d,%d,65" % (i, big),
            ])
            g.emit(tok)
        g.emit("ln,0")
        if g.ops:
            yield g.line_for(r.choice(["x", "c"]))
    # mutation stream: take a history, duplicate / drop / splice ops, retarget objects
    for n in range(2000 if thorough else 250):
        r = rng.fork("m%d" % n)
        K = r.choice([2, 3, 4])
        g1 = Gen(r, K, set()); g1.history(15)
        g2 = Gen(r.fork("x"), K, set()); g2.history(15)
        ops = list(g1.ops)
        for _ in range(r.range(1, 4)):
            k = r.below(4)
            if not ops:
                break
            p = r.below(len(ops))
            if k == 0: ops.insert(p, ops[p])
            elif k == 1: del ops[p]
            elif k == 2: ops[p:p] = g2.ops[:r.range(1, 5)]
            else: ops = ops[:p] + g2.ops[p:]
        # replay through a generator so that known regions are filtered against the *actual* values
        g = Gen(r, K, avoid)
        for tok in ops:
            try:
                g.emit(tok)
            except Exception:
                pass
        if g.ops:
            yield g.line_for(r.choice(["x", "c"]))
    # big blobs: histories whose strings cross the size classes (2 KB .. 64 KB) and exceed the largest class
    for n in range(60 if thorough else 8):
        r = rng.fork("g%d" % n)
        g = Gen(r, 3, avoid)
        size = r.choice([2047, 2048, 4096, 65535, 65536, 65537])
        g.emit("ab,0,%s" % hx(r.bytes(size, ALPHA)))
        g.emit("A,1,0"); g.emit("ss,2,0,%d,%d" % (size // 2, NPOS))
        g.history(12)
        yield g.line_for("c")
    # known findings last
    for l in KNOWN_WITNESSES:
        yield l
    for n in range(40 if thorough else 6):
        r = rng.fork("k%d" % n)
        g = Gen(r, 2, set())
        g.emit("ab,0,%s" % hx(r.bytes(r.range(4, 40), ALPHA))); g.emit("ss,1,0,0,%d" % r.range(1, 3))
        i = r.below(2)
        g.emit(r.choice(["ch,%d,%d,%d" % (i, r.range(1, 3), NPOS - r.range(0, 2)), "ra,1,0,-", "af,1,0,0,-", "pf,%d,0,0,-" % i,
                         "ra,%d,%d,-" % (i, NPOS - r.range(1, 3))]))
        g.emit("pb,1,5a"); g.emit("ln,0")
        yield g.line_for(r.choice(["x", "c"]))


# ------------------------------------------------------------------------------------------------------------------
def nontrivial(line, impl, model):
    """some writing operation went through an object whose blob another object shared just before"""
    if not impl or impl.startswith("abort") or "|" not in impl:
        return False
    WR = ("pb", "ps", "pr", "pc", "sa", "lo", "up", "cs", "ra", "af", "pf", "fa", "fp", "ab", "ar", "rs", "rc", "cl", "tr", "ch")
    toks = [t for t in line.split(" ")[3:] if t]
    outs = impl.split(" ")
    prev = None
    for tok, o in zip(toks, outs):
        parts = o.split("|")
        if len(parts) != 3:
            break
        views = parts[2].split("#")[0].split(":")
        if prev is not None:
            f = tok.split(",")
            if f[0] in WR:
                i = int(f[1])
                b = prev[i].split(".")[0]
                if b != "0" and sum(1 for v in prev if v.split(".")[0] == b) > 1:
                    return True
        prev = views
    return False


def tag(line, impl, model):
    toks = line.split(" ")
    n = len(toks) - 3
    size = "1-4" if n <= 4 else "5-12" if n <= 12 else "13-25" if n <= 25 else ">25"
    if impl and impl.startswith("abort"):
        kind = "abort"
    elif impl and "|corrupt|" in impl:
        kind = "corrupt"
    elif impl and "throw|" in impl:
        kind = "with-throw"
    else:
        kind = "plain"
    return "K=%s alloc=%s ops=%s %s" % (toks[1], toks[2], size, kind)


def shrink(line):
    """drop operations (big steps first), then shorten byte strings; numbers are left alone (they are decimal)"""
    toks = line.split(" ")
    head, ops = toks[:3], toks[3:]
    n = len(ops)
    step = max(1, n // 2)
    while step >= 1:
        for off in range(0, n, step):
            cand = ops[:off] + ops[off + step:]
            if cand:
                yield " ".join(head + cand)
        step //= 2
    where = {"ab": 2, "pb": 2, "af": 4, "pf": 4}
    for k, tok in enumerate(ops):
        f = tok.split(",")
        q = where.get(f[0])
        if q is not None and q < len(f) and len(f[q]) >= 4:
            a = f[q]
            for cut in (len(a) // 4 * 2, 2):
                g = list(f)
                g[q] = a[:len(a) - cut] or "-"
                yield " ".join(head + ops[:k] + [",".join(g)] + ops[k + 1:])


def exhaustive(tier):
    return tier == "thorough"   # all length-3 histories over the 27-operation aliasing alphabet, both policies


KNOWN_MUST_MATCH_MODEL = True   # inside a known finding's region the observation must still equal the model's (which reproduces the listed defect); see lib/vf/run.py
