"""C56 Inter-process queues are FIFO without lost items or wakeups (lock-free protocol, scheduler-controlled atomics)."""
import os, re, itertools
from vf.util import VERIF
from vf.harness import ProcHarness
from vf import ipccopy

ID = "C56"
PROP_MODULE = "SquidModel.Properties.C56"
MODEL = "c56"
GEN = ["queue_cfg"]
RULE = ("scenario = capacity x initial index (0, or just below 2^32 so that the unsigned indices wrap) x the producer's push sequence (distinct or repeated "
        "values, up to and beyond capacity, oversized items) x a schedule that picks which of producer/consumer performs its next single atomic "
        "operation or slot memcpy (random, bursts, producer-first, consumer-first, every schedule with at most 3 (quick) / 4 (thorough) context switches, "
        "every 0/1 prefix of length 10 (quick) or 14 (thorough)); afterwards both threads alternate until nothing can move. The full memory-operation trace (thread, object, kind, "
        "old, new), push results, delivered values, final flags/indices/slots are compared with the model (trace validation); the direct oracle "
        "watches the API of the real code at every step. non-trivial = both threads performed operations and at least one item was delivered; "
        "distinct = distinct scenario lines")
TRUSTED = ["sequentially consistent atomics",
           "textual instrumentation std::atomic -> verif::atomic of a copy of src/ipc/Queue.{h,cc}; ucontext coroutine scheduler (no ASan, UBSan only)",
           "the notification channel (UDS message in squid) is a counter of notifications in flight: reliable, unordered with respect to memory operations",
           "textual instrumentation memcpy -> verif56::slot_memcpy (harness/c56_memcpy.h) of the copied Queue.h: the slot accesses are scheduling points and trace events as well; "
           "the private index updates theIn++/theOut++ run together with the preceding operation (they are private to one side)"]
ASSUMPTIONS = ["exactly one producer and one consumer per queue and per QueueReader (squid shares one QueueReader among all queues towards a process; not modelled)",
               "the consumer handles a notification only between pop loops, calls clearSignal() first and then pops until pop() returns false",
               "FIFO part: the capacity divides 2^32 (true for every capacity in the tree: translate/queue_cfg.py); otherwise see finding C56-index-wrap-nonpow2"]
MANIFEST = {
    "text": "full for the wake-up protocol, partial for FIFO (proved when the capacity divides 2^32, as every capacity in the tree does: tree_capacities_ok; "
            "otherwise false: fifo_counterexample, fifo_counterexample_from_fresh_queue). For every reachable state of one producer (pushing any values at any "
            "time, Full included) and one consumer (squid's pop-until-empty / wait / clearSignal loop) under any interleaving of single memory operations, any "
            "capacity, any earlier traffic: fifo_no_dup_no_loss_partial, received_is_prefix_partial, all_delivered_at_rest(_partial), never_asleep_with_items, "
            "producer_alone_delivers_wakeup, idle_on_empty_next_push_notifies, notification_wakes_consumer, consumer_alone_delivers_everything, "
            "at_most_one_notification, slots_disjoint_partial (data-race freedom of the slot array), size_in_range, window_bounded, via an inductive invariant "
            "(inv_stepP, inv_stepC). The model's memory operations are validated against the real code by replaying scheduler-controlled executions of an "
            "instrumented copy of Queue.h/Queue.cc and comparing the complete operation trace (atomic operations and slot memcpy()s).",
    "note": "trusted: Lean kernel; SC memory model; the textual instrumentation and coroutine scheduler; API-level oracle in harness/c56.cc. Not modelled: weak-memory "
            "effects, several queues sharing one QueueReader (FewToFewBiQueue/MultiQueue with more than one remote), push/pop without a reader, peek()/stat*(), rate "
            "limiting, a process restarting on an inherited queue",
    "technique": "Lean 4 inductive invariant over interleavings + variant function for consumer progress + trace validation against scheduler-controlled real code",
}

W = 1 << 32


def build_exe(stage):
    root = ipccopy.make_copies(stage, ["ipc/Queue.h", "ipc/Queue.cc"])
    # the slot accesses of push()/pop() become scheduling points too (harness/c56_memcpy.h)
    qh = os.path.join(root, "ipc/Queue.h")
    with open(qh) as f:
        text = f.read()
    with open(qh, "w") as f:
        f.write('#include "c56_memcpy.h"\n' + re.sub(r"\bmemcpy\s*\(", "verif56::slot_memcpy(", text))
    fl = ipccopy.flags(root)
    ub = ["-fsanitize=undefined", "-fno-sanitize-recover=all"]
    objs = [stage.compile(os.path.join(root, "ipc/Queue.cc"), sanitize=False, pre=fl, extra=ub),
            stage.compile(os.path.join(VERIF, "harness/c56.cc"), sanitize=False, pre=fl, extra=ub),
            stage.compile(os.path.join(VERIF, "harness/verif_sched.cc"), sanitize=False, pre=fl)]
    return stage.link_plain(objs, os.path.join(stage.work, "c56"), sanitize=False, libs=["-fsanitize=undefined"])


def build(stage):
    return ProcHarness([build_exe(stage)])


# ---------------------------------------------------------------- generators
def fmt(cap, start, ops, sched):
    return "%d %d %s %s" % (cap, start, ",".join(ops) if ops else "-", ",".join(map(str, sched)) if sched else "-")


def is_pow2(n):
    return n > 0 and n & (n - 1) == 0


def gen_values(rng, k):
    m = rng.below(6)
    if m == 0:
        return list(range(1, k + 1))
    if m == 1:
        return [rng.range(0, 9) for _ in range(k)]                 # repeated values: duplicates must be delivered as often as pushed
    if m == 2:
        return [rng.choice([0, 1, 2147483647, 2147483646, 65536, 255]) for _ in range(k)]
    if m == 3:
        return [7] * k
    return [rng.range(0, 999999) for _ in range(k)]


def gen_ops(rng, cap):
    m = rng.below(10)
    if m < 5:
        k = rng.range(1, cap)                                      # the quantifier's range: k up to capacity
    elif m < 8:
        k = rng.range(cap, 2 * cap + 2)                            # beyond capacity: Full paths, slot reuse
    else:
        k = rng.range(0, 3)
    k = min(k, 24)
    ops = ["P%d" % v for v in gen_values(rng, k)]
    if rng.chance(1, 8):
        ops.insert(rng.range(0, len(ops)), "L")
    return ops


def gen_schedule(rng, steps):
    k = rng.below(7)
    if k == 0:
        return [rng.below(2) for _ in range(steps)]
    if k == 1:      # bursts
        out = []
        while len(out) < steps:
            out += [rng.below(2)] * rng.range(1, 7)
        return out[:steps]
    if k == 2:      # alternate with perturbation
        return [(i + (1 if rng.chance(1, 5) else 0)) % 2 for i in range(steps)]
    if k == 3:      # producer runs ahead
        return [0] * rng.range(1, steps // 2 + 1) + [rng.below(2) for _ in range(steps // 2)]
    if k == 4:      # consumer goes to sleep first
        return [1] * rng.range(3, 8) + [rng.below(2) for _ in range(steps)]
    if k == 5:      # biased
        num = rng.range(1, 4)
        return [0 if rng.chance(num, 5) else 1 for _ in range(steps)]
    # consumer sleeps, producer is preempted inside one push, consumer runs, ...
    out = [1] * 5
    while len(out) < steps:
        out += [0] * rng.range(1, 6) + [1] * rng.range(0, 9)
    return out[:steps]


def gen_start(rng, cap, nops):
    m = rng.below(10)
    if m < 6:
        return 0
    if m < 8:
        return rng.range(0, 1000)
    if m == 8:
        return rng.choice([W // 2 - 1, W // 2, W - 1000, 65535, 65536])
    return W - rng.range(1, max(2, nops + 1))                      # the indices wrap during the scenario


def mutate(rng, line):
    cap, start, ops, sched = line.split(" ")
    sc = sched.split(",") if sched != "-" else []
    op = ops.split(",") if ops != "-" else []
    m = rng.below(6)
    if m == 0 and sc:
        i = rng.below(len(sc)); sc[i] = "1" if sc[i] == "0" else "0"
    elif m == 1 and sc:
        i = rng.below(len(sc)); sc = sc[:i] + sc[i:i + 1] * rng.range(2, 6) + sc[i + 1:]
    elif m == 2 and sc:
        sc = sc[:rng.below(len(sc))]
    elif m == 3 and op:
        i = rng.below(len(op)); op = op[:i] + [op[i]] + op[i:]
    elif m == 4 and len(sc) > 2:
        i = rng.below(len(sc) - 1); j = rng.range(i + 1, len(sc)); sc = sc[:i] + sc[j:] + sc[i:j]
    else:
        op.insert(rng.below(len(op) + 1), "L")
    return "%s %s %s %s" % (cap, start, ",".join(op) if op else "-", ",".join(sc) if sc else "-")


def switches(ops, cap, start, maxrun, nruns, first):
    """every schedule made of `nruns` alternating runs of length 0..maxrun (at most nruns-1 context switches)"""
    for runs in itertools.product(range(maxrun + 1), repeat=nruns):
        sched = []
        t = first
        for r in runs:
            sched += [t] * r
            t = 1 - t
        yield fmt(cap, start, ops, sched)


def cases(rng, tier):
    thorough = tier == "thorough"
    n_rand = 40000 if thorough else 3500
    prev = None
    for i in range(n_rand):
        if prev is not None and rng.chance(1, 6):
            line = mutate(rng, prev)
        else:
            cap = rng.choice([1, 1, 2, 2, 2, 3, 4, 4, 4, 5, 6, 8, 8, 16, 64])
            ops = gen_ops(rng, cap)
            start = gen_start(rng, cap, len(ops))
            if not is_pow2(cap) and start + len(ops) + 1 >= W and not rng.chance(1, 4):
                start = 0                                           # keep the known-finding region to a small share
            steps = len(ops) * rng.range(4, 16) + rng.range(0, 12)
            line = fmt(cap, start, ops, gen_schedule(rng, steps))
        prev = line
        yield line
    # boundary: indices wrap exactly at / around each push, capacities 1..8 (non powers of two are the known-finding region)
    for cap in (1, 2, 4, 8, 3, 5, 6, 7):
        for back in range(0, cap + 2):
            ops = ["P%d" % v for v in range(1, cap + 3)]
            yield fmt(cap, W - 1 - back, ops, [0] * (5 * cap) + [1] * 20 + [0, 1] * 10)
    # bounded-exhaustive: every schedule with at most 3 (quick) / 4 (thorough) context switches
    sets = [(["P1", "P2"], 1, 0), (["P1", "P2", "P3"], 2, 0), (["P1", "P2"], 2, W - 1)]
    if thorough:
        sets += [(["P1", "P2", "P3"], 4, 0), (["P1", "P2", "P3", "P4"], 2, W - 2), (["P5", "P5", "P6"], 1, 0)]
    for ops, cap, start in sets:
        for first in (0, 1):
            yield from switches(ops, cap, start, 6, 5 if thorough else 4, first)
    # bounded-exhaustive: every 0/1 schedule prefix
    L = 14 if thorough else 10
    pre = [(["P1", "P2"], 1, []), (["P1", "P2", "P3"], 2, [1] * 5)] + ([(["P1", "P2"], 2, []), (["P1", "P2", "P3"], 1, [1] * 5 + [0] * 4)] if thorough else [])
    for ops, cap, lead in pre:
        for sched in itertools.product((0, 1), repeat=L):
            yield fmt(cap, 0, ops, lead + list(sched))


# ---------------------------------------------------------------- oracle (the property, on the real code's observations only)
def fields(impl):
    d = {}
    for tok in impl.split(" "):
        if "=" in tok:
            k, v = tok.split("=", 1)
            d[k] = v
    return d


def oracle(line, impl):
    if impl.startswith("abort") or impl == "bad-op":
        return "no usable observation: " + impl
    if impl.startswith("reject:"):
        return None
    d = fields(impl)
    viol = impl.rsplit(" viol=", 1)[-1]
    if viol != "-":
        return "API-level oracle on the real code: " + viol
    # independent re-check from the printed observations: the delivered values are exactly the accepted pushes, in order
    accepted = []
    for r in d.get("res", "-").rstrip(",").split(","):
        if r.startswith("P"):
            name, out = r.rsplit("=", 1) if r.count("=") == 1 else (r, "?")
            if out in ("0", "1"):
                accepted.append(name[1:])
            elif out != "F":
                return "unexpected push result " + r
        elif r not in ("-", "L=T"):
            return "unexpected result " + r
    recv = [] if d.get("recv", "-") == "-" else d["recv"].split(",")
    if recv != accepted:
        return "delivered %s but accepted pushes were %s" % (",".join(recv) or "-", ",".join(accepted) or "-")
    fin = d.get("final", "").split(",")
    if len(fin) != 6 or fin[0] != "0" or fin[3] != "0":
        return "items or notifications left at rest: final=" + d.get("final", "?")
    if fin[1] != "1" or fin[2] != "0":
        return "consumer sleeps on an empty queue but the next push would not notify: final=" + d.get("final", "?")
    return None


def nontrivial(line, impl, model):
    log = impl.split(" ")[0]
    return "0:" in log and "1:S.sub" in log


def tag(line, impl, model):
    cap, start, ops, sched = line.split(" ")
    d = fields(impl)
    res = d.get("res", "")
    wrap = "wrap" if int(start) + res.count("P") >= W else "nowrap"
    return "cap=%s %s full=%s notified=%s" % ("pow2" if is_pow2(int(cap)) else "other", wrap, "yes" if "=F" in res else "no",
                                               min(res.count("=1"), 3))


def classify(line, impl, why):
    try:
        cap, start, ops, sched = line.split(" ")
        cap, start = int(cap), int(start)
        npush = sum(1 for o in ops.split(",") if o.startswith("P"))
    except ValueError:
        return None
    if not is_pow2(cap) and start + npush >= W and ("fifo-violation" in why or "delivered" in why or "probe-item" in why or "data-race-on-slot" in why):
        return "C56-index-wrap-nonpow2"
    return None


def shrink(line):
    cap, start, ops, sched = line.split(" ")
    cap, start = int(cap), int(start)
    op = ops.split(",") if ops != "-" else []
    sc = [int(x) for x in sched.split(",")] if sched != "-" else []
    # fewer pushes, smaller capacity first (few candidates), then the schedule
    if len(op) > 1:
        yield fmt(cap, start, op[:len(op) // 2], sc)
        yield fmt(cap, start, op[:-1], sc)
        yield fmt(cap, start, op[1:], sc)
    for c2 in (1, 2, cap // 2, cap - 1):
        if 1 <= c2 < cap and (is_pow2(c2) or not is_pow2(cap)):   # never shrink into the known-finding region from outside
            yield fmt(c2, start, op, sc)
    if start >= 10:
        yield fmt(cap, 0, op, sc)
    for k in (len(sc) // 2, len(sc) // 4, 4, 1):
        if k and len(sc) >= k:
            yield fmt(cap, start, op, sc[:-k])
            yield fmt(cap, start, op, sc[k:])
    if len(op) <= 8:
        for j in range(len(op)):
            yield fmt(cap, start, op[:j] + op[j + 1:], sc)
    step = max(1, len(sc) // 40)
    for i in range(0, len(sc), step):
        yield fmt(cap, start, op, sc[:i] + sc[i + step:])
    for v, o in enumerate(op):          # small values
        if o.startswith("P") and len(o) > 2:
            yield fmt(cap, start, op[:v] + ["P%d" % (v + 1)] + op[v + 1:], sc)


def exhaustive(tier):
    return False
