"""C19 SMP workers share cache entries consistently (end to end: 3 workers + shared memory cache; 2 workers + disker + rock)."""
import re, importlib
from vf.harness import ModelRunner

H = importlib.import_module("harness.c19")

ID = "C19"
PROP_MODULE = "SquidModel.Properties.C19"
MODEL = "c19"
GEN = []
MINIMISE_BUDGET = 30
MAX_REPORT = 4
RULE = ("scenario = instance (3 workers sharing a memory cache; 2 workers + disker sharing a small memory cache and a rock cache_dir) x 1..2 "
        "URLs x a sequence of operations, each sent to a chosen worker's own port: origin updates fetched by a reloading client (at once; paced "
        "so that the following 1..3 operations run while the entry is being written; paced and cut off under Content-Length; chunked and cut "
        "off), reads, PURGEs; sizes 0 B .. 200 KB across the 32 KB shared-page, 4 KB rock-slot and in-memory-object limits; every response is "
        "compared byte for byte and header for header with the origin version it names; non-trivial = some read was served from the cache "
        "through a worker other than the one that fetched the version; distinct = distinct scenario lines")
TRUSTED = ["modelled, not verified here: the atomicity of the Ipc::StoreMap calls and of ReadWriteLock (C54/C55), page/slot copying (C53/C56/C57), "
           "Transients + CollapsedForwarding notifications, IpcIo/disker I/O, Comm, HTTP parsing, the rig's origin and client stubs"]
ASSUMPTIONS = ["collapsed_forwarding off (default); memory_cache_shared on; quick_abort_min -1; server_persistent_connections off",
               "whether a read that runs while the entry is being written finds it (hit, outcome tied to the writer) or fetches itself (miss) "
               "depends on timing, as does a hit right after a rock-only write (the disker finishes asynchronously): the model gives both",
               "rock instance: a rock write that finds its slot locked (the disker's previous write of the key, a colliding key of a concurrent "
               "scenario) fails and releases the entry in every store, so there a predicted hit may also be a miss; the memory-only instance "
               "keeps exact hit/miss predictions; the oracle is unaffected",
               "one Date for all versions of a scenario; responses fresh (max-age=86400)"]
MANIFEST = {
    "engine": "e2e",
    "text": "partial: for the model of the shared StoreMap protocol as MemStore and Rock use it across workers (openForWriting with replacement of "
            "an unlocked slot, startAppending, append, closeForWriting, abortWriting, openForReading, copy, closeForReading, freeEntry(ByKey), "
            "purgeOne; any number of workers, any hash, any interleaving) theorems reader_copies_only_its_version, "
            "complete_only_after_writer_closed, same_bytes_through_any_worker, no_reuse_while_read and invalidated_not_served hold; the model "
            "is tied to the rebuilt multi-worker binary by scenario correspondence (every response must name an admissible version with the "
            "admissible completeness) and a direct byte-for-byte / freshness / invalidation oracle, workers addressed through their own ports",
    "note": "trusted: Lean kernel, python rig, loopback TCP; not modelled: lock-free internals (C54/C55), slices and pages (C53/C56/C57), "
            "Transients and CollapsedForwarding IPC timing, disker I/O, header updates (304), Vary",
    "technique": "Lean 4 proof (invariant over all interleavings of writers, readers and invalidations of any number of workers) + "
                 "end-to-end scenario correspondence with two rebuilt multi-worker squid instances",
}


def build(stage):
    return GuardedHarness(stage)


class GuardedHarness(H.Harness):
    """flake guard: a scenario whose observation fails the oracle or is outside the model's admissible set is re-run (up to twice, alone)"""

    def run(self, lines):
        outs = super().run(lines)
        try:
            model = ModelRunner(MODEL).run(lines)
        except Exception:
            model = [None] * len(lines)
        for attempt in range(2):
            bad = [i for i, (l, o, m) in enumerate(zip(lines, outs, model))
                   if o != "bad-op" and (oracle(l, o) or (m is not None and not compare(l, o, m)))]
            if not bad or len(bad) > 20:
                break
            for i in bad:
                o = H.Harness.run(self, [lines[i]])[0]
                if not oracle(lines[i], o) and (model[i] is None or compare(lines[i], o, model[i])):
                    outs[i] = o
        return outs


# ------------------------------------------------------------------------------------------------ generators
SIZES = [0, 1, 3, 100, 4000, 4055, 4056, 4057, 4096, 8192, 20000, 32767, 32768, 32769, 40000, 65535, 65536, 65537, 98304, 100000, 200000]


def nworkers(inst):
    return H.NWORKERS[inst]


def op_u(rng, inst, k, paced=None, j=None):
    n = rng.choice(SIZES) if rng.chance(4, 5) else rng.below(150000)
    mode = rng.choice([0, 0, 0, 1, 1, 2, 3]) if paced is None else paced
    if mode >= 2 and n < 3:
        n = 3 + rng.below(5000)
    jj = 0 if mode == 0 else (rng.below(4) if j is None else j)
    return "U%d.%d.%d.%d.%d" % (rng.range(1, nworkers(inst)), k, n, mode, jj)


def small_op(rng, inst, nk, allow_u=True):
    c = rng.below(10)
    k = rng.below(nk)
    w = rng.range(1, nworkers(inst))
    if c < 6:
        return "R%d.%d" % (w, k)
    if c < 8 and allow_u:
        return op_u(rng, inst, k, paced=0)
    if c < 9:
        return "P%d.%d" % (w, k)
    return "R%d.%d" % (w, k)


def fix_windows(ops):
    """make the pause windows well-formed: shrink j to what follows, unpace updates inside a window"""
    out = list(ops)
    i = 0
    while i < len(out):
        m = re.fullmatch(r"U(\d)\.(\d)\.(\d+)\.(\d)\.(\d)", out[i])
        if m and int(m.group(4)) >= 1 and int(m.group(5)) > 0:
            j = min(int(m.group(5)), len(out) - 1 - i)
            out[i] = "U%s.%s.%s.%s.%d" % (m.group(1), m.group(2), m.group(3), m.group(4), j)
            for x in range(i + 1, i + 1 + j):
                mm = re.fullmatch(r"U(\d)\.(\d)\.(\d+)\.(\d)\.(\d)", out[x])
                if mm:
                    out[x] = "U%s.%s.%s.0.0" % (mm.group(1), mm.group(2), mm.group(3))
            i += j + 1
        else:
            i += 1
    return out


def random_case(rng, tier, inst):
    nk = rng.range(1, 2)
    n = rng.range(4, 12)
    ops = [op_u(rng, inst, k, paced=0) for k in range(nk) if rng.chance(3, 4)]
    while len(ops) < n:
        c = rng.below(10)
        if c < 3:
            ops.append(op_u(rng, inst, rng.below(nk)))
        else:
            ops.append(small_op(rng, inst, nk))
    return "%s %d %s" % (inst, nk, ",".join(fix_windows(ops)))


def cross_worker_case(rng, tier, inst):
    """the shape the property is about: cached through one worker, read through the others, while written, after a purge"""
    nw = nworkers(inst)
    w = rng.range(1, nw)
    others = [x for x in range(1, nw + 1) if x != w]
    n = rng.choice(SIZES[3:])
    mode = rng.choice([0, 1, 1, 2, 3])
    ops = []
    if mode == 0:
        ops.append("U%d.0.%d.0.0" % (w, n))
    else:
        if mode >= 2 and n < 3:
            n = 4000
        ops.append("U%d.0.%d.%d.2" % (w, n, mode))
        ops += ["R%d.0" % rng.choice(others), rng.choice(["R%d.0" % rng.choice(others), "P%d.0" % rng.choice(others), "R%d.0" % w])]
    ops += ["R%d.0" % x for x in others]
    ops.append("P%d.0" % rng.choice(others))
    ops += ["R%d.0" % w, "R%d.0" % rng.choice(others)]
    if rng.chance(1, 2):
        ops += [op_u(rng, inst, 0, paced=0), "R%d.0" % rng.choice(others)]
    return "%s 1 %s" % (inst, ",".join(fix_windows(ops)))


def boundary_cases():
    yield "m 1 U1.0.5000.0.0,R1.0,R2.0,R3.0,P2.0,R1.0,R3.0"
    yield "r 1 U1.0.5000.0.0,R1.0,R2.0,P2.0,R1.0,R2.0"
    yield "r 1 U1.0.100000.0.0,R1.0,R2.0,P2.0,R1.0,R2.0"
    yield "m 1 U1.0.60000.1.2,R2.0,R3.0,R1.0,R2.0"
    yield "m 1 U1.0.60000.2.2,R2.0,R3.0,R1.0,R2.0"
    yield "m 1 U1.0.60000.3.2,R2.0,R3.0,R1.0,R2.0"
    yield "r 2 U1.0.100000.1.2,R2.0,P2.0,R1.0,R2.0,U2.1.20000.0.0,R1.1"
    yield "m 2 R1.0,R2.0,U3.0.32768.0.0,R1.0,R2.1,U1.1.32769.1.1,P3.1,R2.1"
    yield "r 1 U2.0.30000.2.2,R1.0,R1.0,R1.0,R2.0"
    yield "m 1 U1.0.60000.1.3,R2.0,P3.0,R2.0,R1.0,R3.0"
    yield "r 1 U1.0.20000.1.3,R2.0,P2.0,R2.0,R1.0,R2.0"
    yield "m 1 U2.0.90000.1.3,R1.0,R3.0,R2.0,R1.0"
    for inst in H.INSTANCES:
        for n in (0, 1, 32767, 32768, 32769, 65536, 65537):
            yield "%s 1 U1.0.%d.0.0,R2.0,R1.0,U2.0.%d.0.0,R1.0,R2.0" % (inst, n, max(3, n // 2))
        yield "%s 1 R1.0,R2.0,P1.0,R2.0,R1.0" % inst
        yield "%s 2 U1.0.4056.0.0,U2.1.4057.0.0,R2.0,R1.1,P2.0,P1.1,R1.0,R2.1" % inst


def exhaustive_cases(tier):
    if tier != "thorough":
        return
    for inst in H.INSTANCES:
        nw = nworkers(inst)
        alphabet = ["R1.0", "R2.0", "P1.0", "P2.0", "U1.0.9000.0.0", "U2.0.40000.0.0"] + (["R3.0"] if nw > 2 else [])
        for first in ("U1.0.50000.0.0", "U1.0.50000.1.2", "U2.0.50000.2.2", "U1.0.20000.3.1"):
            for a in alphabet:
                for b in alphabet:
                    for c in ("R1.0", "R2.0"):
                        yield "%s 1 %s" % (inst, ",".join(fix_windows([first, a, b, c])))


def exhaustive(tier):
    return tier == "thorough"


def mutate(rng, l):
    t = l.split(" ")
    ops = t[2].split(",")
    k = rng.below(4)
    if k == 0:
        ops.insert(rng.below(len(ops) + 1), rng.choice(ops))
    elif k == 1 and len(ops) > 2:
        i = rng.below(len(ops) - 1)
        ops[i], ops[i + 1] = ops[i + 1], ops[i]
    elif k == 2 and len(ops) > 2:
        del ops[rng.below(len(ops))]
    else:
        i = rng.below(len(ops))
        m = re.fullmatch(r"([RP])(\d)\.(\d)", ops[i])
        if m:
            ops[i] = "%s%d.%s" % (m.group(1), rng.range(1, nworkers(t[0])), m.group(3))
    if len(ops) > 24 or not ops:
        return l
    return "%s %s %s" % (t[0], t[1], ",".join(fix_windows(ops)))


def cases(rng, tier):
    yield from boundary_cases()
    yield from exhaustive_cases(tier)
    n = 120 if tier == "thorough" else 12
    base = []
    for inst in H.INSTANCES:
        for i in range(n):
            l = cross_worker_case(rng, tier, inst) if i % 2 == 0 else random_case(rng, tier, inst)
            base.append(l)
            yield l
    for i in range(len(base) // 4):
        yield mutate(rng, rng.choice(base))
    for junk in ("", "m", "m 1 R4.0", "r 1 R3.0", "x 1 R1.0", "m 1 U1.0.500.1.2,R1.0", "m 1 U1.0.5.0.1,R1.0", "m 5 R1.0"):
        yield junk


# ------------------------------------------------------------------------------------------------ oracle
def tokens(impl):
    return impl.split(",") if impl else []


def windows(ops):
    """-> for every operation index, the index of the paced update whose pause window contains it (or None)"""
    inside = [None] * len(ops)
    i = 0
    while i < len(ops):
        op = ops[i]
        if op[0] == "U" and op[4] >= 1 and op[5] > 0:
            for x in range(i + 1, i + 1 + op[5]):
                inside[x] = i
            i += op[5] + 1
        else:
            i += 1
    return inside


def oracle(l, impl):
    sc = H.parse_line(l)
    if sc is None:
        return None if impl == "bad-op" else "harness accepted a malformed scenario"
    if impl.startswith("abort") or impl == "bad-op":
        return "no usable observation: " + impl[:200]
    ops = sc["ops"]
    toks = tokens(impl)
    if len(toks) != len(ops):
        return "no usable observation: " + impl[:200]
    inside = windows(ops)
    nver = {k: 1 for k in range(sc["nkeys"])}        # versions the origin has had so far, per key
    whole = {(k, 1): True for k in range(sc["nkeys"])}  # (k, ver) -> the origin sent it completely
    uver = {}                                          # index of an update -> its version
    purged = {}                                        # key -> a PURGE completed and nothing was fetched since
    for i, (op, tk) in enumerate(zip(ops, toks)):
        name, _, val = tk.partition("=")
        if name != op[0] or val in ("none", "timeout") or val.startswith("io-error"):
            return "no usable observation: operation %d gave %s" % (i, tk)
        k = op[2]
        if op[0] == "P":
            if val not in ("200", "404"):
                return "operation %d: PURGE answered %s" % (i, val)
            purged[k] = True
            continue
        if "!" in val:
            f = val.split("!")[0].split(":")
            return "operation %d (%s through worker %d, key %d): %s is not %s the origin version it names: %s" % (
                i, op[0], op[1], k, "a complete response" if f[2] == "C" else "a response that was cut short",
                "byte for byte" if f[2] == "C" else "a prefix of", tk)
        f = val.split(":")
        if f[0] != "200" or not f[1].isdigit():
            return "operation %d (%s through worker %d, key %d): unexpected answer %s" % (i, op[0], op[1], k, tk)
        ver, compl = int(f[1]), f[2]
        if op[0] == "U":
            nver[k] += 1
            uver[i] = nver[k]
            whole[(k, nver[k])] = op[4] <= 1
            purged[k] = False
            if ver != nver[k]:
                return "operation %d: the reload through worker %d got version %d, the origin is at %d" % (i, op[1], ver, nver[k])
            continue
        # a read: not older than the last update that had completed when it started
        done = [uver[x] for x in uver if ops[x][2] == k and x != inside[i]]
        floor = max(done) if done else 1
        if ver < floor:
            return ("operation %d: worker %d served version %d of key %d although version %d had replaced it (an invalidated entry was served)"
                    % (i, op[1], ver, k, floor))
        if compl == "I" and whole.get((k, ver), True):
            return "operation %d: worker %d cut short version %d of key %d, which the origin sent completely" % (i, op[1], ver, k)
        if f[3] == "hit" and purged.get(k):
            return "operation %d: worker %d served key %d from the cache after it was purged" % (i, op[1], k)
        if f[3] == "miss":
            purged[k] = False
    return None


def compare(l, impl, model):
    sc = H.parse_line(l)
    if sc is None:
        return impl == model
    a, b = tokens(impl), tokens(model)
    if len(a) != len(b):
        return False
    for x, y in zip(a, b):
        if x.split("!")[0] not in y.split("|"):
            return False
    return True


def classify(l, impl, why):
    return None


def nontrivial(l, impl, model):
    sc = H.parse_line(l)
    if sc is None:
        return False
    last_fetcher = {}
    for op, tk in zip(sc["ops"], tokens(impl or "")):
        if op[0] == "U" or (op[0] == "R" and tk.endswith(":miss")):
            last_fetcher[op[2]] = op[1]
        elif op[0] == "R" and ":hit" in tk and last_fetcher.get(op[2]) not in (None, op[1]):
            return True
    return False


def tag(l, impl, model):
    sc = H.parse_line(l)
    if sc is None:
        return "bad-op"
    hits = (impl or "").count(":hit")
    cut = (impl or "").count(":I")
    paced = any(op[0] == "U" and op[4] and op[5] for op in sc["ops"])
    return "%s hits=%s overlap=%d cut-short=%s purge=%d" % (sc["inst"], "0" if not hits else ("1-3" if hits <= 3 else "4+"), int(paced),
                                                            "yes" if cut else "no", int(any(op[0] == "P" for op in sc["ops"])))


def shrink(l):
    t = l.split(" ")
    if len(t) != 3:
        return
    ops = t[2].split(",")
    for i in range(len(ops)):
        if len(ops) > 1:
            yield "%s %s %s" % (t[0], t[1], ",".join(fix_windows(ops[:i] + ops[i + 1:])))
    for i, o in enumerate(ops):
        m = re.fullmatch(r"U(\d)\.(\d)\.(\d+)\.(\d)\.(\d)", o)
        if m and int(m.group(3)) > 5000:
            yield "%s %s %s" % (t[0], t[1], ",".join(ops[:i] + ["U%s.%s.%d.%s.%s" % (m.group(1), m.group(2), int(m.group(3)) // 4, m.group(4), m.group(5))] + ops[i + 1:]))
