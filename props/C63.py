"""C63 Forwarding loops and Max-Forwards are honoured (end to end)."""
import re, threading
from concurrent.futures import ThreadPoolExecutor
from vf.util import hx, unhx
from vf.harness import FuncHarness
from e2e import rig

ID = "C63"
PROP_MODULE = "SquidModel.Properties.C63"
MODEL = "c63"
GEN = []
RULE = ("scenario = method x Via fields (own element at any position / other proxies / comments / near misses / case changes) x "
        "Max-Forwards spellings x port kind (forward / accel / accel with a CDN-Loop member naming this Squid / forward with it), each sent through the rebuilt squid to a recording origin; non-trivial = own Via element present or "
        "a Max-Forwards header present; distinct = distinct scenario lines")
TRUSTED = ["modelled, not verified: Comm I/O, header parsing (tied separately), the 403/501/TRACE reply generation; "
           "strtoll is modelled by parseOffset (inside the correspondence)"]
ASSUMPTIONS = ["default configuration (via on, no cache_peer, default httpd_accel_surrogate_id), requests on a forward-proxy port and on an `accel allow-direct` port to a loopback origin"]
MANIFEST = {
    "engine": "e2e",
    "text": "partial: theorems own_via_element_always_detected / own_via_never_forwarded / own_via_never_forwarded_any_port (any number of Via fields, any position, any surrounding text), "
            "max_forwards_zero_answered_locally, forwarded_value_is_n_minus_1, forwarded_values_nonneg hold for the decision model "
            "(join + substring search, strtoll model, dispatch order OPTIONS-0 / TRACE-0 / loop / forward); the model is tied to the rebuilt binary by "
            "scenario correspondence (observed forward-or-local, status and forwarded Max-Forwards values must equal the model's) and a direct oracle on the observation",
    "note": "trusted: Lean kernel, python rig (origin/client stubs), loopback TCP; not modelled: socket I/O, reply generation, cache hits (unique URLs force misses)",
    "technique": "Lean 4 proof about the decision model + end-to-end scenario correspondence with the rebuilt squid",
}

STATE = {}


class Harness:
    def __init__(self, stage):
        self.origin = rig.Origin()
        self.aport = rig.free_port()
        self.squid = rig.Squid(stage, conf="cache deny all\nhttp_port 127.0.0.1:%d accel allow-direct\n" % self.aport).start()
        self.n = 0
        self.lock = threading.Lock()
        self.crashes = 0
        # learn this squid's own Via element from a probe
        self.origin.on("probe", lambda req: [("send", rig.simple_response(200, b"ok"))])
        rig.get(self.squid.port, self.origin.url("probe", "x"))
        reqs = self.origin.requests("probe")
        via = rig.hget(reqs[0]["hdrs"], "via") if reqs else None
        m = re.match(r"(\S+) (\S+) \((.*)\)$", via or "")
        if not m:
            raise RuntimeError("cannot learn squid's Via element: %r" % via)
        STATE["ver"], STATE["host"], STATE["app"] = m.group(1).encode(), m.group(2).encode(), m.group(3).encode()

    def one(self, line):
        try:
            method, host, app, vs, ms, mode = (line.split(" ") + ["F"])[:6] if len(line.split(" ")) in (5, 6) else [None] * 6
            vias = [] if vs == "." else [unhx(x) for x in vs.split(",")]
            mfs = [] if ms == "." else [unhx(x) for x in ms.split(",")]
            if mode not in ("F", "A", "C", "D"):
                return "bad-op"
        except (ValueError, AttributeError, TypeError):
            return "bad-op"
        if unhx(host) != STATE["host"] or unhx(app) != STATE["app"]:
            return "bad-identity"   # the case was generated for another build's identity string
        with self.lock:
            self.n += 1
            sid = "q%d" % self.n
        self.origin.on(sid, lambda req: [("send", rig.simple_response(200, b"origin-body"))])
        url = self.origin.url(sid, "p")
        accel = mode in ("A", "C")
        if accel:     # reverse-proxy port: origin-form target, the origin is named by Host (allow-direct)
            url = "/" + url.split("/", 3)[3]
        head = [("%s %s HTTP/1.1" % (method, url)).encode(), b"Host: 127.0.0.1:%d" % self.origin.port]
        head += [b"Via: " + v for v in vias] + [b"Max-Forwards: " + v for v in mfs]
        if mode in ("C", "D"):
            head.append(b"CDN-Loop: other.example; x=1, " + STATE["host"])
        head += [b"Connection: close", b"", b""]
        c = rig.Client(self.aport if accel else self.squid.port)
        c.send(b"\r\n".join(head))
        r = c.response(head_request=(method == "HEAD"))
        c.close()
        reqs = self.origin.requests(sid)
        if not self.squid.alive():
            return "abort:squid-died"
        if r is None:
            return "no-response"
        if reqs:
            seen = rig.hall(reqs[0]["hdrs"], "max-forwards")
            return "forward " + (",".join(seen) if seen else ".") + ("" if len(reqs) == 1 else " arrivals=%d" % len(reqs))
        return "local %d" % r["status"]

    def run(self, lines):
        with ThreadPoolExecutor(max_workers=8) as ex:
            return list(ex.map(rig.guarded(self.one, [self.squid]), lines))

    def close(self):
        self.squid.stop()
        self.origin.close()


def build(stage):
    return Harness(stage)


def line(method, vias, mfs, mode="F"):
    return "%s %s %s %s %s %s" % (method, hx(STATE["host"]), hx(STATE["app"]),
                                  ",".join(hx(v) for v in vias) if vias else ".", ",".join(hx(m) for m in mfs) if mfs else ".", mode)


def cases(rng, tier):
    host, app, ver = STATE["host"], STATE["app"], STATE["ver"]
    own = ver + b" " + host + b" (" + app + b")"
    others = [b"1.1 proxy.example (Apache/2.4)", b"1.0 fred", b"1.1 p.example.net", b"HTTP/1.1 gw1 (x, y)", b"2 edge", b"1.1 " + host, b"1.1 x" + host + b" (" + app + b")",
              b"1.1 " + host.upper() + b" (" + app + b")", b"1.1 " + host + b" (" + app.upper() + b")", b"1.1 " + host + b"  (" + app + b")", b"1.1 " + host + b" (" + app[:-1] + b")"]
    vers = [b"1.1", b"1.0", b"HTTP/1.1", b"2", ver]
    methods = ["GET", "OPTIONS", "TRACE", "HEAD", "POST"]
    mfvals = [b"0", b"1", b"2", b"10", b"00", b"007", b"-1", b"+0", b"+3", b"abc", b"0x10", b"5 ", b"3,1", b"9223372036854775807", b"9223372036854775808", b"4294967296", b"", b"1x", b"0x"]
    n = 3000 if tier == "thorough" else 300
    for i in range(n):
        m = rng.choice(methods) if rng.chance(2, 3) else rng.choice(["OPTIONS", "TRACE"])
        kind = rng.below(5)
        fields = []
        if kind in (0, 1):     # own element somewhere
            nf = rng.range(1, 3)
            fields = [[rng.choice(others) for _ in range(rng.range(0, 3))] for _ in range(nf)]
            el = rng.choice(vers) + b" " + host + b" (" + app + b")"
            f = rng.below(nf)
            fields[f].insert(rng.below(len(fields[f]) + 1), el)
            seps = [b", ", b",", b" , ", b",  "]
            vias = [rng.choice(seps).join(f) for f in fields if f]
        elif kind == 2:        # only other proxies / near misses
            vias = [b", ".join(rng.choice(others) for _ in range(rng.range(1, 4))) for _ in range(rng.range(1, 2))]
        else:
            vias = []
        mfs = []
        if rng.chance(3, 4):
            mfs = [rng.choice(mfvals)]
            if rng.chance(1, 8):
                mfs.append(rng.choice(mfvals))
            if rng.chance(1, 4):
                mfs[0] = str(rng.range(0, 300)).encode()
        if m == "POST":
            m = "GET"   # keep scenarios body-less
        yield line(m, vias, mfs, rng.choice(["F", "F", "A", "A", "A", "C", "D"]))


def _mode(l):
    w = l.split(" ")
    return w[5] if len(w) > 5 else "F"


def _parts(l):
    method, host, app, vs, ms = l.split(" ")[:5]
    vias = [] if vs == "." else [unhx(x) for x in vs.split(",")]
    mfs = [] if ms == "." else [unhx(x) for x in ms.split(",")]
    return method, unhx(host), unhx(app), vias, mfs


def names_this_squid(host, app, vias):
    """some comma-separated element (comments kept whole) is '<token> host (app)' exactly as this squid writes it"""
    for f in vias:
        depth, cur, els = 0, b"", []
        for ch in f:
            c = bytes([ch])
            if c == b"(":
                depth += 1
            elif c == b")" and depth:
                depth -= 1
            if c == b"," and depth == 0:
                els.append(cur)
                cur = b""
            else:
                cur += c
        els.append(cur)
        for e in els:
            if re.fullmatch(rb"[!-~]+ " + re.escape(host) + rb" \(" + re.escape(app) + rb"\)", e.strip(b" \t")):
                return True
    return False


def oracle(l, impl):
    method, host, app, vias, mfs = _parts(l)
    if impl.startswith("abort") or impl in ("no-response", "bad-op"):
        return "no usable observation: " + impl
    fwd = impl.startswith("forward")
    if "arrivals=" in impl:
        return "request reached the origin more than once"
    if names_this_squid(host, app, vias) and fwd:
        return "request whose Via names this Squid was forwarded (%s port)" % ("accel" if _mode(l) in ("A", "C") else "forward")
    if _mode(l) == "C" and fwd:
        return "accel-port request whose CDN-Loop names this Squid was forwarded"
    first = mfs[0] if mfs else None
    if method in ("TRACE", "OPTIONS") and first is not None and re.fullmatch(rb"0+", first) and fwd:
        return "%s with Max-Forwards: 0 was forwarded" % method
    if method in ("TRACE", "OPTIONS") and first is not None and re.fullmatch(rb"[1-9][0-9]{0,17}", first) and fwd:
        seen = impl.split(" ")[1]
        got = seen.split(",")[0]
        if got != str(int(first) - 1):
            return "Max-Forwards %s forwarded as %s" % (first.decode(), got)
    return None


def compare(l, impl, model):
    return impl == model


def nontrivial(l, impl, model):
    method, host, app, vias, mfs = _parts(l)
    return names_this_squid(host, app, vias) or bool(mfs)


def tag(l, impl, model):
    method, host, app, vias, mfs = _parts(l)
    return "%s %s via=%s mf=%s -> %s" % (_mode(l), method, "own" if names_this_squid(host, app, vias) else ("other" if vias else "none"),
                                      "none" if not mfs else ("zero" if re.fullmatch(rb"0+", mfs[0]) else "pos" if re.fullmatch(rb"[1-9][0-9]*", mfs[0]) else "odd"),
                                      impl.split(" ")[0] + ("" if impl.startswith("forward") else " " + impl.split(" ")[-1]))
