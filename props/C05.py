"""C05 Pipelined responses are delivered in request order, one per request (end to end)."""
import time, threading, itertools
from concurrent.futures import ThreadPoolExecutor
from e2e import rig

ID = "C05"
PROP_MODULE = "SquidModel.Properties.C05"
MODEL = "c05"
GEN = []
RULE = ("scenario = pipeline_prefetch+1 in 1..4 x n in 1..8 pipelined GET requests sent in one write x the order in which the origin releases the replies "
        "(each tagged with its request number; all permutations for n <= 4 in thorough, random otherwise); the client records the order of the tags; "
        "non-trivial = n >= 2 and the release order is not the request order; distinct = distinct scenario lines")
TRUSTED = ["modelled, not verified: Comm scheduling, store client callbacks, 1xx control messages, request bodies (GET only)"]
ASSUMPTIONS = ["cache deny all (every request goes upstream); persistent client connection"]
MANIFEST = {
    "engine": "e2e",
    "text": "partial: for the pipeline state machine (FIFO of contexts, prefetch limit, only the front writes, deferred replies pushed by kick) and every order of upstream "
            "completions: responses_in_request_order, one_response_per_request, kth_response_is_kth_request, queue_bounded. Tied to the rebuilt binary by pipelined scenarios in which "
            "the origin releases tagged replies in a chosen order; the observed tag order must equal the model's and the request order (direct oracle).",
    "note": "trusted: Lean kernel, python rig. Not modelled: request bodies in a pipeline, errors closing the connection mid-pipeline, 1xx handling",
    "technique": "Lean 4 invariant over completion-event histories of the pipeline model + end-to-end pipelined scenarios against the rebuilt squid",
}


import re


def _idx(first):
    m = re.search(r"/s\w+/(\d+) ", first)
    return m.group(1) if m else "?"


class Harness:
    def __init__(self, stage):
        self.origin = rig.Origin()
        self.sq = {lim: rig.Squid(stage, conf="cache deny all\npipeline_prefetch %d\n" % (lim - 1)).start() for lim in (1, 2, 3, 4)}
        self.n = 0
        self.lock = threading.Lock()
        self.crashes = 0

    def one(self, line):
        try:
            p = line.split(" ")
            limit, n, order = int(p[0]), int(p[1]), [int(x) for x in p[2].split(",")]
            sq = self.sq[limit]
        except (ValueError, IndexError, KeyError):
            return "bad-op"
        with self.lock:
            self.n += 1
            sid = "p%d" % self.n

        def handler(req):
            i = _idx(req["first"])
            return [("wait_event", "%s-%s" % (sid, i), 8), ("send", rig.simple_response(200, ("tag-%s" % i).encode()))]
        self.origin.on(sid, handler)
        c = rig.Client(sq.port, timeout=8)
        data = b"".join(("GET %s HTTP/1.1\r\nHost: 127.0.0.1:%d\r\n\r\n" % (self.origin.url(sid, str(i)), self.origin.port)).encode() for i in range(n))
        c.send(data)
        got = []

        def reader():
            for _ in range(n):
                r = c.response()
                if r is None:
                    break
                got.append((r["status"], r["body"].decode("latin-1")))
        t = threading.Thread(target=reader)
        t.start()
        pending = list(order)
        deadline = time.time() + 10 * rig.VERIF_SLOW
        while pending and time.time() < deadline:
            arrived = {_idx(r["first"]) for r in self.origin.requests(sid)}
            pick = next((r for r in pending if str(r) in arrived), None)
            if pick is None:
                time.sleep(0.01)
                continue
            self.origin.event("%s-%d" % (sid, pick)).set()
            pending.remove(pick)
            time.sleep(0.03 * rig.VERIF_SLOW)
        t.join(timeout=12 * rig.VERIF_SLOW)
        c.close()
        arrivals = len(self.origin.requests(sid))
        if not sq.alive():
            return "abort:squid-died"
        tags = []
        for st, body in got:
            tags.append(body[4:] if st == 200 and body.startswith("tag-") else "?%d" % st)
        return "written=" + ",".join(tags) + ("" if arrivals == n else " arrivals=%d" % arrivals)

    def run(self, lines):
        with ThreadPoolExecutor(max_workers=8) as ex:
            return list(ex.map(rig.guarded(self.one, list(self.sq.values())), lines))

    def close(self):
        for s in self.sq.values():
            s.stop()
        self.origin.close()


def build(stage):
    return Harness(stage)


def cases(rng, tier):
    if tier == "thorough":
        for limit in (1, 2, 3, 4):
            for n in (1, 2, 3, 4):
                for perm in itertools.permutations(range(n)):
                    yield "%d %d %s" % (limit, n, ",".join(map(str, perm)))
    else:
        for limit in (1, 2, 4):
            for n in (2, 3):
                for perm in itertools.permutations(range(n)):
                    yield "%d %d %s" % (limit, n, ",".join(map(str, perm)))
    for _ in range(150 if tier == "thorough" else 25):
        limit = rng.range(1, 4)
        n = rng.range(1, 8)
        order = list(range(n))
        k = rng.below(3)
        if k == 0:
            order.reverse()
        elif k == 1:
            rng.shuffle(order)
        yield "%d %d %s" % (limit, n, ",".join(map(str, order)))


def oracle(line, impl):
    p = line.split(" ")
    n = int(p[1])
    if impl.startswith("abort") or impl == "bad-op":
        return "no usable observation: " + impl
    if "arrivals=" in impl:
        return "origin saw a different number of requests than were sent: " + impl
    got = impl.split("=", 1)[1].split(" ")[0]
    want = ",".join(str(i) for i in range(n))
    if got != want:
        return "responses not in request order / not one per request: got [%s] want [%s]" % (got, want)
    return None


def nontrivial(line, impl, model):
    p = line.split(" ")
    return int(p[1]) >= 2 and p[2] != ",".join(str(i) for i in range(int(p[1])))


def tag(line, impl, model):
    p = line.split(" ")
    return "limit=%s n=%s %s" % (p[0], p[1], "in-order" if p[2] == ",".join(str(i) for i in range(int(p[1]))) else "reordered")


MINIMISE_BUDGET = 20
MAX_REPORT = 5
