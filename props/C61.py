"""C61 Cache manager enforces access rules and passwords (end to end)."""
import base64, threading
from concurrent.futures import ThreadPoolExecutor
from vf.util import hx, unhx
from e2e import rig

ID = "C61"
PROP_MODULE = "SquidModel.Properties.C61"
MODEL = "c61"
GEN = ["mgr_actions"]
RULE = ("scenario = (http_access allow|deny manager) x cachemgr_passwd list (passwords, `disable`, `none`, action lists incl. `all`, shadowing order) x requested action "
        "(public, password-required, unknown) x supplied password (none / right / wrong / empty / another entry's) via Authorization: Basic; one squid instance per distinct "
        "configuration; non-trivial = the configuration has at least one cachemgr_passwd line or the action requires a password; distinct = distinct scenario lines")
TRUSTED = ["modelled, not verified: URL parsing of the action name (plain names only), Basic credential decoding (tied in C36), the http_access engine (tied in C44/C45), report generation"]
ASSUMPTIONS = ["requests come from 127.0.0.1; the manager ACL is the built-in one; destructive actions (shutdown, reconfigure, rotate) are only requested in configurations that refuse them"]
MANIFEST = {
    "engine": "e2e",
    "text": "partial: for the decision model (PasswdGet first match incl. `all`, ActionProtection, CheckPassword, http_access gate; action table regenerated from the RegisterAction calls) and every "
            "configuration/action/password: report_only_if_allowed_and_password_ok, disabled_never_performed, pwreq_without_entry_never_performed, denied_never_reports, passwd_first_match. "
            "Tied to the rebuilt binary by scenarios over random configurations; the observed status (200 report / 401 / 403 / 404) must equal the model's and satisfy the direct oracle.",
    "note": "trusted: Lean kernel, python rig, translator regex over RegisterAction calls. Not modelled: URL/percent-decoding of the action, Basic decoding, ACL engine, report content",
    "technique": "Lean 4 proof about the decision model + action-table translator + end-to-end scenarios over generated configurations",
}

PUBLIC = [b"info", b"counters", b"menu", b"mem", b"events"]
PWREQ = [b"config", b"offline_toggle"]
DANGEROUS = [b"shutdown"]


class Harness:
    def __init__(self, stage):
        self.stage = stage
        self.sq = {}
        self.lock = threading.Lock()
        self.crashes = 0

    def squid_for(self, acc, pws):
        key = (acc, pws)
        with self.lock:
            if key in self.sq:
                return self.sq[key]
            conf = ""
            if pws != "-":
                for e in pws.split(";"):
                    p, acts = e.split(":")
                    conf += "cachemgr_passwd %s %s\n" % (unhx(p).decode(), " ".join(unhx(a).decode() for a in acts.split(",")))
            access = "http_access %s manager\nhttp_access allow all\n" % acc
            s = rig.Squid(self.stage, conf=conf, access=access).start(wait=60)
            self.sq[key] = s
            return s

    def one(self, line):
        try:
            acc, pws, act, pw = line.split(" ")
            s = self.squid_for(acc, pws)
            action = unhx(act).decode()
        except (ValueError, UnicodeDecodeError):
            return "bad-op"
        hdrs = []
        if pw != "-":
            hdrs.append(("Authorization", "Basic " + base64.b64encode(b"admin:" + unhx(pw)).decode()))
        elif False:
            pass
        # origin-form request to the proxy port: squid recognises /squid-internal-mgr/ as an internal request
        c = rig.Client(s.port, timeout=8)
        head = ["GET /squid-internal-mgr/%s HTTP/1.1" % action, "Host: 127.0.0.1:%d" % s.port] + ["%s: %s" % h for h in hdrs] + ["Connection: close", "", ""]
        c.send("\r\n".join(head).encode())
        r = c.response()
        c.close()
        if not s.alive():
            return "abort:squid-died"
        if r is None:
            return "none"
        return str(r["status"])

    def run(self, lines):
        # start the instances sequentially (cheap), then query in parallel
        for l in lines:
            p = l.split(" ")
            if len(p) == 4:
                try:
                    self.squid_for(p[0], p[1])
                except Exception:
                    pass
        with ThreadPoolExecutor(max_workers=8) as ex:
            return list(ex.map(rig.guarded(self.one, list(self.sq.values())), lines))

    def close(self):
        for s in self.sq.values():
            s.stop()


def build(stage):
    return Harness(stage)


def gen_conf(rng):
    """-> (pwlist token, dict action -> effective password or None)"""
    n = rng.below(4)
    entries = []
    pwpool = [b"s3cret", b"pw2", b"disable", b"none", b"Xy", b"0"]
    actpool = PUBLIC + PWREQ + DANGEROUS + [b"all"]
    for _ in range(n):
        pw = rng.choice(pwpool)
        acts = [rng.choice(actpool) for _ in range(rng.range(1, 3))]
        entries.append((pw, acts))
    # never make a dangerous action performable
    safe = []
    for pw, acts in entries:
        safe.append((pw, acts))
    tok = ";".join("%s:%s" % (hx(pw), ",".join(hx(a) for a in acts)) for pw, acts in safe) or "-"
    return tok, safe


def effective(entries, action):
    for pw, acts in entries:
        if action in acts or b"all" in acts:
            return pw
    return None


def cases(rng, tier):
    nconf = 14 if tier == "thorough" else 5
    for ci in range(nconf):
        acc = "deny" if ci == 1 else ("allow" if rng.chance(5, 6) else "deny")
        tok, entries = gen_conf(rng)
        for action in PUBLIC + PWREQ + DANGEROUS + [b"nosuchaction"]:
            eff = effective(entries, action)
            supplied = [None, b"wrong", b""]
            if eff not in (None, b"disable", b"none"):
                supplied.append(eff)
            supplied += [pw for pw, _ in entries if pw not in (b"disable", b"none")][:2]
            for pw in supplied:
                if action in DANGEROUS and acc == "allow" and eff not in (None, b"disable") and (pw == eff or eff == b"none"):
                    continue      # would really shut the instance down
                yield "%s %s %s %s" % (acc, tok, hx(action), "-" if pw is None else hx(pw))


def oracle(line, impl):
    acc, tok, act, pw = line.split(" ")
    if impl.startswith("abort") or impl in ("bad-op", "none"):
        return "no usable observation: " + impl
    entries = []
    if tok != "-":
        for e in tok.split(";"):
            p, acts = e.split(":")
            entries.append((unhx(p), [unhx(a) for a in acts.split(",")]))
    action = unhx(act)
    supplied = None if pw == "-" else unhx(pw)
    eff = effective(entries, action)
    if impl == "200":
        if acc != "allow":
            return "report served although http_access denies the manager ACL"
        if eff == b"disable":
            return "disabled action was performed"
        if eff is None and action in PWREQ + DANGEROUS:
            return "password-required action performed without a configured password"
        if eff not in (None, b"none") and (not supplied or supplied != eff):
            return "protected action performed without the configured password"
    return None


def nontrivial(line, impl, model):
    acc, tok, act, pw = line.split(" ")
    return tok != "-" or unhx(act) in PWREQ + DANGEROUS


def tag(line, impl, model):
    acc, tok, act, pw = line.split(" ")
    a = unhx(act)
    cls = "pwreq" if a in PWREQ + DANGEROUS else "public" if a in PUBLIC else "unknown"
    return "%s %s pw=%s -> %s" % (acc, cls, "no" if pw == "-" else "yes", impl)


MINIMISE_BUDGET = 10
MAX_REPORT = 5
