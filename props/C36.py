"""C36 Base64 coding round-trips and decodes Basic credentials safely."""
import os, shlex, subprocess
from concurrent.futures import ThreadPoolExecutor
from vf.util import VERIF, hx, unhx
from vf.harness import ProcHarness
from vf.stage import BuildError

ID = "C36"
PROP_MODULE = "SquidModel.Properties.C36"
MODEL = "c36"
GEN = ["base64_tables"]


# ---------------------------------------------------------------------------------------------------
# build: two executables (real libauth + libnettle; link line of tests/testHttpRequest for the rest)
#   c36   : harness + lib/base64.cc (macro undefined, ASan) + libnettle as linked + src/auth/basic/Config.cc (ASan)
#   c36lb : the same harness, but Config.cc is compiled against lib/base64.cc (a build without libnettle)
# ---------------------------------------------------------------------------------------------------
LINK_EXTRA = ["auth/libauth.la", "tests/stub_helper.o", "dlink.o", "wordlist.o", "helper/libhelper.la",
              "../lib/libmisccontainers.la", "../lib/libmiscencoding.la", "base/libbase.la", "../lib/libmiscutil.la",
              "tests/stub_libcomm.o", "tests/stub_errorpage.o", "cbdata.o", "event.o", "tests/stub_tools.o", "-lnettle"]


def squid_link(stage, objs, out):
    """the real auth/libauth.la (User, UserRequest, CredentialsCache, Basic::User ...) on top of the link line of
    tests/testHttpRequest (real HttpRequest/HttpHeader/SBuf/mem, stubs for the periphery)"""
    return stage.link_like("tests/testHttpRequest", objs, out, drop=("tests/testHttpRequestMethod.o", "test_tools.o", "tests/stub_cbdata.o", "tests/stub_event.o"), extra=LINK_EXTRA)


def build_exes(stage):
    built = getattr(stage, "built", None)
    if built is None:
        built = stage.built = {}
    if "c36" in built:
        return built["c36"]
    H = os.path.join(VERIF, "harness")
    W = stage.work
    jobs = [
        (os.path.join(H, "c36.cc"), os.path.join(W, "c36_main.o"), ()),
        (os.path.join(H, "c36_local.cc"), os.path.join(W, "c36_local.o"), ()),
        (os.path.join(H, "c36_local.cc"), os.path.join(W, "c36_local_basic.o"), ("-DC36_LOCAL_BASIC",)),
        ("src/auth/basic/Config.cc", os.path.join(W, "c36_Config.o"), ()),
    ]
    with ThreadPoolExecutor(max_workers=4) as ex:
        objs = list(ex.map(lambda j: stage.compile(j[0], out=j[1], extra=j[2]), jobs))
    main_o, local_o, local_basic_o, config_o = objs
    with ThreadPoolExecutor(max_workers=2) as ex:
        f1 = ex.submit(squid_link, stage, [main_o, local_o, config_o], os.path.join(W, "c36"))
        f2 = ex.submit(squid_link, stage, [main_o, local_basic_o], os.path.join(W, "c36lb"))
        exes = (f1.result(), f2.result())
    built["c36"] = exes
    return exes


class Routed:
    """`B` lines (Basic decode compiled against lib/base64.cc) go to the second executable, everything else to the first;
    long batches are cut into slices that run in parallel processes (each line is independent of the others)."""

    ENV = {"ASAN_OPTIONS": "detect_leaks=0:abort_on_error=0:exitcode=86:allocator_may_return_null=1:quarantine_size_mb=8"}

    def __init__(self, exes, jobs=8):
        self.exes = exes
        self.jobs = jobs
        self.crashes = 0

    def _run(self, exe, lines):
        if not lines:
            return []
        n = len(lines)
        k = 1 if n < 64 else min(self.jobs, n // 32)
        # bulk lines are expensive: spread them evenly by dealing slices round-robin
        idx = [list(range(j, n, k)) for j in range(k)]
        hs = [ProcHarness([exe], env=self.ENV) for _ in range(k)]
        with ThreadPoolExecutor(max_workers=k) as ex:
            outs = list(ex.map(lambda j: hs[j].run([lines[i] for i in idx[j]]), range(k)))
        res = [None] * n
        for j in range(k):
            for i, o in zip(idx[j], outs[j]):
                res[i] = o
            self.crashes += hs[j].crashes
            if getattr(hs[j], "last_stderr", None):
                self.last_stderr = hs[j].last_stderr
        return res

    def run(self, lines):
        a = [(i, l) for i, l in enumerate(lines) if not l.startswith("B ")]
        b = [(i, l) for i, l in enumerate(lines) if l.startswith("B ")]
        res = [None] * len(lines)
        for part, exe in ((a, self.exes[0]), (b, self.exes[1])):
            for (i, _), o in zip(part, self._run(exe, [l for _, l in part])):
                res[i] = o
        return res


def build(stage):
    return Routed(build_exes(stage))


# ---------------------------------------------------------------------------------------------------
# reference notions used by the generators and the oracle (python's own base64 module + RFC 4648 grammar)
# ---------------------------------------------------------------------------------------------------
import base64 as pyb64, re

WS = b"\t\n\x0b\x0c\r "                     # what the decoder documents as white space
DATA = b"ABCDEFGHIJKLMNOPQRSTUVWXYZabcdefghijklmnopqrstuvwxyz0123456789+/"
CANON = re.compile(rb"(?:[A-Za-z0-9+/]{4})*(?:[A-Za-z0-9+/]{2}==|[A-Za-z0-9+/]{3}=)?")
TRIPLE_PAD = re.compile(rb"(?:[A-Za-z0-9+/]{4})*A===")


def strip_ws(s):
    return bytes(c for c in s if c not in WS)


def canonical_decode(s):
    """RFC 4648 section 4 with mandatory padding and zero pad bits; `s` is already white-space free. None = malformed."""
    if not CANON.fullmatch(s):
        return None
    x = pyb64.b64decode(s, validate=True)
    return x if pyb64.b64encode(x) == s else None


def lenient_decode(s):
    return canonical_decode(strip_ws(s))


def basic_payload(hdr):
    """the part of the header value that carries the credentials: after the scheme token and the white space, up to LF"""
    i = 0
    while i < len(hdr) and 0x21 <= hdr[i] <= 0x7e:
        i += 1
    while i < len(hdr) and hdr[i] in WS:
        i += 1
    p = hdr[i:]
    j = p.find(b"\n")
    return p if j < 0 else p[:j]


def lower_ascii(b):
    return bytes(c + 32 if 65 <= c <= 90 else c for c in b)


# ---------------------------------------------------------------------------------------------------
# generators
# ---------------------------------------------------------------------------------------------------
def chunk_spec(rng, n):
    k = rng.below(6)
    if k == 0 or n == 0:
        return "-" if rng.chance(2, 3) else rng.choice(["0", "0,0", "1", "5"])
    if k == 1:
        return ",".join(["1"] * n) if n <= 600 else "-"
    if k == 2:
        return str(rng.range(0, n))
    if k == 3:
        return ",".join(str(rng.range(0, 4)) for _ in range(min(n, rng.range(1, 12))))
    if k == 4:
        return ",".join(str(rng.choice([0, 1, 2, 3, 4, 5, 57, 64, 1000])) for _ in range(rng.range(1, 6)))
    parts, left = [], n
    while left > 0 and len(parts) < 20:
        p = rng.range(1, max(1, left))
        parts.append(p)
        left -= p
    return ",".join(str(p) for p in parts)


def rand_bytes(rng, tier):
    k = rng.below(10)
    if k < 4:
        n = rng.range(0, 12)
    elif k < 7:
        n = rng.range(13, 200)
    elif k < 9:
        n = rng.choice([255, 256, 257, 1000, 1023, 1024, 1025, 3000])
    else:
        n = rng.choice([4095, 4096, 8190, 8191, 8192]) if tier == "thorough" else rng.choice([4096, 8192])
    m = rng.below(5)
    if m == 0:
        return rng.bytes(n, b"\x00\xff\xfb\xef\xbe\x3f\x3e\xf8")    # many '+', '/', 'A' and all-ones sextets
    if m == 1:
        return rng.bytes(n, b"abcXYZ019:@ ")
    return rng.bytes(n)


def insert_ws(rng, s, dens=6):
    out = bytearray()
    for c in s:
        if rng.below(dens) == 0:
            out += rng.bytes(rng.range(1, 2), WS)
        out.append(c)
    if rng.chance(1, 3):
        out += rng.bytes(rng.range(1, 3), WS)
    return bytes(out)


BADCH = b"-_*.,=\x00\x7f\x80\xff@[`{~!\x01\x08\x0e\x1f:"


def mutate(rng, enc):
    """one structural mutation of a valid encoding"""
    enc = bytearray(enc)
    k = rng.below(14)
    n = len(enc)
    if k == 0 and n:
        enc[rng.below(n)] = rng.choice(BADCH)                       # bad character
    elif k == 1 and n:
        del enc[rng.below(n)]                                        # drop one character
    elif k == 2:
        enc.insert(rng.below(n + 1), rng.choice(BADCH + DATA))       # insert one
    elif k == 3:
        enc = enc[:rng.below(n + 1)]                                 # truncate
    elif k == 4:
        enc = bytearray(bytes(enc).rstrip(b"="))                     # padding removed
        if rng.chance(1, 2):
            enc += b"=" * rng.range(0, 4)                            # wrong amount of padding
    elif k == 5:
        enc += b"=" * rng.range(1, 3)                                # extra padding
    elif k == 6 and n:
        p = rng.below(n)
        enc[p:p] = b"=" * rng.range(1, 3)                            # padding in the middle
    elif k == 7:
        enc += rng.bytes(rng.range(1, 5), DATA)                      # data after the end / padding
    elif k == 8 and n:
        # non-zero pad bits: change the last data character
        j = n - 1
        while j >= 0 and enc[j] == 61:
            j -= 1
        if j >= 0:
            enc[j] = rng.choice(DATA)
    elif k == 9:
        enc = bytearray(bytes(enc).replace(b"+", b"-").replace(b"/", b"_"))   # url-safe alphabet
        if rng.chance(1, 2) and n:
            enc[rng.below(len(enc))] = rng.choice(b"-_")
    elif k == 10:
        enc = enc + enc                                              # duplicated (padding then data)
    elif k == 11 and n:
        p = rng.below(n)
        enc[p] ^= 1 << rng.below(8)                                  # bit flip
    elif k == 12:
        enc = bytearray(rng.choice([b"A===", b"A", b"AA", b"AAA", b"=", b"==", b"A=", b"A==", b"AA=", b"AA=A", b"AAA==",
                                    b"QUFBA===", b"QUFB====", b"QQ=\n=", b"QQ= =Q", b"QR==", b"QUJ="]))
    else:
        enc += bytes([rng.choice(BADCH)])
    out = bytes(enc)
    if rng.chance(1, 4):
        out = insert_ws(rng, out)
    return out


SMALL_ALPHABET = b"ABQ/=+ \n-_\xffz"


def words(alphabet, n):
    if n == 0:
        yield b""
        return
    for w in words(alphabet, n - 1):
        for c in alphabet:
            yield w + bytes([c])


USERS = [b"Aladdin", b"user", b"U", b"", b"MiXeD.Case", b"a b", b"dom\\user", b"user@example.com", b"\xc3\xbcser", b"\xfc\xe9", b"ADMIN", b"Z[@`{"]
PASSES = [b"open sesame", b"p", b"", b"a:b", b":", b"::x:", b"PassWord", b"\xff\xfe", b"p w", b"trailing ", b"=+/", b"x" * 70]
SCHEMES = [b"Basic ", b"Basic ", b"Basic ", b"basic ", b"BASIC  ", b"Basic\t", b"Basic \t\r ", b"Basic", b"", b"X ", b"Basic\n", b"Basic\x0b\x0c", b"Negotiate ", b"Ba sic "]


def basic_lines(rng, tier, n):
    for i in range(n):
        k = rng.below(12)
        user = rng.choice(USERS) if rng.chance(2, 3) else rng.bytes(rng.range(0, 12), b"abcXYZ09._-@\\ \xe9")
        pw = rng.choice(PASSES) if rng.chance(2, 3) else rng.bytes(rng.range(0, 12), b"abcXYZ09:: !\xff")
        creds = user + b":" + pw
        if k == 0:
            creds = user                                              # no colon at all
        elif k == 1:
            creds = creds + rng.choice([b"\r", b"\n", b"\r\n", b"\n:", b"\rX"])   # CR/LF inside the credentials
            if rng.chance(1, 2):
                p = rng.below(len(creds) + 1)
                creds = creds[:p] + rng.choice([b"\r", b"\n"]) + creds[p:]
        elif k == 2:
            p = rng.below(len(creds) + 1)
            creds = creds[:p] + b"\x00" + creds[p:]                   # NUL inside the credentials
            if rng.chance(1, 3):
                creds += rng.choice([b"\r\n", b"\x00", b":x"])
        elif k == 3:
            creds = rng.bytes(rng.range(0, 40))                       # arbitrary bytes
        elif k == 4:
            big = rng.choice([1000, 4096, 8192]) if tier == "thorough" else rng.choice([300, 1000, 4096])
            creds = rng.bytes(big // 2, b"abcdefgh") + b":" + rng.bytes(big // 2, b"ABC:xyz0")
        enc = pyb64.b64encode(creds)
        m = rng.below(10)
        if m == 0:
            enc = mutate(rng, enc)
        elif m == 1:
            enc = insert_ws(rng, enc, 8)                              # may contain LF: the header is cut there
        elif m == 2:
            enc = enc + rng.choice([b"\n", b"\r\n", b"\n\n", b"\nQUJD", b" ", b"\r", b"\t\n"])
        hdr = rng.choice(SCHEMES) + enc
        if b"\x00" in hdr:
            hdr = hdr.replace(b"\x00", b"\x01")
        yield "%s %s %s" % ("b" if rng.chance(2, 3) else "B", "c" if rng.chance(1, 2) else "i", hx(hdr))


KNOWN_CLASS_CAP = 6


def cases(rng, tier):
    """the framework examines at most 40 failing cases per run: inputs that fall into the class of a known finding are
    capped (per finding id) so that they cannot crowd out a new failure; corpus/C36 holds their witnesses"""
    seen = {}
    for line in all_cases(rng, tier):
        fid = known_class(line)
        if fid:
            seen[fid] = seen.get(fid, 0) + 1
            if seen[fid] > KNOWN_CLASS_CAP:
                continue
        yield line


def shrink(line):
    """inputs already inside a known-finding class are identified by their shape: no minimisation needed"""
    if known_class(line):
        return iter(())
    from vf.run import default_shrink
    return default_shrink(line)


def all_cases(rng, tier):
    thorough = tier == "thorough"
    impls = ["L", "N"]
    # ---- exhaustive small scopes -------------------------------------------------------------------
    for I in impls:
        yield "x %s 0 0 0" % I
        yield "x %s 1 0 255" % I
        if thorough:
            for lo in range(0, 256, 8):
                yield "x %s 2 %d %d" % (I, lo, lo + 7)
            for b in range(256):
                yield "x %s 3 %d %d" % (I, b, b)
        else:
            yield "x %s 2 0 127" % I
            yield "x %s 2 128 255" % I
            b = rng.below(256)
            yield "x %s 3 %d %d" % (I, b, b)                   # one slice of the length-3 space per run
    # every string up to the tier's length over a 12-symbol alphabet, as decoder input
    for n in range(0, (5 if thorough else 3) + 1):
        for w in words(SMALL_ALPHABET, n):
            yield "d %s %s -" % (impls[(len(w) + w.count(b"A")) % 2] if not thorough else "L", hx(w))
            if thorough:
                yield "d N %s -" % hx(w)
    # every single character from every reachable decoder state / every byte from every encoder state
    for c in range(256):
        for (w, b, p) in [(0, 0, 0), (0, 6, 0), (0, 4, 0), (0, 2, 0), (0, 4, 1), (0, 2, 1), (0, 2, 2), (0, 0, 1), (0, 0, 2), (0, 0, 3), (1, 6, 0), (21, 4, 0), (3, 2, 0), (65535, 0, 0)]:
            yield "s %s %d %d %d %02x" % (impls[c % 2], w, b, p, c)
        for (w, b) in [(0, 0), (3, 2), (15, 4), (65535, 0), (65535, 2), (65535, 4)]:
            yield "c %s %d %d %02x" % (impls[c % 2], w, b, c)
    # boundary: all lengths 0..20 with every two-part chunking, bytewise decoding
    for n in range(0, 21):
        x = rng.bytes(n)
        enc = pyb64.b64encode(x)
        for I in impls:
            for cutp in range(0, n + 1):
                yield "e %s %s %d" % (I, hx(x), cutp)
            for cutp in range(0, len(enc) + 1):
                yield "d %s %s %d" % (I, hx(enc), cutp)
            yield "t %s %s %s %s" % (I, hx(x), ",".join(["1"] * max(1, n)), ",".join(["1"] * max(1, len(enc))))
            yield "r %s %s" % (I, hx(x))
            # truncation at every offset
            for cutp in range(0, len(enc)):
                yield "d %s %s -" % (I, hx(enc[:cutp]))
    # ---- random streams ------------------------------------------------------------------------------
    n = 30000 if thorough else 2500
    for i in range(n):
        I = impls[rng.below(2)]
        k = rng.below(20)
        if k < 5:       # round trip through the real encoder and decoder with independent chunkings
            x = rand_bytes(rng, tier)
            yield "t %s %s %s %s" % (I, hx(x), chunk_spec(rng, len(x)), chunk_spec(rng, (len(x) + 2) // 3 * 4))
        elif k < 7:     # encoder alone against the reference
            x = rand_bytes(rng, tier)
            yield "e %s %s %s" % (I, hx(x), chunk_spec(rng, len(x)))
        elif k == 7:
            yield "r %s %s" % (I, hx(rand_bytes(rng, tier)))
        elif k < 11:    # valid encodings, white space sprinkled in, random chunking
            x = rand_bytes(rng, tier)
            enc = pyb64.b64encode(x)
            if rng.chance(1, 2):
                enc = insert_ws(rng, enc, rng.choice([2, 6, 40]))
            yield "d %s %s %s" % (I, hx(enc), chunk_spec(rng, len(enc)))
        elif k < 17:    # mutated encodings
            x = rng.bytes(rng.range(0, 14)) if rng.chance(3, 4) else rand_bytes(rng, tier)
            enc = mutate(rng, pyb64.b64encode(x))
            if rng.chance(1, 5):
                enc = mutate(rng, enc)
            yield "d %s %s %s" % (I, hx(enc), chunk_spec(rng, len(enc)))
        elif k == 17:   # random text over the interesting characters
            s = rng.bytes(rng.range(0, 24), DATA + b"====  \n\r\t-_")
            yield "d %s %s %s" % (I, hx(s), chunk_spec(rng, len(s)))
        elif k == 18:   # fully random
            s = rng.bytes(rng.range(0, 12))
            yield "d %s %s %s" % (I, hx(s), chunk_spec(rng, len(s)))
        else:
            yield "g %s %d" % (I, rng.choice([rng.below(1 << 24), rng.below(1 << 32), 0, 0xFFFFFF, 0xFFFFFFFF, 0x1000000]))
            yield "s %s %d %d %d %02x" % (I, rng.below(65536), rng.below(15), rng.below(5), rng.choice(DATA + b"= \n*"))
            yield "c %s %d %d %02x" % (I, rng.below(65536), rng.below(10), rng.below(256))
    yield from basic_lines(rng, tier, 12000 if thorough else 1500)


# ---------------------------------------------------------------------------------------------------
# the direct oracle: computed from the input line and the implementation's output only
# ---------------------------------------------------------------------------------------------------
def split_chunks(spec, n):
    """number of update calls the harness makes (for the count check)"""
    if spec == "-":
        return 1
    lens = [int(t) for t in spec.split(",")]
    pos, k = 0, 0
    for l in lens:
        pos += min(l, n - pos)
        k += 1
    return k + (1 if pos < n else 0)


def expect_basic(flag, hdr):
    """-> ('none', why) | ('creds', user, pass_or_None, deny, type) | ('nul', ...same as creds for the truncated text)"""
    pay = basic_payload(hdr)
    clear = lenient_decode(pay)
    if clear is None:
        return ("none", "malformed base64 payload must yield no credentials")
    if b"\r" in clear or b"\n" in clear:
        return ("none", "credentials containing CR or LF must be refused")
    if b"\x00" in clear:
        return ("none", "credentials containing NUL must be refused, not truncated")
    kind = "creds"
    user, sep, pw = clear.partition(b":")
    if flag == "i":
        user = lower_ascii(user)
    if not sep:
        return (kind, user, None, "nopass", "broken")
    if pw == b"":
        return (kind, user, None, "empty", "broken")
    return (kind, user, pw, "-", "basic")


def fmt_creds(user, pw, deny, typ):
    return "user=%s pass=%s deny=%s type=%s" % (hx(user), "null" if pw is None else hx(pw), deny, typ)


def oracle(line, impl):
    if impl is None:
        return "no output"
    if impl.startswith("abort:"):
        return "sanitizer/abort: " + impl
    if impl.startswith("OVF"):
        return "wrote beyond the size the API promises: " + impl[:80]
    if impl == "bad-op":
        return "harness refused the line"
    w = line.split(" ")
    op = w[0]
    if op == "e":
        x = unhx(w[2])
        out, counts = impl.split(" ")[0], impl.split(" ")[1]
        if unhx(out) != pyb64.b64encode(x):
            return "encoder output differs from RFC 4648"
        upd, fin = counts[2:].split(";")
        nup = [int(t) for t in upd.split(",")] if upd else []
        if len(nup) != split_chunks(w[3], len(x)) or sum(nup) + int(fin) != len(unhx(out)) or int(fin) > 3:
            return "returned counts do not add up"
    elif op == "r":
        if unhx(impl) != pyb64.b64encode(unhx(w[2])):
            return "base64_encode_raw differs from RFC 4648"
    elif op == "g":
        g = int(w[2]) & 0xFFFFFF
        if unhx(impl) != pyb64.b64encode(g.to_bytes(3, "big")):
            return "base64_encode_group differs from RFC 4648"
    elif op == "t":
        if not impl.startswith("ok " + w[2] + " "):
            return "decoding the encoding does not return the original"
    elif op == "d":
        want = lenient_decode(unhx(w[2]))
        if want is None:
            if not impl.startswith("reject:"):
                return "malformed base64 accepted"
        else:
            if not impl.startswith("ok " + hx(want) + " "):
                return "well-formed base64 not decoded to its content"
    elif op == "x":
        n, lo, hi = int(w[2]), int(w[3]), int(w[4])
        total = 1 if n == 0 else (hi - lo + 1) * 256 ** (n - 1)
        if not impl.startswith("count=%d bad=0 " % total):
            return "exhaustive round trip failed"
    elif op in ("b", "B"):
        hdr = unhx(w[2])
        exp = expect_basic(w[1], hdr)
        if exp[0] == "none":
            if impl != "none":
                return exp[1]
        else:
            if impl != fmt_creds(*exp[1:]):
                return "credentials are not split at the first colon"
    return None


def compare(line, impl, model):
    return impl == model


def _payload_of(line):
    w = line.split(" ")
    if w[0] == "d":
        return strip_ws(unhx(w[2])), w[1]
    if w[0] in ("b", "B"):
        return strip_ws(basic_payload(unhx(w[2]))), ("N" if w[0] == "b" else "L")
    return None, None


def known_class(line):
    """narrow: the finding ids are returned for exactly the input classes of the known defects (decided by the input alone)"""
    w = line.split(" ")
    pay, which = _payload_of(line)
    if pay is None:
        return None
    if TRIPLE_PAD.fullmatch(pay) and which == "N":
        # libnettle: a dangling sextet 'A' followed by three '=' is accepted (decodes to nothing).
        # (lib/base64.cc was repaired by fc382f5, NUL truncation in decodeCleartext by 54130c8: no classes for them any more)
        return "C36-triple-pad-libnettle"
    return None


def classify(line, impl, why):
    fid = known_class(line)
    if fid:
        return fid
    # anything else is new: group the reports by the kind of failure (an id that is not a known finding is a violation)
    if why and not why.startswith("model and implementation"):
        return "new/" + why.split(":")[0][:60]
    return None


def nontrivial(line, impl, model):
    op = line.split(" ")[0]
    if op in ("e", "r", "t", "x", "g", "c"):
        return True
    if op == "d":
        return impl.startswith("ok ") and not impl.startswith("ok - ")
    if op == "s":
        return impl.startswith("1 ")
    return impl.startswith("user=") and "pass=null" not in impl


def tag(line, impl, model):
    w = line.split(" ")
    op = w[0]
    if op in ("b", "B"):
        return "%s %s" % (op, "none" if impl == "none" else impl.split(" ")[-1] + "/" + impl.split(" ")[2] if impl.startswith("user=") else impl[:20])
    if op == "d":
        return "d %s %s" % (w[1], impl.split(" ")[0].split("@")[0])
    if op in ("e", "t", "r"):
        n = 0 if w[2] == "-" else len(w[2]) // 2
        size = "0" if n == 0 else "1-3" if n <= 3 else "4-64" if n <= 64 else "65-1024" if n <= 1024 else ">1024"
        return "%s %s len=%s" % (op, w[1], size)
    return "%s %s" % (op, w[1])


def exhaustive(tier):
    # thorough: every byte string of length <= 3 (each with every chunking), every decoder input of length <= 5 over a
    # 12-symbol alphabet; quick: length <= 2 plus one random 1/256 slice of length 3
    return tier == "thorough"


RULE = ("x: every byte string of the given length (all chunkings of the encoder vs the harness' RFC 4648 encoder, one-shot and "
        "bytewise decoding back); t: random strings up to 8 KB through encoder and decoder with independent chunkings; "
        "e/r/g: encoder vs python's base64; d: valid / white-space-laden / mutated / exhaustive-small-alphabet decoder input vs the "
        "RFC 4648 grammar; s/c: single-character steps from arbitrary contexts (model tie only); b/B: Basic headers through "
        "Auth::Basic::Config::decode() linked against libnettle / lib/base64.cc. L = lib/base64.cc (ASan), N = libnettle (canaries). "
        "non-trivial = produced output bytes (d: accepted non-empty, b: user and password extracted)")
TRUSTED = ["modelled, not verified: encode_raw's backward pointer walk is modelled as a forward recursion over 3-byte groups; "
           "C integer promotions are transcribed by hand (unsigned short/char stores as mod 65536/256)",
           "python's base64 module and the RFC 4648 regular expression inside the oracle",
           "the Basic path runs the real auth/libauth.la (User, UserRequest, Basic::User, CredentialsCache) and the instrumented "
           "src/auth/basic/Config.cc on top of the link line of tests/testHttpRequest; Helper::Client::Make and "
           "aclCacheMatchFlush (never reached / empty list) are stand-ins inside the harness"]
ASSUMPTIONS = ["inputs of the known-finding classes are capped at %d per finding and run (the framework examines at most 40 failing "
               "cases per run); their witnesses are in corpus/C36" % KNOWN_CLASS_CAP,
               "white space = the six characters the decode table marks (HT LF VT FF CR SP) and may appear anywhere in base64 input",
               "auth_param basic utf8 is off (the default); header values are C strings (no NUL)",
               "C locale for isgraph/isspace/tolower"]
MANIFEST = {
    "text": "full for the coder: for every byte string and every chunking into update calls, decoding the encoding returns the string; "
            "every update stays within BASE64_DECODE_LENGTH / BASE64_ENCODE_LENGTH; accepted input is exactly canonical RFC 4648 text with "
            "interleaved white space for lib/base64.cc (full strength, after fix fc382f5); for the libnettle the binary links the same "
            "outside the proved counterexample class '<groups>A===' (known finding, system library); Basic credentials reach the "
            "helper whole (split at the first colon, free of NUL/CR/LF, after fix 54130c8) or not at all",
    "note": "trusted: Lean kernel, table/macro translator, harness, python oracle; lib/base64.cc is compiled out in this build "
            "(HAVE_NETTLE_BASE64_H): the harness compiles it with the macro undefined and also drives libnettle as linked",
    "technique": "Lean 4 proofs (induction over 3-byte / 4-character groups, omega on the bit arithmetic, decide over regenerated tables) "
                 "+ ASan/canary differential run of two implementations + exhaustive small scopes",
}


KNOWN_MUST_MATCH_MODEL = True   # inside a known finding's region the observation must still equal the model's (which reproduces the listed defect); see lib/vf/run.py
