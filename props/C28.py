"""C28 Range canonicalisation preserves the requested byte set."""
import os, re
from vf.util import VERIF, hx, unhx
from vf.harness import ProcHarness

ID = "C28"
PROP_MODULE = "SquidModel.Properties.C28"
MODEL = "c28"
GEN = ["range"]
RULE = ("r <hex Range value> <clen>: HttpHdrRange::ParseCreate then canonize(clen) on the real code; p <hex item> <hex tail>: "
        "HttpHdrRangeSpec::parseInit on one list item. Generators: grammar-directed spec lists (range/open/suffix) positioned around "
        "clen (0, clen-1, clen, clen+1, 2^31, 2^32, 2^63-2, 2^63-1, 2^63, 2^64), list separators with optional SP/HTAB and empty "
        "elements, every list of <=2 specs over 0..4 x clen 0..5 (thorough; 0..2 x 0..3 quick); boundary numerals (leading zeros, "
        "20+ digits); byte-level mutations (insert/replace/delete, truncation at every offset, splicing, quotes, signs, VT/FF). "
        "non-trivial = the header was accepted and at least one canonical range was produced")
TRUSTED = ["modelled, not verified: strtoll(…,10)+errno of the C library; String::caseCmp is modelled as a 6-byte case-insensitive "
           "prefix test; the list-splitting byte sets of strListGetItem are probed from the running function every run",
           "direct oracle = python big-integer reading of RFC 7233 byte-range-set (elements split at ',', SP/HTAB/VT/FF around "
           "elements and empty elements tolerated as RFC 7230 section 7 asks of recipients; VT/FF since /repo 43aac5c)"]
ASSUMPTIONS = ["header values are C strings without NUL, CR, LF (as delivered by the header parser)",
               "item-level cases (op p) use non-empty, right-trimmed items, as strListGetItem produces them",
               "0 <= clen <= INT64_MAX (Http::Stream::buildRangeHeader refuses content_length < 0 before calling canonize)"]
MANIFEST = {
    "text": "full: canon_sound_complete (every accepted header, every "
            "0<=clen<=INT64_MAX: canonize raises no overflow/assert, each canonical range is non-empty, inside [0,clen), the canonical "
            "list is the order-preserving image of the satisfiable specs with exactly their bytes), rfc_header_end_to_end (every RFC 7233 "
            "spec list with numbers <= INT64_MAX in any comma/OWS layout is read as exactly those specs and canonised to exactly their "
            "bytes), invalid_spec_ignores_header (an item that is not 1*DIGIT-1*DIGIT / 1*DIGIT- / -1*DIGIT with last>=first makes the "
            "whole header ignored), list_ends_only_at_end_of_header (the item loop stops only when nothing but commas/white space is "
            "left) and no_overflow (no input makes parsing or canonicalisation overflow or assert) are proved for all inputs of the "
            "repaired code (/repo cc9716a, 43aac5c). No known finding is left",
    "note": "trusted: Lean kernel, harness, python oracle; modelled not verified: strtoll/errno, String::caseCmp; clen < 0 is outside "
            "the domain (guarded by the only caller). `items` in invalid_spec_ignores_header are the items as strListGetItem cuts them",
    "technique": "Lean 4 proof (checked int64 arithmetic, induction over the item loop, exact characterisation of parseBytePos) + "
                 "probing translator + ASan/UBSan differential run with a big-integer set oracle",
}

I64MAX = (1 << 63) - 1
CWS = b" \t\n\x0b\x0c\r"
# white space around list elements: SP/HTAB (RFC 7230 OWS) and, by the maintainers' decision in /repo 43aac5c, VT/FF, which squid's
# list splitter treats like the other white space it trims; CR/LF do not occur in header values. Inside an element no white space
# is allowed, and every element between commas must be a spec.
LIST_WS = b" \t\x0b\x0c"


def build_exe(stage):
    built = getattr(stage, "built", None)
    if built is None:
        built = stage.built = {}
    if "c28" in built:
        return built["c28"]
    objs = [stage.compile(os.path.join(VERIF, "harness", "c28.cc"))] + stage.compile_many(
        ["src/HttpHdrRange.cc", "src/HttpHeaderTools.cc", "src/StrList.cc", "src/String.cc"])
    exe = stage.link_like("tests/testHttpRange", objs, os.path.join(stage.work, "c28"),
                          drop=["HttpHdrRange.o", "HttpHeaderTools.o", "StrList.o", "String.o"])
    built["c28"] = exe
    return exe


def build(stage):
    # no symbolised stack for UBSan stops (the summary line names file:line): a stop then costs milliseconds, not a second
    return ProcHarness([build_exe(stage)], env={"UBSAN_OPTIONS": "print_stacktrace=0:halt_on_error=1:exitcode=86"})


# ---------------------------------------------------------------------------------------------- generators

def spec_text(s):
    if s[0] == "range":
        return b"%d-%d" % (s[1], s[2])
    if s[0] == "from":
        return b"%d-" % s[1]
    return b"-%d" % s[1]


def pos_near(rng, clen):
    k = rng.below(12)
    if k == 0:
        return 0
    if k == 1:
        return max(0, clen - 1)
    if k == 2:
        return clen
    if k == 3:
        return clen + 1
    if k == 4 and clen > 1:
        return rng.range(0, clen - 1)
    if k == 5:
        return clen + rng.range(1, 1000)
    if k == 6:
        return rng.choice([1, 2, 255, 65535, (1 << 31) - 1, 1 << 31, (1 << 32) - 1, 1 << 32, (1 << 62), I64MAX - 2, I64MAX - 1, I64MAX])
    if k == 7 and clen > 3:
        return clen // 2 + rng.range(-1, 1)
    return rng.range(0, max(1, min(clen * 2, I64MAX)))


def random_spec(rng, clen):
    k = rng.below(10)
    if k < 5:
        f = pos_near(rng, clen)
        l = pos_near(rng, clen)
        if l < f and not rng.chance(1, 12):
            f, l = l, f
        return ("range", f, l)
    if k < 7:
        return ("from", pos_near(rng, clen))
    return ("suffix", pos_near(rng, clen))


CLENS = [0, 1, 2, 3, 10, 100, 1000, 65536, (1 << 31) - 1, 1 << 31, 1 << 32, (1 << 32) + 5, 1 << 62, I64MAX - 1, I64MAX]
SEPS = [b",", b",", b", ", b", ", b" ,", b" , ", b",,", b",\t", b", ,", b" \t,\t "]
UNITS = [b"bytes=", b"bytes=", b"bytes=", b"Bytes=", b"BYTES=", b"bYtEs="]


def render(rng, specs):
    out = rng.choice(UNITS)
    if rng.chance(1, 15):
        out += rng.choice([b",", b" ", b", "])
    for i, s in enumerate(specs):
        if i:
            out += rng.choice(SEPS)
        t = spec_text(s)
        if rng.chance(1, 20):      # leading zeros
            t = re.sub(rb"\d+", lambda m: b"000" + m.group(0), t, count=1)
        out += t
    if rng.chance(1, 15):
        out += rng.choice([b",", b" ", b" ,", b"\t"])
    return out


BOUNDARY_NUMS = [b"0", b"1", b"9223372036854775805", b"9223372036854775806", b"9223372036854775807", b"9223372036854775808", b"18446744073709551615",
                 b"18446744073709551616", b"99999999999999999999999999", b"00000000000000000000000000000007", b"4294967296",
                 b"2147483648"]
BOUNDARY_HEADERS = [b"bytes=", b"bytes", b"byte=0-1", b"bytes =0-1", b" bytes=0-1", b"bytes=0-1 ", b"bytes= 0-1", b"bytes=\t0-1", b"bytes=,", b"bytes=,,0-1,,",
                    b"bytes=-", b"bytes=--1", b"bytes=-0", b"bytes=0-0", b"bytes=0-", b"bytes=-1", b"bytes=1-0", b"bytes=0", b"bytes=5", b"bytes=55",
                    b"bytes=55,-3", b"bytes=0-1,5", b"bytes=0-1,5-", b"bytes=0-1;2-3", b"bytes=0-1 2-3", b"bytes=0 - 1", b"bytes=0- 1", b"bytes=0 -1",
                    b"bytes=- 1", b"bytes=+0-1", b"bytes=0-+1", b"bytes=-+1", b"bytes=0-1x", b"bytes=0x1-2", b"bytes=0-1-2", b"bytes=-1-2", b"bytes=-1-",
                    b"bytes=0--1", b"bytes=0.5-1", b"bytes=0-1.5", b"bytes=1e1-20", b"bytes=\x0b0-1", b"bytes=0-1\x0b", b"bytes=0-1,\x0b,2-3", b"bytes=0-1,\x0c",
                    b"bytes=\x0c,0-1", b"bytes=0-\x0b1", b"bytes=\"0-1\"", b"bytes=0-1\"", b"bytes=0-1,\"2-3\"", b"bytes=0-1\"x,junk\"", b"bytes=0-\"1,2-3",
                    b"bytes=0-1\\,2-3", b"bytes=\"\\\"\",0-1", b"items=0-1", b"bytes:0-1", b"", b"b", b"bytes=0-1,junk", b"bytes=junk,0-1",
                    b"bytes=0-1,2-1", b"bytes=2-1,0-1", b"bytes=0-1,-", b"bytes=0-1,1", b"bytes=0-1,1-2-", b"bytes=0-1,,", b"bytes=0-1, ,2-3"]
MUT_CHARS = b"+--,, \t\x0b\x0cxX.\"\\=;:0019a/*"


def mutate(rng, v):
    t = bytearray(v)
    k = rng.below(8)
    if k == 0 and t:
        t[rng.below(len(t))] = rng.choice(MUT_CHARS)
    elif k == 1:
        t.insert(rng.below(len(t) + 1), rng.choice(MUT_CHARS))
    elif k == 2 and t:
        del t[rng.below(len(t))]
    elif k == 3 and t:
        t = t[:rng.below(len(t) + 1)]
    elif k == 4 and t:
        p = rng.below(len(t))
        q = rng.range(p, len(t))
        t = t[:q] + t[p:]            # duplication
    elif k == 5 and t:
        c = rng.below(256)
        t[rng.below(len(t))] = c if c not in (0, 10, 13) else 32
    elif k == 6 and len(t) > 7:
        p = rng.range(6, len(t) - 1)
        t = t[:p] + rng.choice([b"\x0b", b"\x0c", b" ", b"\t", b"+", b"\"", b","]) + t[p:]
    else:
        t = t + rng.choice([b",", b"-", b"x", b" 5", b",5", b",-", b"-5"])
    return bytes(t)


def mk(value, clen):
    return "r %s %d" % (hx(value), clen)


def small_lists(hi, maxlen):
    specs = [("range", f, l) for f in range(hi + 1) for l in range(hi + 1)] + \
            [("from", f) for f in range(hi + 1)] + [("suffix", n) for n in range(hi + 1)]
    def rec(prefix, n):
        if n == 0:
            yield prefix
            return
        for s in specs:
            yield from rec(prefix + [s], n - 1)
    for n in range(1, maxlen + 1):
        yield from rec([], n)


def cases(rng, tier):
    """exhaustive scopes, numerals and valid streams first, the mutation streams last"""
    thorough = tier == "thorough"
    hi, maxc = (4, 5) if thorough else (2, 3)
    for specs in small_lists(hi, 2):
        v = b"bytes=" + b",".join(spec_text(s) for s in specs)
        if thorough:
            for clen in range(0, maxc + 1):
                yield mk(v, clen)
        else:
            yield mk(v, rng.range(0, maxc))
            yield mk(v, rng.range(0, maxc))
    for n in BOUNDARY_NUMS:
        for v in (b"bytes=" + n + b"-", b"bytes=-" + n, b"bytes=0-" + n, b"bytes=" + n + b"-" + n, b"bytes=5-6," + n + b"-"):
            for clen in (0, 10, I64MAX - 1, I64MAX):
                yield mk(v, clen)
    later = []
    n = 16000 if thorough else 2500
    for i in range(n):
        clen = rng.choice(CLENS) if rng.chance(2, 3) else rng.range(0, rng.choice([20, 5000, 1 << 33, I64MAX]))
        specs = [random_spec(rng, clen) for _ in range(rng.choice([1, 1, 2, 2, 3, 4, 6]))]
        v = render(rng, specs)
        k = rng.below(10)
        if k < 6:
            yield mk(v, clen)
        elif k < 7:     # boundary numeral spliced into a valid list
            num = rng.choice(BOUNDARY_NUMS)
            extra = rng.choice([num + b"-", b"-" + num, b"0-" + num, num + b"-" + num])
            if rng.chance(1, 6):      # regression: last-byte-pos = INT64_MAX used to overflow (fixed in cc9716a)
                extra = rng.choice([b"0-9223372036854775807", b"9223372036854775807-9223372036854775807"])
            parts = v.split(b",")
            parts.insert(rng.below(len(parts)) + 1, extra)
            yield mk(b",".join(parts), clen)
        elif k < 9:
            v2 = mutate(rng, v)
            if rng.chance(1, 4):
                v2 = mutate(rng, v2)
            later.append(mk(v2, clen))
        else:           # item-level call with a tail
            item = spec_text(rng.choice(specs))
            if rng.chance(1, 2):
                item = mutate(rng, item)
            tail = rng.choice([b"", b"", b",5-6", b" ,5-6", b",", b" ", b" 7", b"\t", b",-3", b"-3"])
            item = item.replace(b"\0", b"0").rstrip(CWS) or b"-"     # strListGetItem hands over right-trimmed, non-empty items
            later.append("p %s %s" % (hx(item), hx(tail)))
    for v in BOUNDARY_HEADERS:
        for clen in ((0, 1, 2, 10) if thorough else (2, 10)):
            yield mk(v, clen)
    # truncation of a few headers at every offset
    for v in [b"bytes=0-3, 1-, -2", b"BYTES=10-20,30-,-5", b"bytes=9223372036854775806-9223372036854775806"]:
        for k in range(len(v) + 1):
            yield mk(v[:k], 25)
    yield from later


# ---------------------------------------------------------------------------------------------- direct oracle

RANGE_RE = re.compile(rb"(\d+)-(\d*)\Z")
SUFFIX_RE = re.compile(rb"-(\d+)\Z")


def strict_spec(e):
    """RFC 7233 byte-range-spec / suffix-byte-range-spec -> tuple, or None"""
    m = RANGE_RE.match(e)
    if m:
        f = int(m.group(1))
        if m.group(2) == b"":
            return ("from", f)
        l = int(m.group(2))
        if l < f:
            return None        # "a byte-range-spec is invalid if the last-byte-pos value is present and less than the first-byte-pos"
        return ("range", f, l)
    m = SUFFIX_RE.match(e)
    if m:
        return ("suffix", int(m.group(1)))
    return None


def strict_header(value):
    """-> list of specs, or None when the value is not a byte-ranges-specifier (must be ignored)"""
    if value[:6].lower() != b"bytes=":
        return None
    specs = []
    for e in value[6:].split(b","):
        e = e.strip(LIST_WS)
        if e == b"":
            continue
        s = strict_spec(e)
        if s is None:
            return None
        specs.append(s)
    return specs or None


def wanted(spec, clen):
    """inclusive-exclusive interval of the bytes the spec selects from a representation of clen bytes, or None"""
    if spec[0] == "range":
        f, l = spec[1], spec[2]
        return (f, min(l, clen - 1) + 1) if f < clen else None
    if spec[0] == "from":
        return (spec[1], clen) if spec[1] < clen else None
    n = spec[1]
    return (max(0, clen - n), clen) if n > 0 and clen > 0 else None


def normalise(intervals):
    out = []
    for a, b in sorted(intervals):
        if out and a <= out[-1][1]:
            out[-1] = (out[-1][0], max(out[-1][1], b))
        else:
            out.append((a, b))
    return out


def huge(specs):
    return any(x > I64MAX for s in specs for x in s[1:])


def parse_specs(text):
    if text == "-":
        return []
    return [tuple(int(x) for x in t.split(":")) for t in text.split(",")]


INVALID_NOT_IGNORED = "a header with a syntactically invalid spec was not ignored"


def oracle(line, impl):
    op, a, b = line.split(" ")
    if impl.startswith("abort:") or impl.startswith("exception:") or impl.startswith("harness-inconsistency"):
        return "sanitizer/abort: " + impl
    if impl == "bad-op":
        return "harness could not read the case"
    if op == "r":
        value, clen = unhx(a), int(b)
        if b"\0" in value:
            return None if impl == "reject:nul" else "NUL not refused by the harness"
        specs = strict_header(value)
        if specs is None:
            return None if impl == "ignored" else INVALID_NOT_IGNORED
        if impl == "ignored":
            return None if huge(specs) else "a valid Range header was ignored"
        m = re.match(r"ok (\S+) (\S+)\Z", impl)
        if not m:
            return "unparsable output"
        try:
            canon = parse_specs(m.group(2))
        except ValueError:
            return "unparsable output"
        for off, ln in canon:
            if ln <= 0:
                return "canonical range %d:%d is empty" % (off, ln)
            if off < 0 or off + ln > clen:
                return "canonical range %d:%d is outside the representation of %d bytes" % (off, ln, clen)
        want = [w for w in (wanted(s, clen) for s in specs) if w]
        if normalise((o, o + l) for o, l in canon) != normalise(want):
            return "canonical ranges do not cover exactly the requested bytes"
        return None
    if op == "p":
        item = unhx(a)
        if not item or item != item.rstrip(CWS):
            return None        # outside the contract of parseInit's only caller: items are non-empty and right-trimmed
        s = strict_spec(item)
        if s is None:
            return None if impl == "invalid" else INVALID_NOT_IGNORED + " (item level)"
        if impl == "invalid":
            return None if huge([s]) else "a valid spec was refused"
        m = re.match(r"ok (-?\d+):(-?\d+)\Z", impl)
        if not m:
            return "unparsable output"
        off, ln = int(m.group(1)), int(m.group(2))
        want = {"range": lambda: (s[1], s[2] + 1 - s[1]), "from": lambda: (s[1], -1), "suffix": lambda: (-1, s[1])}[s[0]]()
        if (off, ln) == want:
            return None
        # no representation has a byte at position INT64_MAX (lengths are int64): a spec stored with last-byte-pos INT64_MAX-1
        # instead of INT64_MAX selects the same bytes from every representation
        if s[0] == "range" and s[2] == I64MAX and (off, ln) == (s[1], s[2] - s[1]):
            return None
        return "spec parsed to %d:%d, expected %d:%d" % ((off, ln) + want)
    return "unknown op"


def shrink(line):
    op, a, b = line.split(" ")
    v = unhx(a)
    n = len(v)
    step = max(1, n // 2)
    while step >= 1:
        for off in range(0, n, step):
            c = v[:off] + v[off + step:]
            yield "%s %s %s" % (op, hx(c), b)
        step //= 2
    if op == "r":
        for c in (0, 1, 2, 10):
            if str(c) != b:
                yield "%s %s %d" % (op, a, c)


def nontrivial(line, impl, model):
    return impl.startswith("ok ") and not impl.endswith(" -")


def tag(line, impl, model):
    op, a, b = line.split(" ")
    out = "abort" if impl.startswith("abort:") else impl.split(" ")[0]
    if op == "r":
        specs = strict_header(unhx(a))
        kind = "invalid" if specs is None else "valid%s" % ("1" if len(specs) == 1 else "2-3" if len(specs) <= 3 else "4+")
        if out == "ok":
            out = "ok-none" if impl.endswith(" -") else "ok-some"
    else:
        kind = "valid" if strict_spec(unhx(a)) is not None else "invalid"
    return "%s %s %s" % (op, kind, out)


def exhaustive(tier):
    return True
