"""C45 http_access decisions are enforced end to end."""
import os, re, sys, ipaddress
from vf.util import VERIF

sys.path.insert(0, VERIF)
from harness import c45 as H

ID = "C45"
PROP_MODULE = "SquidModel.Properties.C45"
MODEL = "c45"
GEN = ["http_access_cfg"]
RULE = ("scenario = one generated squid.conf section (acl lines of types src/dst/dstdomain/port/method, also appended to and negated, "
        "http_access rules, built-in ACLs) + 6-10 forward-proxy requests (method x client address x URL host x URL port) over a fixed universe on "
        "127.45.0.0/16 (hosts-file names, DNS names incl. multi-address and NXDOMAIN, numeric hosts with / without PTR), sent through the "
        "rebuilt squid started with that section; observation per request = arrival at the origin + client status; non-trivial = the section is "
        "accepted and its rules refer to at least one generated ACL; distinct = distinct scenario lines")
TRUSTED = ["modelled, not verified: TCP/Comm I/O, request parsing (tied separately), error page generation, peer selection and the forwarding path "
           "after the access decision; the splay containers behind src/dst/dstdomain values are taken as the list of their values (C41, C42 prove that "
           "for the trees, outside their known findings); DNS answers are inputs (the ipcache/fqdncache and the async pause/resume of ACLChecklist are C44's)"]
ASSUMPTIONS = ["forward-proxy requests on a plain http_port, default follow_x_forwarded_for (deny all), no authentication, no adapted_http_access, cache deny all",
               "IPv4 universe; ACL value text inside the grammar described in SquidModel/Acl/HttpIp.lean / HttpConf.lean (other text is reported as `unmodelled` by both sides)"]
MANIFEST = {
    "engine": "e2e",
    "text": "partial: for the decision model read out of the configuration parser (acl / http_access lines, built-in ACLs, defaults_if_none), the five ACL "
            "types' parse()/match() and the rule evaluation (AndNode/NotNode/Tree first match, implicit reversal of the last action): "
            "forward_iff_reference_allows, denied_never_reaches_origin and the text-level theorems hold for all configurations and requests; the model is "
            "tied to the rebuilt binary by scenario correspondence (squid started with each generated section; per request the observed "
            "arrival-at-origin / 403 / 503 must equal the model's) and a direct python reference evaluation of the section. The runtime behaviour the "
            "model cannot exhibit: socket I/O, DNS timing, the forwarding path after the decision.",
    "note": "trusted: Lean kernel, python rig (origin on every universe address x port, DNS stub, clients bound to the universe's source addresses), loopback TCP",
    "technique": "Lean 4 proofs about the parse + evaluation model + end-to-end scenario correspondence with the rebuilt squid",
}
MINIMISE_BUDGET = 40
MAX_REPORT = 2


def build(stage):
    return H.Harness(stage)


# ------------------------------------------------------------------------------------------------ generators

METHODS = ["GET", "HEAD", "POST", "PUT", "DELETE", "OPTIONS", "CONNECT", "PATCH", "FOO"]
ADDR_POOL = H.SRCS + H.ORIGIN_IPS


def ip_int(s):
    return int(ipaddress.IPv4Address(s))


def ip_str(v):
    return str(ipaddress.IPv4Address(v & 0xFFFFFFFF))


def gen_ip_value(rng, pool, style=None):
    a = rng.choice(pool)
    k = style if style is not None else rng.below(10)
    v = ip_int(a)
    if k <= 2:
        return a
    if k <= 5:
        ln = rng.choice([8, 16, 24, 24, 29, 30, 31, 32, 15, 23])
        net = v >> (32 - ln) << (32 - ln)
        return "%s/%d" % (ip_str(net), ln)
    if k <= 7:
        lo = v - rng.choice([0, 0, 1, 2, 5])
        hi = v + rng.choice([0, 0, 1, 3, 250])
        return "%s-%s" % (ip_str(lo), ip_str(hi))
    if k == 8:
        ln = rng.choice([8, 16, 24])
        net = v >> (32 - ln) << (32 - ln)
        return "%s/%s" % (ip_str(net), ip_str((0xFFFFFFFF << (32 - ln)) & 0xFFFFFFFF))
    return "all" if rng.chance(1, 4) else a


DOMAIN_VALUES = [".example.com", "example.com", "a.example.com", ".sub.example.com", "www.sub.example.com", ".test", "other.test", ".example.net",
                 "dyn.example.net", "multi.example.net", "nx.example.net", ".example.org", "ptr.example.org", "none", ".com", "b.example.com",
                 "x-example.com", ".net", "xample.com", ".a.example.com"]


def gen_acl(rng, name, ty=None):
    ty = ty or rng.choice(["src", "src", "dst", "dst", "dstdomain", "dstdomain", "port", "method"])
    n = rng.range(1, 3)
    if ty == "src":
        vals = [gen_ip_value(rng, H.SRCS) for _ in range(n)]
    elif ty == "dst":
        vals = [gen_ip_value(rng, H.ORIGIN_IPS) for _ in range(n)]
    elif ty == "dstdomain":
        vals = [rng.choice(DOMAIN_VALUES) for _ in range(n)]
    elif ty == "port":
        vals = []
        for _ in range(n):
            p = rng.choice(H.PORTS)
            k = rng.below(4)
            vals.append(str(p) if k < 2 else "%d-%d" % (max(0, p - rng.choice([0, 1, 80])), min(65535, p + rng.choice([0, 1, 1000]))))
    else:
        vals = [rng.choice(METHODS) for _ in range(n)]
    return "acl %s %s %s" % (name, ty, " ".join(dedup_ip(vals) if ty in ("src", "dst") else vals)), ty


def dedup_ip(vals):
    out = []
    for v in vals:
        if v not in out:
            out.append(v)
    return out


def gen_rules(rng, names, nrules=None):
    rules = []
    for _ in range(nrules if nrules is not None else rng.range(1, 4)):
        lits = []
        for _ in range(rng.choice([1, 1, 2, 2, 3])):
            n = rng.choice(names)
            lits.append(("!" if rng.chance(1, 3) else "") + n)
        rules.append("http_access %s %s" % (rng.choice(["allow", "deny"]), " ".join(lits)))
    return rules


def gen_requests(rng, n):
    reqs = []
    hosts = H.all_hosts()
    for _ in range(n):
        m = rng.choice(METHODS) if rng.chance(2, 3) else "GET"
        host = rng.choice(hosts)
        if rng.chance(1, 12) and not re.match(r"\d", host):
            host = host.upper() if rng.chance(1, 2) else host.title()
        if rng.chance(1, 14) and not re.match(r"\d", host):
            host = host + "."                     # trailing dot: removed by the URL parser
        port = rng.choice([None, 80, 8080, 8081, 3128, 443]) if m != "CONNECT" else rng.choice([443, 8080, 3128])
        xff = rng.choice(H.SRCS + ["10.1.2.3"]) if rng.chance(1, 8) else None     # must not influence src ACLs (follow_x_forwarded_for deny all)
        if rng.chance(1, 25) and m in ("GET", "POST"):
            m = m.lower()                         # relaxed_header_parser: read as the registered method
        reqs.append(H.req_token(m, rng.choice(H.SRCS), host, port, xff))
    return reqs


def mk(conf_lines, reqs):
    return H.conf_token(conf_lines) + " " + " ".join(reqs)


def valid_conf(rng):
    nacl = rng.range(1, 4)
    lines, names = [], []
    for i in range(nacl):
        l, ty = gen_acl(rng, "g%d" % i)
        lines.append(l)
        names.append("g%d" % i)
        if rng.chance(1, 6):       # a second line appends values to the same ACL
            l2, _ = gen_acl(rng, "g%d" % i, ty)
            lines.append(l2)
    pool = names + (["all"] if rng.chance(1, 2) else []) + (["localhost", "to_localhost", "CONNECT"] if rng.chance(1, 4) else [])
    rules = gen_rules(rng, pool)
    if rng.chance(1, 2):
        rules.append("http_access %s all" % rng.choice(["deny", "deny", "allow"]))
    # interleave: a rule may come before later acl lines as long as its names are defined
    return lines + rules


BOUNDARY_CONFS = [
    # implicit default = reverse of the last rule; no rule at all = deny
    [],
    ["acl g0 src 127.45.10.1", "http_access allow g0"],
    ["acl g0 src 127.45.10.1", "http_access deny g0"],
    ["acl g0 src 127.45.10.1", "http_access deny g0", "http_access allow !g0"],
    # CIDR edges around the client addresses
    ["acl g0 src 127.45.10.0/31", "http_access allow g0", "http_access deny all"],
    ["acl g0 src 127.45.10.2/31", "http_access allow g0", "http_access deny all"],
    ["acl g0 src 127.45.10.0/30", "http_access allow g0", "http_access deny all"],
    ["acl g0 src 127.45.10.1/32", "http_access allow g0", "http_access deny all"],
    ["acl g0 src 127.45.0.0/16", "http_access allow g0", "http_access deny all"],
    ["acl g0 src 127.44.0.0/15", "http_access allow g0", "http_access deny all"],
    ["acl g0 src 127.0.0.0/8", "http_access deny g0", "http_access allow all"],
    ["acl g0 src 128.0.0.0/1", "http_access allow g0", "http_access deny all"],
    ["acl g0 src 127.45.10.2-127.45.11.0", "http_access allow g0", "http_access deny all"],
    ["acl g0 src 127.45.10.2-127.45.11.1", "http_access allow g0", "http_access deny all"],
    ["acl g0 src 127.45.10.1-127.45.10.1", "http_access allow g0", "http_access deny all"],
    ["acl g0 src 127.45.10.0/255.255.255.0", "http_access allow g0", "http_access deny all"],
    ["acl g0 src 127.45.10.1 127.45.11.1", "acl g0 src 127.46.0.1", "http_access allow g0", "http_access deny all"],
    # destination addresses: multi-address names, DNS names, unresolvable names, numeric hosts
    ["acl g0 dst 127.45.3.9", "http_access allow g0", "http_access deny all"],
    ["acl g0 dst 127.45.3.9", "http_access deny g0", "http_access allow all"],
    ["acl g0 dst 127.45.4.0/24", "http_access allow g0", "http_access deny all"],
    ["acl g0 dst 127.45.0.0/16", "http_access deny !g0", "http_access allow all"],
    ["acl g0 dst all", "http_access allow g0", "http_access deny all"],
    ["acl g0 dst -n 127.45.0.0/16", "http_access allow g0", "http_access deny all"],
    ["http_access allow to_localhost", "http_access deny all"],
    ["http_access deny to_localhost", "http_access allow localhost", "http_access deny all"],
    # domains
    ["acl g0 dstdomain .example.com", "http_access allow g0", "http_access deny all"],
    ["acl g0 dstdomain example.com", "http_access allow g0", "http_access deny all"],
    ["acl g0 dstdomain xample.com .ample.com", "http_access allow g0", "http_access deny all"],
    ["acl g0 dstdomain .EXAMPLE.com", "http_access allow g0", "http_access deny all"],
    ["acl g0 dstdomain x-example.com .example.com", "http_access allow g0", "http_access deny all"],
    ["acl g0 dstdomain none", "http_access allow g0", "http_access deny all"],
    ["acl g0 dstdomain .example.org a.example.com", "http_access allow g0", "http_access deny all"],
    ["acl g0 dstdomain -n .example.org a.example.com", "http_access allow g0", "http_access deny all"],
    ["acl g0 dstdomain a.example.com .example.com", "http_access allow g0", "http_access deny all"],
    # ports
    ["acl g0 port 80", "http_access allow g0", "http_access deny all"],
    ["acl g0 port 81-8079", "http_access allow g0", "http_access deny all"],
    ["acl g0 port 81-8080", "http_access allow g0", "http_access deny all"],
    ["acl g0 port 0-79 8081-65535", "http_access deny g0", "http_access allow all"],
    ["acl g0 port 0 65535", "http_access allow g0", "http_access deny all"],
    # methods
    ["acl g0 method GET HEAD", "http_access allow g0", "http_access deny all"],
    ["acl g0 method FOO", "http_access allow g0", "http_access deny all"],
    ["acl g0 method PATCH", "http_access deny g0", "http_access allow all"],
    ["http_access deny CONNECT", "http_access allow all"],
    ["acl g0 port 443", "http_access deny CONNECT !g0", "http_access allow all"],
    # long conjunctions
    ["acl g0 src 127.45.10.0/24", "acl g1 dstdomain .example.com", "acl g2 port 8080", "acl g3 method GET", "http_access allow g0 g1 g2 g3", "http_access deny all"],
    ["acl g0 src 127.45.10.0/24", "acl g1 dstdomain .example.com", "http_access allow g0 !g1", "http_access allow !g0 g1", "http_access deny all"],
]

QUICK_CORE = [
    ["acl g0 src 127.45.10.1", "http_access allow g0"],                                   # implicit deny after a trailing allow
    ["acl g0 src 127.45.10.1", "http_access deny g0"],                                    # implicit allow after a trailing deny
    ["acl g0 src 127.45.10.0/31", "http_access allow g0", "http_access deny all"],        # CIDR edge
    ["acl g0 src 127.45.10.2-127.45.11.1", "http_access allow g0", "http_access deny all"],   # range ends on a client address
    ["acl g0 dst 127.45.3.9", "http_access deny g0", "http_access allow all"],            # second address of a multi-address name
    ["acl g0 dst -n 127.45.0.0/16", "http_access allow g0", "http_access deny all"],
    ["acl g0 dstdomain none", "http_access allow g0", "http_access deny all"],            # numeric host without PTR
    ["acl g0 dstdomain .example.org a.example.com", "http_access allow g0", "http_access deny all"],   # PTR names
    ["acl g0 dstdomain x-example.com .example.com", "http_access allow g0", "http_access deny all"],
    ["acl g0 port 81-8080", "http_access allow g0", "http_access deny all"],
    ["acl g0 port 443", "http_access deny CONNECT !g0", "http_access allow all"],
    ["acl g0 src 127.45.10.0/24", "acl g1 dstdomain .example.com", "http_access allow g0 !g1", "http_access allow !g0 g1", "http_access deny all"],
]

# configurations whose text leaves the canonical grammar of the reference (the oracle keeps to its generic part there; the model still has to agree)
ODD_CONFS = [
    ["acl g0 src 127.45.10.1/24", "http_access allow g0", "http_access deny all"],            # mask cuts off part of the address
    ["acl g0 src 127.45.10.1-127.45.10.9/24", "http_access allow g0", "http_access deny all"],
    ["acl g0 src 127.45.10.1/0", "http_access allow g0", "http_access deny all"],
    ["acl g0 src 127.45.10.0/255.0.255.0", "http_access allow g0", "http_access deny all"],
    ["acl g0 method get", "http_access allow g0", "http_access deny all"],
    ["acl g0 method PO", "http_access allow g0", "http_access deny all"],
    ["acl g0 method G", "http_access deny g0", "http_access allow all"],
    ["acl g0 method METHOD_OTHER", "http_access allow g0", "http_access deny all"],
    ["acl g0 dstdomain .45.0.1", "http_access allow g0", "http_access deny all"],
    ["acl g0 src 127.45.10.1", "http_access permit g0", "http_access deny all"],
    ["acl g0 src 127.45.10.1", "http_access allow g0", "http_access"],
    ["acl g0 src 127.45.10.1", "http_access allow", "http_access allow g0"],
    ["acl g0 src 127.45.10.1 # 127.45.10.2", "http_access allow g0 #all", "http_access deny all"],
    ["acl g0 src", "http_access allow g0", "http_access deny all"],
    ["acl g0 src 127.45.10.1", "http_access allow !!g0"],
    ["acl g0 src 127.45.10.1", "http_access allow g1"],
    ["http_access allow g0", "acl g0 src 127.45.10.1"],
    ["acl g0 src 127.45.10.1", "acl g0 dst 127.45.0.1", "http_access allow g0"],
    ["acl all dst 127.45.0.1", "http_access allow all"],
    ["acl g0 src 127.45.10.1/33", "http_access allow g0"],
    ["acl g0 src 300.45.10.1/24", "http_access allow g0"],
    ["acl g0 src 127.45.10.1-127.45.300.1", "http_access allow g0"],
    ["acl g0 port 65536", "http_access allow g0"],
    ["acl g0 port 8081-8080", "http_access allow g0"],
    ["acl g0 port http", "http_access allow g0"],
    ["acl g0", "http_access allow all"],
    ["acl", "http_access allow all"],
    ["acl g0 src 127.45.10.1", "acl g0 src 127.45.10.1", "http_access allow g0", "http_access deny all"],
    ["acl g0 src 127.45.10.0/24 127.45.10.1", "http_access allow g0", "http_access deny all"],
    ["acl g0 src 127.45.10.1 127.45.10.0/24", "http_access deny g0", "http_access allow all"],
    ["acl g0 src 127.45.10.1-127.45.10.9 127.45.10.5-127.45.11.1", "http_access allow g0", "http_access deny all"],
    ["acl g0 dstdomain a.example.com .example.com b.example.com", "http_access deny g0", "http_access allow all"],
    ["acl g0 src all 127.45.10.1", "http_access deny g0", "http_access allow all"],
    ["acl g0 src ipv4", "http_access allow g0"],
    ["acl g0 src ipv6", "http_access allow g0", "http_access deny all"],
    ["acl g0 src 0.0.0.0/0", "http_access allow g0", "http_access deny all"],
    ["acl g0 dst -- 127.45.0.1", "http_access allow g0", "http_access deny all"],
    ["acl g0 dst -n 127.45.0.1", "acl g0 dst 127.45.4.4", "http_access allow g0", "http_access deny all"],      # -n persists over later lines
    ["acl g0 dstdomain ptr.example.org", "acl g0 dstdomain -n none", "http_access allow g0", "http_access deny all"],
    ["acl g0 url_regex foo", "http_access allow g0"],
    ["acl g0 dstdomain ..example.com", "http_access allow g0"],       # two leading dots: outside the scope (C41)
    ["http_access allow manager", "http_access deny all"],
    ["acl g0 src 127.45.10.1", "cache deny g0", "http_access allow g0"],
    # ACL names are compared without regard to case (NamedAcls uses CaseInsensitiveSBufHash/Equal)
    ["acl Foo src 127.45.10.1", "acl FOO src 127.45.10.2", "http_access allow foo", "http_access deny ALL"],
    ["acl All dst 127.45.0.1", "http_access allow all"],
    ["acl g0 src 127.45.10.1", "http_access allow !G0 Connect", "http_access deny all"],
]


def mutate(rng, lines):
    lines = list(lines)
    k = rng.below(12)
    acl_idx = [i for i, l in enumerate(lines) if l.startswith("acl ")]
    rule_idx = [i for i, l in enumerate(lines) if l.startswith("http_access ")]
    if k == 0 and acl_idx:           # a definition disappears
        del lines[rng.choice(acl_idx)]
    elif k == 1 and rule_idx and len(rule_idx) > 1:   # rule order
        i, j = rule_idx[0], rule_idx[-1]
        lines[i], lines[j] = lines[j], lines[i]
    elif k == 2 and rule_idx:        # action flipped
        i = rng.choice(rule_idx)
        w = lines[i].split()
        w[1] = "deny" if w[1] == "allow" else "allow"
        lines[i] = " ".join(w)
    elif k == 3 and rule_idx:        # a literal negated / un-negated
        i = rng.choice(rule_idx)
        w = lines[i].split()
        if len(w) > 2:
            j = rng.range(2, len(w) - 1)
            w[j] = w[j][1:] if w[j].startswith("!") else "!" + w[j]
            lines[i] = " ".join(w)
    elif k == 4 and acl_idx:         # the same name again with another type
        i = rng.choice(acl_idx)
        w = lines[i].split()
        lines.insert(i + 1, "acl %s %s %s" % (w[1], "port" if w[2] != "port" else "src", "8080" if w[2] != "port" else "127.45.10.1"))
    elif k == 5 and rule_idx:        # bad action word
        i = rng.choice(rule_idx)
        w = lines[i].split()
        w[1] = rng.choice(["Allow", "permit", "DENY", "allowed"])
        lines[i] = " ".join(w)
    elif k == 6 and rule_idx:        # rule cut short / duplicated
        i = rng.choice(rule_idx)
        if rng.chance(1, 2):
            lines[i] = " ".join(lines[i].split()[:2])
        else:
            lines.insert(i, lines[i])
    elif k == 7 and acl_idx:         # a value goes bad
        i = rng.choice(acl_idx)
        w = lines[i].split()
        bad = {"src": ["127.45.10.1/33", "127.45.10.256/24", "127.45.10.1/255.255.0.255"], "dst": ["127.45.0.1/64", "127.45.0.1-127.45.0.999"],
               "port": ["65536", "99999", "8081-8080", "x80"], "dstdomain": [".EXAMPLE.COM", "A.Example.Com"], "method": ["get", "Post", "PO", "CONNEC"]}[w[2]]
        w.append(rng.choice(bad))
        lines[i] = " ".join(w)
    elif k == 8 and acl_idx:         # comment in the middle of a line
        i = rng.choice(acl_idx + rule_idx)
        w = lines[i].split()
        j = rng.range(1, len(w))
        w.insert(j, "#x")
        lines[i] = " ".join(w)
    elif k == 9 and acl_idx:         # -n on lookups
        i = rng.choice(acl_idx)
        w = lines[i].split()
        if w[2] in ("dst", "dstdomain"):
            w.insert(3, "-n")
            lines[i] = " ".join(w)
    elif k == 10:                    # a rule before its definition
        if acl_idx and rule_idx:
            i = acl_idx[-1]
            l = lines.pop(i)
            lines.append(l)
    else:                            # everything after the first rule is dropped
        if rule_idx:
            lines = lines[:rule_idx[0] + 1]
    return lines


def exhaustive_confs():
    decls = ["acl a src 127.45.10.0/24", "acl b dstdomain .example.com", "acl c port 8080", "acl d method GET"]
    lits = [s + n for n in "abcd" for s in ("", "!")]
    rules = ["http_access %s %s" % (act, l) for act in ("allow", "deny") for l in lits]
    yield decls
    for r1 in rules:
        yield decls + [r1]
        for r2 in rules:
            yield decls + [r1, r2]


EXH_REQS = [("GET", "127.45.10.1", "a.example.com", 8080), ("GET", "127.45.11.1", "a.example.com", 8080), ("GET", "127.45.10.1", "other.test", 8080),
            ("POST", "127.45.10.1", "a.example.com", 8080), ("GET", "127.45.10.2", "b.example.com", 80), ("PUT", "127.46.0.1", "dyn.example.net", 8081),
            ("GET", "127.45.10.1", "nx.example.net", 8080), ("GET", "127.0.0.1", "127.45.0.1", None)]


def fixed_requests():
    """a request set that touches every dimension (used with the boundary configurations)"""
    R = H.req_token
    return [R("GET", "127.45.10.1", "a.example.com", 8080), R("GET", "127.45.10.2", "b.example.com", None), R("POST", "127.45.11.1", "www.sub.example.com", 80),
            R("GET", "127.46.0.1", "other.test", 8081), R("HEAD", "127.0.0.1", "multi.example.net", 3128), R("GET", "127.45.10.1", "dyn.example.net", 8080),
            R("PUT", "127.45.10.2", "nx.example.net", 80), R("GET", "127.45.10.1", "127.45.0.1", 8080), R("DELETE", "127.45.11.1", "127.45.5.5", 80),
            R("GET", "127.45.10.1", "127.45.6.6", 8081), R("CONNECT", "127.45.10.1", "a.example.com", 443), R("CONNECT", "127.45.10.2", "other.test", 8080),
            R("PATCH", "127.45.10.1", "x-example.com", 80), R("FOO", "127.45.10.1", "A.Example.COM", 8080), R("OPTIONS", "127.45.10.1", "127.45.1.1", 80),
            R("GET", "127.45.11.1", "a.example.com.", 8080, "127.45.10.1"), R("GET", "127.45.10.1", "b.example.com", 8080, "127.46.0.1")]


def cases(rng, tier):
    thorough = tier == "thorough"
    fixed = fixed_requests()
    # boundary stream: in the quick tier a core that touches every branch of the decision logic + a random handful of the rest
    if thorough:
        bsel = BOUNDARY_CONFS
    else:
        core = [c for c in BOUNDARY_CONFS if c in QUICK_CORE]
        rest = [c for c in BOUNDARY_CONFS if c not in QUICK_CORE]
        bsel = core + [rest[i] for i in sorted(set(rng.below(len(rest)) for _ in range(5)))]
    for c in bsel:
        yield mk(c, fixed)
    # valid stream
    for _ in range(220 if thorough else 18):
        yield mk(valid_conf(rng), gen_requests(rng, rng.range(6, 10)))
    # mutation stream
    for _ in range(120 if thorough else 12):
        yield mk(mutate(rng, valid_conf(rng)), gen_requests(rng, rng.range(4, 8)))
    osel = ODD_CONFS if thorough else [ODD_CONFS[i] for i in sorted(set(rng.below(len(ODD_CONFS)) for _ in range(10)))]
    for c in osel:
        yield mk(c, rng.shuffle(list(fixed))[:8])
    if thorough:
        reqs = [H.req_token(*r) for r in EXH_REQS]
        for c in exhaustive_confs():
            yield mk(c, reqs)


def exhaustive(tier):
    return tier == "thorough"


# ------------------------------------------------------------------------------------------------ the reference evaluation (direct oracle)

class NonCanonical(Exception):
    pass


class Invalid(Exception):
    pass


def ref_ip_set(vals):
    """-> (everything?, [(lo, hi)])"""
    everything, ranges = False, []
    for v in vals:
        if v == "all":
            everything = True
            continue
        if v in H.V6_LITERALS:
            continue
        m = re.fullmatch(r"(\d+\.\d+\.\d+\.\d+)(?:-(\d+\.\d+\.\d+\.\d+))?(?:/(\d+(?:\.\d+\.\d+\.\d+)?))?", v)
        if not m:
            raise NonCanonical(v)
        a, b, mask = m.groups()
        try:
            ai = ip_int(a)
            bi = ip_int(b) if b else None
        except ipaddress.AddressValueError:
            raise Invalid(v)
        if re.search(r"(^|\.)0\d", a + "." + (b or "0")):
            raise NonCanonical(v)
        if b is not None:
            if mask is not None:
                raise NonCanonical(v)      # a range with a mask: no agreed meaning
            if bi < ai:
                raise NonCanonical(v)
            ranges.append((ai, bi))
            continue
        if mask is None:
            ranges.append((ai, ai))
            continue
        if "." in mask:
            try:
                mi = ip_int(mask)
            except ipaddress.AddressValueError:
                raise Invalid(v)
            ln = bin(mi).count("1")
            if mi != (0xFFFFFFFF << (32 - ln)) & 0xFFFFFFFF:
                raise NonCanonical(v)      # non-contiguous netmask
        else:
            ln = int(mask)
            if ln > 32:
                raise Invalid(v)
        size = 1 << (32 - ln)
        net = ai - ai % size
        if net != ai:
            raise NonCanonical(v)          # host bits set under the mask
        ranges.append((net, net + size - 1))
    return everything, ranges


def ref_domain_match(v, h):
    v, h = v.lower(), h.lower().lstrip(".")
    if not h:
        return False
    if v.startswith("."):
        return h == v[1:] or h.endswith(v)
    return h == v


def ref_parse(lines):
    """the section as the reference understands it -> (acls, rules); raises NonCanonical / Invalid"""
    acls = {"all": ("src", ["all"], False), "localhost": ("src", ["127.0.0.1/32"], False),
            "to_localhost": ("dst", ["127.0.0.0/8", "0.0.0.0/32"], False), "to_linklocal": ("dst", ["169.254.0.0/16"], False),
            "CONNECT": ("method", ["CONNECT"], False)}
    rules = []
    for l in lines:
        w = l.split()
        if not w:
            continue
        if any(t.startswith("#") for t in w):
            raise NonCanonical("comment")
        if w[0] == "acl":
            if len(w) < 4:
                raise NonCanonical("acl line without values")
            name, ty, vals = w[1], w[2], w[3:]
            if ty not in ("src", "dst", "dstdomain", "port", "method"):
                raise NonCanonical(ty)
            if name not in acls and name.lower() in [n.lower() for n in acls]:
                raise NonCanonical("ACL name differing only in case")
            nolookup = False
            if vals[0] == "-n" and ty in ("dst", "dstdomain"):
                nolookup, vals = True, vals[1:]
            if any(v[0] in "-+\"'" for v in vals) or not vals:
                raise NonCanonical("flags")
            if name == "manager":
                raise NonCanonical("manager")
            if name in acls:
                if acls[name][0] != ty:
                    raise Invalid("type change")
                acls[name] = (ty, acls[name][1] + vals, acls[name][2] or nolookup)
            else:
                acls[name] = (ty, vals, nolookup)
            # value syntax
            if ty in ("src", "dst"):
                ref_ip_set(vals)
            elif ty == "port":
                for v in vals:
                    m = re.fullmatch(r"(0|[1-9]\d*)(?:-(0|[1-9]\d*))?", v)
                    if not m:
                        raise NonCanonical(v)
                    a = int(m.group(1))
                    b = int(m.group(2)) if m.group(2) else a
                    if a > 65535 or b > 65535 or b < a:
                        raise Invalid(v)
            elif ty == "method":
                for v in vals:
                    if not re.fullmatch(r"[A-Z][A-Z_-]*", v):
                        raise NonCanonical(v)
            else:
                for v in vals:
                    if not re.fullmatch(r"\.?[a-z0-9-]+(\.[a-z0-9-]+)*", v) or re.fullmatch(r"[.0-9]+", v):
                        raise NonCanonical(v)
        elif w[0] == "http_access":
            if len(w) < 3 or w[1] not in ("allow", "deny"):
                raise NonCanonical("rule shape")
            lits = []
            for t in w[2:]:
                neg = t.startswith("!")
                n = t[1:] if neg else t
                if n == "manager" or n.startswith("!"):
                    raise NonCanonical(n)
                if n not in acls:
                    if n.lower() in [x.lower() for x in acls]:
                        raise NonCanonical("ACL name differing only in case")
                    raise Invalid("undefined ACL " + n)
                lits.append((neg, n))
            rules.append((w[1] == "allow", lits))
        else:
            raise NonCanonical(w[0])
    return acls, rules


def ref_acl_match(acl, r):
    ty, vals, nolookup = acl
    if ty == "src":
        everything, ranges = ref_ip_set(vals)
        v = ip_int(r["src"])
        return everything or any(lo <= v <= hi for lo, hi in ranges)
    if ty == "dst":
        everything, ranges = ref_ip_set(vals)
        numeric = re.fullmatch(r"\d+\.\d+\.\d+\.\d+", r["host"]) is not None
        if nolookup and not numeric:
            return False
        return any(everything or any(lo <= ip_int(ip) <= hi for lo, hi in ranges) for ip in r["ips"])
    if ty == "dstdomain":
        if any(ref_domain_match(v, r["host"]) for v in vals):
            return True
        numeric = re.fullmatch(r"\d+\.\d+\.\d+\.\d+", r["host"]) is not None
        if not numeric or nolookup:
            return False
        name = r["rdns"] if r["rdns"] else "none"
        return any(ref_domain_match(v, name) for v in vals)
    if ty == "port":
        p = r["port"] if r["port"] is not None else 80
        for v in vals:
            a, _, b = v.partition("-")
            if int(a) <= p <= int(b or a):
                return True
        return False
    if ty == "method":
        if not re.fullmatch(r"[A-Z][A-Z_-]*", r["method"]):
            raise NonCanonical("request method spelling")
        if METHOD_MODE[0] == "prefix":
            return any(prefix_reading(v) == r["method"] for v in vals)
        return r["method"] in vals
    raise NonCanonical(ty)


# what squid's registered method names are (only used to *recognise* the known finding C45-method-acl-prefix: the reference itself
# compares method names for equality)
REGISTERED = ["GET", "POST", "PUT", "HEAD", "CONNECT", "TRACE", "OPTIONS", "DELETE", "LINK", "UNLINK", "CHECKOUT", "CHECKIN", "UNCHECKOUT",
              "MKWORKSPACE", "VERSION-CONTROL", "REPORT", "UPDATE", "LABEL", "MERGE", "BASELINE-CONTROL", "MKACTIVITY", "PROPFIND",
              "PROPPATCH", "MKCOL", "COPY", "MOVE", "LOCK", "UNLOCK", "SEARCH", "PRI", "PURGE"]
METHOD_MODE = ["exact"]


def prefix_reading(v):
    for m in REGISTERED:
        if m.startswith(v):
            return m
    return v


def has_prefix_value(conf):
    for l in conf:
        w = l.split()
        if len(w) > 3 and w[0] == "acl" and w[2] == "method":
            for v in w[3:]:
                if v not in REGISTERED and prefix_reading(v) != v:
                    return True
    return False


def ref_allowed(acls, rules, r):
    r = dict(r, host=r["host"].rstrip("."))      # a trailing dot does not make another host
    for allow, lits in rules:
        if all(ref_acl_match(acls[n], r) != neg for neg, n in lits):
            return allow
    if not rules:
        return False
    return not rules[-1][0]


def oracle(line, impl):
    p = H.parse_line(line)
    if p is None:
        return None
    conf, reqs = p
    if impl.startswith("abort") or impl in ("bad-op", "bad-universe"):
        return "no usable observation: " + impl[:120]
    if impl == "unmodelled":
        return None
    obs = impl.split(" ")
    rejected = impl.startswith("reject:")
    if not rejected and impl != "none":
        if len(obs) != len(reqs):
            return "observation count differs from request count"
        for o, r in zip(obs, reqs):
            if o not in ("fwd", "deny", "dnsfail"):
                return "request %s|%s|%s: neither forwarded intact nor refused with an access-denied error (%s)" % (r["method"], r["src"], r["host"], o)
            if o == "dnsfail" and r["ips"]:
                return "resolvable host answered with a DNS failure"
    try:
        acls, rules = ref_parse(conf)
    except NonCanonical:
        return None
    except Invalid as e:
        if not rejected:
            return "a section the reference calls invalid (%s) was accepted" % e
        return None
    if rejected:
        return "valid section refused: " + impl
    for o, r in zip(obs, reqs):
        try:
            want = ref_allowed(acls, rules, r)
        except NonCanonical:
            continue
        if want and o == "deny":
            return "reference allows %s|%s|%s|%s but squid denied it" % (r["method"], r["src"], r["host"], r["port"])
        if not want and o != "deny":
            return "reference denies %s|%s|%s|%s but squid answered %s" % (r["method"], r["src"], r["host"], r["port"], o)
        if want and o == "fwd" and not r["ips"]:
            return "unresolvable host forwarded"
    return None


def compare(line, impl, model):
    return impl == model


def nontrivial(line, impl, model):
    return not impl.startswith(("reject", "abort", "bad", "unmodelled")) and re.search(r"[,!]g\d|,[abcd](;|$| )", line.split(" ")[0]) is not None


def tag(line, impl, model):
    if impl.startswith("reject:") or impl.startswith("abort") or impl in ("unmodelled", "bad-op", "bad-universe", "none"):
        return impl.split(" ")[0][:40]
    obs = impl.split(" ")
    kinds = sorted(set(o if o in ("fwd", "deny", "dnsfail") else "odd" for o in obs))
    conf = line.split(" ")[0]
    types = set(re.findall(r"acl,[^,;]+,(src|dstdomain|dst|port|method)", conf))
    return "run acl-types=%d%s obs=%s" % (len(types), " neg" if ",!" in conf else "", "+".join(kinds))


def classify(line, impl, why):
    """C45-method-acl-prefix: the section has a method value that is a proper prefix of a registered method name and the failure
    disappears when the reference reads such a value the way squid does (nothing else may be wrong with the observation)"""
    p = H.parse_line(line)
    if p is None or not why or not why.startswith("reference "):
        return None
    if not has_prefix_value(p[0]):
        return None
    METHOD_MODE[0] = "prefix"
    try:
        again = oracle(line, impl)
    finally:
        METHOD_MODE[0] = "exact"
    return "C45-method-acl-prefix" if again is None else None


def shrink(line):
    p = line.split(" ")
    conf, reqs = p[0], p[1:]
    # fewer requests
    if len(reqs) > 1:
        yield " ".join([conf] + reqs[:len(reqs) // 2])
        yield " ".join([conf] + reqs[len(reqs) // 2:])
        for i in range(len(reqs)):
            yield " ".join([conf] + reqs[:i] + reqs[i + 1:])
    lines = conf.split(";") if conf != "-" else []
    for i in range(len(lines)):
        rest = lines[:i] + lines[i + 1:]
        yield " ".join([";".join(rest) or "-"] + reqs)
    for i, l in enumerate(lines):
        w = l.split(",")
        if len(w) > 4 or (w[0] == "http_access" and len(w) > 3):
            for j in range(3 if w[0] == "acl" else 2, len(w)):
                w2 = w[:j] + w[j + 1:]
                yield " ".join([";".join(lines[:i] + [",".join(w2)] + lines[i + 1:])] + reqs)
