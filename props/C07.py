"""C07 Non-idempotent requests are not resent after reaching the origin (end to end + in-process method/status classes)."""
import os, re, sys, importlib.util, itertools
from concurrent.futures import ThreadPoolExecutor
from vf.util import VERIF, hx
from vf.harness import ProcHarness
from e2e import rig

ID = "C07"
PROP_MODULE = "SquidModel.Properties.C07"
MODEL = "c07"
GEN = ["method_classes"]
RULE = ("scenario = squid config (default / forward_max_tries 2 / server_pconn_for_nonretriable / retry_on_error) x method (safe, idempotent, POST, PATCH, extension, "
        "case variants) x body (none, CL 0, CL k, chunked, withheld) x A records of the origin name (1-4, some refusing connections) x primed persistent connection x one scripted "
        "origin fault per arrival (close before reading / after the head / after the whole request, reset, truncated or reset reply head, truncated or reset reply body with "
        "200/403/5xx status, complete 5xx), run through the rebuilt squid; observation = client status + per-arrival (address, reused connection) + method seen by the origin. "
        "In-process lines: cls (HttpRequestMethod classes of a token), rfs (Http::IsReforwardableStatus), nib (HttpRequest::bodyNibbled on a real BodyPipe). "
        "non-trivial = at least one scripted fault was met by an arrival (scenario lines) / a token that is not an exact registered method or a status in 400..599 (in-process lines); "
        "distinct = distinct lines")
TRUSTED = ["modelled, not verified: Comm I/O, HttpStateData's translation of socket events into fail()/complete() calls (the fault -> event table in SquidModel/Fwd/RetrySim.lean, "
           "inside the correspondence), peer selection order (= DNS answer order), error page generation",
           "python rig: fault-scripted origin (arrival = connection on which the request line became readable, counted before the fault acts), DNS stub, loopback TCP semantics "
           "(close with unread data = RST)"]
ASSUMPTIONS = ["forward proxy, direct forwarding of http:// URLs to a name with 1-4 IPv4 A records (one address family: no Happy Eyeballs spare track), cache deny all, "
               "no cache_peer, no TLS, no pinned connections in the end-to-end tie (the model has them)",
               "non-idempotent = method token (as the origin sees it) outside the IANA registry's idempotent methods"]
MANIFEST = {
    "engine": "e2e",
    "text": "partial: for the FwdState/HappyConnOpener retry state machine (checkRetry, checkRetriable, reforward, retryOrBail, useDestinations, connectStart, noteConnection, "
            "fail/reactToZeroSizeObject, complete, pconn pop policy) and every event history: a request that is not retriable (non-idempotent method per the generated "
            "RequestMethod.cc table, or any request body) is dispatched at most 1 + (number of complete() calls answered by reforward()) times "
            "(resend_bound); at most once when no reply with a re-forwardable status arrives (non_idempotent_at_most_once_partial); the full statement is false of the code: "
            "a bodyless POST whose 502/504 reply is cut short is sent to the next address (non_idempotent_at_most_once_counterexample, known finding C07-reforward-ignores-method); "
            "dispatches <= max(forward_max_tries,1); a non-retriable request never rides a reused pconn unless server_pconn_for_nonretriable allows; after a pconn race "
            "the retry uses a fresh connection. Tied to the rebuilt binary by fault-scripted scenarios whose observation (status, arrivals with address and reuse, method) must equal the "
            "model's, and by a direct oracle: arrivals <= 1 for non-idempotent methods whenever an arrival met a connection-level fault.",
    "note": "trusted: Lean kernel, python rig (origin/DNS stubs), loopback TCP; not modelled: socket I/O, HttpStateData internals (mapped by the fault->event table), "
            "Happy Eyeballs spare connections, cache_peer paths, TLS, timing (forward_timeout is an event in the model but not exercised end to end)",
    "technique": "Lean 4 invariant over event histories of the retry state machine + generated method/status tables + end-to-end fault-scripted scenarios against the rebuilt squid",
}
MINIMISE_BUDGET = 24
MAX_REPORT = 6

_spec = importlib.util.spec_from_file_location("c07_harness", os.path.join(VERIF, "harness", "c07.py"))
c07h = importlib.util.module_from_spec(_spec)
_spec.loader.exec_module(c07h)

# ---------------------------------------------------------------------------------------------- independent reference data (IANA HTTP Method Registry, RFC 9110 s.9.2)
IANA_IDEMPOTENT = {"ACL", "BASELINE-CONTROL", "BIND", "CHECKIN", "CHECKOUT", "COPY", "DELETE", "GET", "HEAD", "LABEL", "LINK", "MERGE", "MKACTIVITY", "MKCALENDAR", "MKCOL",
                   "MKREDIRECTREF", "MKWORKSPACE", "MOVE", "OPTIONS", "ORDERPATCH", "PRI", "PROPFIND", "PROPPATCH", "PUT", "QUERY", "REBIND", "REPORT", "SEARCH", "TRACE", "UNBIND",
                   "UNCHECKOUT", "UNLINK", "UNLOCK", "UPDATE", "UPDATEREDIRECTREF", "VERSION-CONTROL"}
IANA_NON_IDEMPOTENT = {"CONNECT", "LOCK", "PATCH", "POST"}
REGISTERED = sorted(IANA_IDEMPOTENT | IANA_NON_IDEMPOTENT)
CONN_FAULT = re.compile(r"pk|hd|fr|rs|h[fr]\d+|b[fr]\d+")      # connection-level failures (everything except a complete reply)
ALWAYS_REFORWARD = {502, 504}
ONERROR_REFORWARD = {403, 500, 501, 503}


def non_idempotent(token):
    """by the method token exactly as the origin receives it (method names are case-sensitive)"""
    return token not in IANA_IDEMPOTENT


# ---------------------------------------------------------------------------------------------- harness

class Harness:
    def __init__(self, stage):
        from translate import method_classes
        self.exe = method_classes.build_exe(stage)
        self.proc = ProcHarness([self.exe], env={"ASAN_OPTIONS": "detect_leaks=0", "UBSAN_OPTIONS": "print_stacktrace=0:halt_on_error=1"})
        self.runner = c07h.Runner(stage)
        self.crashes = 0

    @staticmethod
    def inproc(line):
        return line.startswith(("cls ", "rfs ", "nib "))

    def _scenario(self, line):
        fn = rig.guarded(self.runner.one, self.runner.squids())
        out = fn(line)
        if out.startswith("abort:io-error") or out.startswith("abort:prime"):     # load-induced hiccup: one more try
            out = fn(line)
        return out

    def run(self, lines):
        res = [None] * len(lines)
        ip = [i for i, l in enumerate(lines) if self.inproc(l)]
        if ip:
            outs = self.proc.run([lines[i] for i in ip])
            for i, o in zip(ip, outs):
                res[i] = o
            self.crashes += getattr(self.proc, "crashes", 0)
        sc = [i for i, l in enumerate(lines) if not self.inproc(l)]
        if sc:
            with ThreadPoolExecutor(max_workers=int(os.environ.get("C07_WORKERS", "8"))) as ex:
                outs = list(ex.map(self._scenario, [lines[i] for i in sc]))
            for i, o in zip(sc, outs):
                res[i] = o
            dead = [k for k, s in self.runner.sq.items() if not s.alive()]
            if dead:      # restart from the main thread so that the following batches (minimisation, replay) have a squid
                self.crashes += len(dead)
                self.runner.restart(dead)
        return res

    def close(self):
        try:
            self.proc.close()
        except Exception:
            pass
        self.runner.close()


def build(stage):
    return Harness(stage)


# ---------------------------------------------------------------------------------------------- generators

SAFE_OR_IDEM = ["GET", "HEAD", "OPTIONS", "PUT", "DELETE", "TRACE", "PROPFIND", "MKCOL", "UNLOCK", "REPORT", "SEARCH", "MOVE", "COPY", "PROPPATCH"]
NON_IDEM = ["POST", "PATCH", "LOCK", "FOO", "BREW", "MERGE", "CHECKOUT", "LINK", "Patch", "post", "QUERY", "M-SEARCH", "X_1"]
CASE_VARIANTS = ["get", "Get", "put", "dElEtE", "Post", "patch", "METHOD_OTHER", "NONE", "GETX", "GE", "PO", "POSTT"]
STATUSES = [200, 403, 404, 500, 501, 502, 503, 504]
BASE_FAULTS = ["pk", "hd", "fr", "rs", "hf0", "hf1", "hf9", "hf13", "hf17", "hf18", "hf30", "hr0", "hr12", "bf200", "br200", "bf502", "br502", "bf504", "bf503", "bf500", "bf403", "br504",
               "st502", "st504", "st503", "st500", "st403", "st404", "ok"]
ADDRS = ["1", "2", "12", "21", "123", "312", "41", "412", "142", "451", "4512", "4", "45", "13", "124"]


def sline(cfg, method, body, addrs, prime, faults):
    return "%s %s %s %s %d %s" % (cfg, method, body, addrs, 1 if prime else 0, ",".join(faults) if faults else ".")


def known_shape(cfg, method, body, addrs, faults):
    """scenario shapes that (may) meet the known finding: not retriable, body never nibbled, a re-forwardable reply among the faults"""
    if method.upper() in IANA_IDEMPOTENT and body[0] in "nz":
        return False
    if len(addrs) < 2:
        return False
    if body[0] in "bc" and int(body[1:] or 0) > 0:
        return False
    ok = ALWAYS_REFORWARD | (ONERROR_REFORWARD if cfg == "e" else set())
    return any(f[:2] in ("bf", "st") and int(f[2:]) in ok for f in faults)


def rand_fault(rng):
    k = rng.below(10)
    if k < 5:
        return rng.choice(["pk", "hd", "fr", "rs"])
    if k < 7:
        return "h%s%d" % (rng.choice("fr"), rng.choice([0, 1, 4, 5, 8, 9, 10, 12, 13, 14, 16, 17, 18, 30, 50]))
    if k < 9:
        return "b%s%d" % (rng.choice("fr"), rng.choice(STATUSES))
    return rng.choice(["ok", "st%d" % rng.choice(STATUSES[1:])])


def rand_body(rng, method):
    k = rng.below(12)
    if k < 5:
        return "n" if method not in ("POST", "PUT", "PATCH") or rng.chance(1, 3) else "z"
    if k < 7:
        return "z"
    if k < 9:
        return "b%d" % rng.choice([1, 5, 10, 100, 1500])
    if k < 10:
        return "c%d" % rng.choice([0, 1, 7, 300])
    if k < 11:
        return "b0"
    return "w%d" % rng.choice([3, 10])


def inproc_cases(rng, tier):
    toks = set(REGISTERED) | set(NON_IDEM) | set(SAFE_OR_IDEM) | set(CASE_VARIANTS)
    for t in list(toks):
        toks.add(t.lower())
        toks.add(t.capitalize())
        toks.add(t + "X")
        toks.add(t[:-1] or "G")
        toks.add("".join(c.upper() if rng.chance(1, 2) else c.lower() for c in t))
    alphabet = "ABCDEFGHIJKLMNOPQRSTUVWXYZabcdefghijklmnopqrstuvwxyz0123456789-_.!#$%&'*+^`|~"
    for _ in range(400 if tier == "thorough" else 60):
        toks.add("".join(rng.choice(alphabet) for _ in range(rng.range(1, 12))))
    for t in sorted(toks):
        for rel in (1, 0):
            yield "cls %d %s" % (rel, hx(t.encode()))
    codes = set(range(0, 1001)) if tier == "thorough" else set(range(395, 610)) | {0, 1, 99, 100, 101, 199, 200, 204, 206, 301, 302, 304, 307, 399, 999, 1000}
    codes |= {rng.range(0, 100000) for _ in range(10)}
    for code in sorted(codes):
        for on in (0, 1):
            yield "rfs %d %d" % (on, code)
    for hb in (0, 1):
        for put in (0, 1, 2, 10, 4096):
            for take in (0, 1, 2, 10, 4096):
                yield "nib %d %d %d" % (hb, put, take)


def scenario_cases(rng, tier):
    out = []
    seen = set()

    def add(l):
        if l not in seen:
            seen.add(l)
            out.append(l)
    # -- small scope, exhaustive: the quantifier's grid (4 connection faults x method classes x pconn x addresses), then deeper
    methods = ["GET", "PUT", "POST", "PATCH", "FOO"]
    core = ["pk", "hd", "fr", "rs", "hf9", "hr12", "bf200", "br502", "bf502", "st504"]
    if tier == "thorough":
        for m, f, a, p in itertools.product(methods, BASE_FAULTS, ["1", "12", "412", "142"], (0, 1)):
            if p == 0 or a[0] in "123":
                add(sline("d", m, "n" if m in ("GET", "FOO") else "z", a, p, [f]))
        for m, f1, f2, p in itertools.product(["GET", "POST", "FOO"], core, core, (0, 1)):
            add(sline("d", m, "n", "123", p, [f1, f2]))
        for m, f, b in itertools.product(methods, core, ["b10", "c7", "c0", "w5"]):
            add(sline("d", m, b, "12", 0, [f]))
        for cfg, m, f, p in itertools.product("tpe", methods, BASE_FAULTS, (0, 1)):
            add(sline(cfg, m, "n" if m in ("GET", "FOO") else "z", "12", p, [f, f]))
        nrand = 1200
    else:
        for m, f, p in itertools.product(["GET", "POST", "FOO"], ["pk", "hd", "fr", "rs"], (0, 1)):
            add(sline("d", m, "n" if m != "POST" else "z", "12", p, [f]))
        for m in ("PUT", "PATCH"):
            for f in ("fr", "hr12"):
                add(sline("d", m, "z", "12", 1, [f]))
        nrand = 230
    # -- random, grammar-directed: most cases meet several faults on several addresses
    for i in range(nrand):
        cfg = rng.choice("ddddtpe")
        k = rng.below(10)
        if k < 5:
            m = rng.choice(NON_IDEM)
        elif k < 9:
            m = rng.choice(SAFE_OR_IDEM)
        else:
            m = rng.choice(CASE_VARIANTS)
        body = rand_body(rng, m)
        addrs = rng.choice(ADDRS)
        prime = rng.chance(2, 5) and addrs[0] in "123"
        nf = rng.choice([1, 1, 2, 2, 3, 4, 6])
        faults = [rand_fault(rng) for _ in range(nf)]
        if body[0] == "w" and len(faults) > 2:      # the origin waits for withheld bodies: keep those scenarios short
            faults = faults[:2]
        add(sline(cfg, m, body, addrs, prime, faults))
    # -- boundaries: tries exhaustion, all addresses dead, long fault runs
    for m in ("GET", "POST"):
        add(sline("t", m, "n" if m == "GET" else "z", "123", 0, ["fr", "fr", "fr"]))
        add(sline("t", m, "n" if m == "GET" else "z", "4123", 0, ["fr", "fr"]))
        add(sline("t", m, "n" if m == "GET" else "z", "1423", 1, ["fr", "fr"]))
        add(sline("d", m, "n" if m == "GET" else "z", "456", 0, []))
        add(sline("d", m, "n" if m == "GET" else "z", "1", 1, ["fr", "fr", "fr"]))
    add(sline("d", "GET", "n", "123", 1, ["fr", "pk", "hf5", "rs", "fr"]))
    # cases of the known-finding shape go last and are few (the framework examines a bounded number of failures)
    def ks(l):
        p = l.split(" ")
        return known_shape(p[0], p[1], p[2], p[3], p[5].split(","))
    plain = [l for l in out if not ks(l)]
    known = [l for l in out if ks(l)]
    cap = 60 if tier == "thorough" else 14
    return plain + known[:cap]


def cases(rng, tier):
    for l in scenario_cases(rng.fork("scn"), tier):
        yield l
    for l in inproc_cases(rng.fork("inproc"), tier):
        yield l


# ---------------------------------------------------------------------------------------------- oracle (the property itself; independent of the model)

OBS = re.compile(r"st=(\d+|none) arr=(\.|[0-9r,]+) m=(\S+)")


def parse_obs(impl):
    m = OBS.fullmatch(impl or "")
    if not m:
        return None
    arr = [] if m.group(2) == "." else m.group(2).split(",")
    return m.group(1), arr, m.group(3)


def oracle(line, impl):
    p = line.split(" ")
    if impl is None or impl.startswith("abort") or impl == "bad-op":
        return "no usable observation: %s" % impl
    if p[0] == "cls":
        tok = bytes.fromhex(p[2]).decode("latin-1")
        m = re.fullmatch(r"id=(\d+) safe=([01]) idem=([01]) image=(\S+)", impl)
        if not m:
            return "unreadable: " + impl
        ref = tok.upper() if p[1] == "1" else tok       # relaxed parser: squid folds the case and sends the canonical image upstream
        if (m.group(2) == "1" or m.group(3) == "1") and ref not in IANA_IDEMPOTENT:
            return "method %r, not idempotent per the IANA registry, is classified safe=%s idempotent=%s" % (tok, m.group(2), m.group(3))
        return None
    if p[0] == "rfs":
        code = int(p[2])
        if impl == "1" and not (400 <= code <= 599):
            return "a reply with status %d would be discarded and the request re-forwarded" % code
        return None if impl in ("0", "1") else "unreadable: " + impl
    if p[0] == "nib":
        want = "1" if (p[1] == "1" and min(int(p[2]), int(p[3])) > 0) else "0"
        return None if impl == want else "bodyNibbled=%s after consuming %d of %s body bytes (body pipe: %s)" % (impl, min(int(p[2]), int(p[3])), p[2], p[1])
    sc = c07h.parse_line(line)
    if sc is None:
        return "no usable observation: bad scenario line"
    cfg, method, body, addrs, prime, faults = sc
    obs = parse_obs(impl)
    if obs is None:
        return "unreadable observation: " + impl
    st, arr, seen = obs
    if len(arr) >= 2 and non_idempotent(seen):
        met = (faults + ["ok"] * len(arr))[:len(arr) - 1]       # what the arrivals before the last one met
        if any(CONN_FAULT.fullmatch(f) for f in met):
            return "non-idempotent %s reached the origin %d times (arrivals %s) although an upstream connection failed after it was sent (faults met: %s)" % (
                seen, len(arr), ",".join(arr), ",".join(met))
    return None


def compare(line, impl, model):
    return impl == model


def classify(line, impl, why):
    """C07-reforward-ignores-method: every resend follows a reply (whole or cut short by EOF) whose status is re-forwardable in that configuration,
    the request is not retriable by checkRetriable() and its body (if any) was never consumed"""
    sc = c07h.parse_line(line)
    obs = parse_obs(impl)
    if sc is None or obs is None or not why or "reached the origin" not in why:
        return None
    cfg, method, body, addrs, prime, faults = sc
    st, arr, seen = obs
    if body[0] in "bc" and int(body[1:] or 0) > 0:
        return None
    ok = ALWAYS_REFORWARD | (ONERROR_REFORWARD if cfg == "e" else set())
    met = (faults + ["ok"] * len(arr))[:len(arr) - 1]
    for f in met:
        if not (f[:2] in ("bf", "st") and f[2:].isdigit() and int(f[2:]) in ok):
            return None
    return "C07-reforward-ignores-method"


def shrink(line):
    p = line.split(" ")
    if p[0] in ("cls", "rfs", "nib") or len(p) != 6:
        return
    cfg, method, body, addrs, prime, faults = p
    fl = [] if faults == "." else faults.split(",")
    for i in range(len(fl)):
        yield sline(cfg, method, body, addrs, prime == "1", fl[:i] + fl[i + 1:])
    if prime == "1":
        yield sline(cfg, method, body, addrs, False, fl)
    for i in range(len(addrs)):
        if len(addrs) > 1:
            yield sline(cfg, method, body, addrs[:i] + addrs[i + 1:], prime == "1" and (addrs[:i] + addrs[i + 1:])[0] in "123", fl)
    if cfg != "d":
        yield sline("d", method, body, addrs, prime == "1", fl)
    if body not in ("n", "z"):
        yield sline(cfg, method, "z", addrs, prime == "1", fl)


def nontrivial(line, impl, model):
    p = line.split(" ")
    if p[0] == "cls":
        return bytes.fromhex(p[2]).decode("latin-1") not in REGISTERED
    if p[0] == "rfs":
        return 400 <= int(p[2]) <= 599
    if p[0] == "nib":
        return p[1] == "1"
    obs = parse_obs(impl)
    sc = c07h.parse_line(line)
    return bool(obs and sc and obs[1] and sc[5] and sc[5][0] != "ok")


def tag(line, impl, model):
    p = line.split(" ")
    if p[0] in ("cls", "rfs", "nib"):
        return p[0] + " " + (impl or "").split(" image=")[0][:30]
    sc = c07h.parse_line(line)
    obs = parse_obs(impl)
    if sc is None or obs is None:
        return "scenario ?"
    cfg, method, body, addrs, prime, faults = sc
    cls = "idem" if method.upper() in IANA_IDEMPOTENT else "non-idem"
    return "%s %s body=%s pconn=%d -> arrivals=%d st=%s" % (cfg, cls, body[0], prime, len(obs[1]), obs[0])


KNOWN_MUST_MATCH_MODEL = True   # inside a known finding's region the observation must still equal the model's (which reproduces the listed defect); see lib/vf/run.py
