"""C02 Request bodies reach the origin byte-exactly with valid framing (end to end)."""
import re
from e2e import rig
from harness import c01 as H1
from harness import c02 as H
from props import C01 as G       # generators of chunk framing shared with C01 (chunk_sizes, chunked_pieces, segs_for, wire_len, xs)

ID = "C02"
PROP_MODULE = "SquidModel.Properties.C02"
MODEL = "c02"
GEN = ["relay_flags"]
RULE = ("scenario = POST/PUT x client framing (Content-Length, chunked with random chunk sizes / extensions / trailers / hex case / leading zeros) x body size (0..MBs, "
        "around the 64 KB BodyPipe capacity and the 4/16 KB read sizes) x client write segmentation (incl. a split inside the head, byte-by-byte starts, pauses) x "
        "Expect: 100-continue x client abort at random / every offset (FIN or RST, after the request reached the origin) x malformed chunk framing x octets beyond Content-Length; "
        "non-trivial = a body of at least one octet; distinct = distinct scenario lines")
TRUSTED = ["modelled, not verified: Comm I/O scheduling and timeouts, request header rewriting (C03/C04/C26), adaptation, request_body_max_size, auto-consumption, retries; "
           "the chunked decoder model and its Gen tables are tied to the code by C24's check",
           "python rig: strict origin-side request reader (harness/c02.py), client stub with TCP_NODELAY writes"]
ASSUMPTIONS = ["default configuration with `cache deny all`; forward-proxy POST/PUT to a loopback origin that answers 200 after the complete body and closes",
               "whether a chunked request is forwarded chunked or with the computed Content-Length depends on whether the whole body was parsed before forwarding started: both are accepted"]
MANIFEST = {
    "engine": "e2e",
    "text": "partial: for the request body relay model (ConnStateData::handleRequestBodyData with BodyPipe::putMoreData clipping / the C24 parse() call into the pipe buffer, "
            "BodyPipe accounting and end-of-production, HttpStateData::sendRequest framing choice, getMoreRequestBody chunk wrapping and last-chunk rule, the end notifications) and EVERY "
            "interleaving of client reads, space notifications, client departure, start of forwarding, notifications and upstream writes: pipe_is_fifo (written ++ buffered = produced), "
            "identity_body_is_client_prefix, upstream_complete_implies_whole_and_equal, early_stop_is_visible (an aborted upstream message has no last-chunk / fewer than Content-Length octets), "
            "last_chunk_only_after_whole_body, chunked_upstream_wire_is_in_grammar, chunked_request_body_is_exact / chunked_request_complete_is_exact (for every grammar-valid chunked "
            "encoding, any segmentation and any pipe space per parse() call the produced / relayed octets are exactly the encoded body: the pipe's calling pattern is connected to the C24 reference run). Tied to the rebuilt binary by end-to-end scenarios whose strict origin-side observation must equal "
            "the model's, and a direct oracle computed from the scenario alone.",
    "note": "trusted: Lean kernel, python rig, loopback TCP. Not modelled: Comm scheduling, timeouts, adaptation, body size policy, retries",
    "technique": "Lean 4 invariants over event histories of the request relay model + end-to-end scenario correspondence with the rebuilt squid",
}
MINIMISE_BUDGET = 24
MAX_REPORT = 6


def build(stage):
    return GuardedHarness(stage)


class GuardedHarness(H.Harness):
    """flake guard: a scenario whose observation fails the direct oracle is re-run (up to twice); the first passing observation counts"""

    def run(self, lines):
        outs = super().run(lines)
        for attempt in range(2):
            bad = [i for i, (l, o) in enumerate(zip(lines, outs)) if not o.startswith("abort") and o != "bad-op" and oracle(l, o)]
            if not bad or len(bad) > 12:
                break
            again = super().run([lines[i] for i in bad])
            for i, o in zip(bad, again):
                if not oracle(lines[i], o):
                    outs[i] = o
        return outs


# ------------------------------------------------------------------------------------------------ generators

SIZES_Q = [1, 2, 100, 4095, 4096, 4097, 16383, 16384, 16385, 65535, 65536, 65537, 70000, 131072, 131073]
SIZES_T = SIZES_Q + [0, 32768, 196608 + 1, 262144, 524289, 1048576 + 3, 2 * 1048576 + 1]
HEADLEN = 70


def mk(method, cfr, seed, pieces, cut="-", end="keep", hsplit="-", segs=(), stall="-", expect=0):
    return "%s %s %d %s %s %s %s %s %s %d ok" % (method, cfr, seed, ",".join(pieces) if pieces else "-", cut, end, hsplit,
                                                  ",".join(map(str, segs)) if segs else "-", stall, expect)


def valid_case(rng, sizes):
    n = rng.choice(sizes) if rng.chance(2, 3) else rng.range(1, 80000)
    seed = rng.below(1 << 20)
    method = rng.choice(["POST", "POST", "PUT"])
    if rng.chance(1, 2):
        cfr, pieces = "cl:%d" % n, (["d%d" % n] if n else [])
    else:
        cfr, pieces = "ch", G.chunked_pieces(rng, G.chunk_sizes(rng, n))
    w = G.wire_len(pieces)
    segs = G.segs_for(rng, w)
    stall = rng.range(1, 3) if segs and rng.chance(1, 8) else "-"
    hsplit = str(rng.range(1, HEADLEN)) if rng.chance(1, 6) else "-"
    return mk(method, cfr, seed, pieces, "-", "keep", hsplit, segs, stall, 1 if rng.chance(1, 4) else 0)


def aborted_case(rng, small):
    n = rng.range(2, 60) if small else rng.choice([5000, 70000, 140000])
    seed = rng.below(1 << 20)
    if rng.chance(1, 2):
        cfr, pieces = "ch", G.chunked_pieces(rng, G.chunk_sizes(rng, n))
    else:
        cfr, pieces = "cl:%d" % n, ["d%d" % n]
    w = G.wire_len(pieces)
    cut = rng.range(1, w - 1)
    return mk("POST", cfr, seed, pieces, str(cut), rng.choice(["fin", "fin", "rst"]), "-", G.segs_for(rng, cut), "-", 0)


def mutated_chunked(rng):
    """clearly malformed chunk framing from the client: nothing complete may reach the origin"""
    n = rng.range(2, 40)
    a = rng.range(1, n - 1)
    rest = n - a
    seed = rng.below(1 << 20)
    xs = G.xs
    good = [xs(b"%x\r\n" % a), "d%d" % a, xs(b"\r\n")]
    k = rng.below(7)
    if k == 0:
        bad = [xs(b"%xg\r\n" % rest), "d%d" % rest, xs(b"\r\n0\r\n\r\n")]
    elif k == 1:
        bad = [xs(b"%x\r\n" % rest), "d%d" % rest, xs(b"XY0\r\n\r\n")]
    elif k == 2:
        bad = [xs(b"0x%x\r\n" % rest), "d%d" % rest, xs(b"\r\n0\r\n\r\n")]
    elif k == 3:
        bad = [xs(b"-%x\r\n" % rest), "d%d" % rest, xs(b"\r\n0\r\n\r\n")]
    elif k == 4:
        bad = [xs(b"8000000000000000\r\n"), "d%d" % rest, xs(b"\r\n0\r\n\r\n")]
    elif k == 5:
        bad = [xs(b"%x;=v\r\n" % rest), "d%d" % rest, xs(b"\r\n0\r\n\r\n")]
    else:
        bad = [xs(b"%x\r\n" % (rest + 3)), "d%d" % rest, xs(b"\r\n0\r\n\r\n")]
    ps = good + bad
    return mk("POST", "ch", seed, ps, "-", "keep", "-", G.segs_for(rng, G.wire_len(ps)), "-", 0)


def extras_case(rng):
    n = rng.choice([1, 10, 4096])
    extra = rng.choice([1, 2, 50])
    return mk("POST", "cl:%d" % n, rng.below(1 << 20), ["d%d" % (n + extra)], "-", "keep", "-", G.segs_for(rng, n + extra), "-", 0)


def cases(rng, tier):
    thorough = tier == "thorough"
    out = []
    if thorough:
        for n in SIZES_T:
            seed = rng.below(1 << 20)
            out.append(mk("POST", "cl:%d" % n, seed, ["d%d" % n] if n else [], "-", "keep", "-", G.segs_for(rng, n), "-", 0))
            ps = G.chunked_pieces(rng, G.chunk_sizes(rng, n))
            out.append(mk("PUT", "ch", seed, ps, "-", "keep", "-", G.segs_for(rng, G.wire_len(ps)), "-", 0))
        for k in range(1, HEADLEN + 30, 2):
            out.append(mk("POST", "ch", 7, [G.xs(b"7\r\n"), "d7", G.xs(b"\r\n0\r\n\r\n")], "-", "keep", str(k), (), "-", 0))
        ps = [G.xs(b"3;a=b\r\n"), "d3", G.xs(b"\r\n"), G.xs(b"A\r\n"), "d10", G.xs(b"\r\n"), G.xs(b"0\r\nX-T: 1\r\n\r\n")]
        for cut in range(1, G.wire_len(ps)):
            out.append(mk("POST", "ch", 11, ps, str(cut), "fin", "-", (), "-", 0))
        for cut in range(1, 12):
            out.append(mk("POST", "cl:12", 12, ["d12"], str(cut), "fin", "-", (), "-", 0))
    for _ in range(500 if thorough else 70):
        out.append(valid_case(rng, SIZES_Q + ([262144, 524289] if thorough else [])))
    for _ in range(120 if thorough else 20):
        out.append(aborted_case(rng, rng.chance(1, 2)))
    for _ in range(60 if thorough else 12):
        out.append(mutated_chunked(rng))
    for _ in range(20 if thorough else 4):
        out.append(extras_case(rng))
    if not thorough:
        for k in rng.shuffle(list(range(1, HEADLEN + 30)))[:6]:
            out.append(mk("POST", "ch", 7, [G.xs(b"7\r\n"), "d7", G.xs(b"\r\n0\r\n\r\n")], "-", "keep", str(k), (), "-", 0))
    rng.shuffle(out)
    return out


# ------------------------------------------------------------------------------------------------ oracle (from the scenario alone)

def fields(obs):
    m = re.fullmatch(r"o: (.*) \| c: (.*)", obs)
    if not m:
        return None, None
    o = dict(kv.split("=", 1) for kv in m.group(1).split(" ") if "=" in kv)
    c = dict(kv.split("=", 1) for kv in m.group(2).split(" ") if "=" in kv)
    return o, c


def oracle(line, impl):
    sc = H.parse_line(line)
    if sc is None:
        return None if impl == "bad-op" else "bad scenario accepted"
    if impl.startswith("abort") or impl == "bad-op":
        return "no usable observation: " + impl[:100]
    o, c = fields(impl)
    if o is None or any(k not in o for k in ("fr", "len", "fnv", "end", "n")) or "st" not in c:
        return "malformed observation"
    whole, B, kind = H.client_truth(sc)
    end = o["end"]
    if end.startswith("badframe"):
        return "the upstream message is not validly framed: " + end
    if o["fr"] == "both":
        return "the upstream message has both Content-Length and Transfer-Encoding"
    n = int(o["n"])
    if n > 1:
        return "the request reached the origin %d times" % n
    got_len = int(o["len"])
    if n == 1:
        if got_len > len(B) or o["fnv"] != H1.fnv(B[:got_len]):
            return "the origin received octets that are not a prefix of the client's body (altered, inserted or reordered)"
        if o["fr"].startswith("cl:") and whole and int(o["fr"][3:]) != len(B):
            return "upstream Content-Length %s for a body of %d octets" % (o["fr"][3:], len(B))
    if end == "complete":
        if not whole:
            return "the client's message was incomplete or malformed (%s) but the origin got a complete message" % kind
        if got_len != len(B):
            return "complete upstream message with %d of %d body octets" % (got_len, len(B))
        if sc["end"] == "keep" and c["st"] != "200":
            return "the origin answered 200 to the complete request but the client got %s" % c["st"]
        return None
    if end == "timeout":
        return "the origin can not tell: upstream message incomplete (%d of %d octets) and the connection stays open" % (got_len, len(B))
    # none / eof / reset: visibly incomplete
    if whole and sc["end"] == "keep":
        return "the client's whole message (%d octets) did not reach the origin completely (%d, then %s)" % (len(B), got_len, end)
    return None


def compare(line, impl, model):
    sc = H.parse_line(line)
    if sc is None:
        return impl == model
    oi, ci = fields(impl)
    om, cm = fields(model)
    if oi is None or om is None:
        return impl == model
    whole, B, kind = H.client_truth(sc)
    if whole and sc["end"] == "keep":
        # complete requests: everything is determined, except whether a chunked request is re-chunked or sent with its computed length
        same_fr = oi.get("fr") == om.get("fr") or (sc["cl"] is None and oi.get("fr") in ("chunked", "cl:%d" % len(B)))
        return same_fr and all(oi.get(k) == om.get(k) for k in ("len", "fnv", "end", "n")) and ci.get("st") == cm.get("st")
    # aborted / malformed requests: how much was relayed (and whether the request was forwarded at all) before the end depends on timing
    if oi.get("end") in ("eof", "reset", "none") and om.get("end") in ("eof", "none") and ci.get("st") in ("none", cm.get("st")):
        return True
    return False


def classify(line, impl, why):
    return None


def nontrivial(line, impl, model):
    sc = H.parse_line(line)
    return sc is not None and len(sc["wire"]) > 0


def tag(line, impl, model):
    sc = H.parse_line(line)
    if sc is None:
        return "bad-op"
    n = len(sc["wire"])
    size = "0" if n == 0 else "<4k" if n < 4096 else "<64k" if n < 65536 else "<1M" if n < 1 << 20 else ">=1M"
    o, c = fields(impl) if impl.startswith("o:") else ({}, {})
    kind = H.client_truth(sc)[2].split(":")[-1]
    return "%s %s %s%s%s -> %s/%s %s" % (sc["method"], sc["cfr"].split(":")[0], size, " cut" if sc["cut"] is not None else "", " expect" if sc["expect"] else "",
                                         kind, (o or {}).get("fr", "?").split(":")[0], (o or {}).get("end", impl[:20]))


def shrink(line):
    t = line.split(" ")
    if len(t) != 11:
        return

    def with_(i, v):
        u = list(t)
        u[i] = v
        return " ".join(u)
    if t[7] != "-":
        yield with_(7, "-")
        s = t[7].split(",")
        if len(s) > 1:
            yield with_(7, ",".join(s[:len(s) // 2]))
    if t[6] != "-":
        yield with_(6, "-")
    if t[8] != "-":
        yield with_(8, "-")
    if t[9] != "0":
        yield with_(9, "0")
    ps = t[3].split(",") if t[3] != "-" else []
    if len(ps) == 1 and ps[0][0] == "d" and t[4] == "-":
        n = int(ps[0][1:])
        for f in (16, 2):
            m = n // f
            if m >= 1 and t[1].startswith("cl:"):
                u = list(t)
                u[3] = "d%d" % m
                u[1] = "cl:%d" % max(1, int(t[1][3:]) - (n - m))
                yield " ".join(u)
    if t[1] == "ch" and t[4] == "-" and len(ps) >= 7:
        yield with_(3, ",".join(ps[3:]))
        yield with_(3, ",".join(ps[:3] + ps[6:]))
