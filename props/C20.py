"""C20 Successful unsafe requests invalidate cached responses (end to end + the real purge code in-process)."""
import os, re, subprocess, threading, time
from concurrent.futures import ThreadPoolExecutor
from vf.util import VERIF, hx, unhx
from vf.harness import ProcHarness

ID = "C20"
PROP_MODULE = "SquidModel.Properties.C20"
MODEL = "c20"
GEN = ["purge_tables"]


# ---------------------------------------------------------------------------------------------- in-process harness

def _extract(text, pattern, what):
    m = re.search(pattern, text, re.S | re.M)
    if not m:
        from vf.stage import BuildError
        raise BuildError("%s not found in the staged source" % what)
    return m.group(0)


def extract_client(stage):
    """verbatim text of sameUrlHosts, purgeEntriesByHeader, Client::maybePurgeOthers of the staged src/clients/Client.cc"""
    t = stage.read("src/clients/Client.cc")
    return "\n".join([
        _extract(t, r"^static bool\nsameUrlHosts\(.*?^}\n", "sameUrlHosts"),
        _extract(t, r"^static void\npurgeEntriesByHeader\(.*?^}\n", "purgeEntriesByHeader"),
        _extract(t, r"^void\nClient::maybePurgeOthers\(\)\n.*?^}\n", "Client::maybePurgeOthers"),
    ])


def extract_reply(stage):
    """verbatim text of purgeEntriesByUrl of the staged src/client_side_reply.cc"""
    t = stage.read("src/client_side_reply.cc")
    return _extract(t, r"^void\npurgeEntriesByUrl\(.*?^}\n", "purgeEntriesByUrl")


def other_purges_at_request_time(stage):
    """clientReplyContext::processMiss: `if (r->method == Http::METHOD_OTHER) { purgeAllCached(); }` still there, and
    purgeAllCached still purges effectiveRequestUri()"""
    t = stage.read("src/client_side_reply.cc")
    a = re.search(r"if \(r->method == Http::METHOD_OTHER\) \{\s*purgeAllCached\(\);\s*\}", t) is not None
    b = re.search(r"clientReplyContext::purgeAllCached\(\)\n\{[^}]*SBuf url\(http->request->effectiveRequestUri\(\)\);\s*purgeEntriesByUrl\(http->request, url\.c_str\(\)\);\s*\}", t) is not None
    return a and b


def build_exe(stage):
    built = getattr(stage, "built", None)
    if built is None:
        built = stage.built = {}
    if "c20" in built:
        return built["c20"]
    inc = os.path.join(stage.work, "c20inc")
    os.makedirs(inc, exist_ok=True)
    with open(os.path.join(inc, "c20_client.inc"), "w") as f:
        f.write(extract_client(stage))
    with open(os.path.join(inc, "c20_reply.inc"), "w") as f:
        f.write(extract_reply(stage))
    with ThreadPoolExecutor(max_workers=6) as ex:
        main = ex.submit(stage.compile, os.path.join(VERIF, "harness", "c20.cc"), extra=["-I" + inc])
        rest = [ex.submit(stage.compile, s) for s in ["src/anyp/UriScheme.cc", "src/http/RequestMethod.cc", "src/http/MethodType.cc"]]
        objs = [main.result()] + [r.result() for r in rest]
    # tests/stub_libhttp.o stubs HttpRequestMethod; the real http/RequestMethod.cc is used instead: weaken the stub's symbols
    weak = os.path.join(stage.work, "c20_stub_libhttp_weak.o")
    subprocess.run(["objcopy", "--weaken", os.path.join(stage.repo, "src/tests/stub_libhttp.o"), weak], check=True)
    exe = stage.link_like("tests/testURL", objs + [weak], os.path.join(stage.work, "c20"), drop=("tests/stub_libhttp.o",))
    built["c20"] = exe
    return exe


RULE = ("S: scenario = a sequence of client requests through the rebuilt squid: GET/HEAD (fresh cacheable replies, optionally Vary: X) and "
        "forwarded requests with any registered or unknown method x origin status x Location/Content-Location (absent, relative path, "
        "absolute path, network path, absolute same-host in exact/other spelling, other host, other port) x request host spelling; observed per "
        "step: origin contacted (contact number) or which earlier origin reply came back from the cache. P/H/R/A: the real "
        "maybePurgeOthers/purgeEntriesByHeader/purgeEntriesByUrl/sameUrlHosts/urlIsRelative/addRelativePath text in-process (ASan/UBSan): "
        "evicted keys in order. non-trivial = S with a cache hit before and a request after an invalidating request, P with a purging "
        "method and status < 400, H/R/A always; distinct = distinct lines")
TRUSTED = ["modelled, not verified: Comm I/O, request/reply parsing (tied by other properties), freshness (every stored reply is fresh for an "
           "hour), MD5 (a key is modelled as its preimage), the vary mark (opaque injective function of the request, C13's subject), "
           "memory-cache replacement (no eviction at this size), HTCP CLR notifications, collapsed forwarding/SMP",
           "harness/c20.cc compiles the verbatim staged text of the four functions against stand-ins for HttpRequest/HttpReply/Store::Root "
           "(the stand-in's effectiveRequestUri replicates the 3-line original); the S scenarios run the real thing inside squid"]
ASSUMPTIONS = ["default configuration (memory cache, neighbors_do_private_keys = 1, no cache_peer, relaxed parser), http/https request URLs, "
               "one client at a time per scenario, header values without NUL"]
MANIFEST = {
    "engine": "e2e",
    "text": "partial: for every history of client requests (any length, any interleaving of GET/HEAD and forwarded requests, Vary or not) of the "
            "store model: once a request with a purging method got a reply with status < 400, no later hit for a URL it purged returns a "
            "reply stored before it, provided no Vary variant of that URL was in the store at that moment (purged_url_never_served_stale_partial; "
            "without the proviso false: vary_variant_survives_counterexample, confirmed end to end). The purged URLs always include the "
            "request's own URL (request_url_purged), a Location/Content-Location that starts with / (absolute_path_location_purged) and an "
            "absolute one that passes sameUrlHosts in exactly the text given (same_host_location_purged_exact), in particular every URL of the "
            "request's scheme/host/port spelled as Squid itself prints it (canonical_same_host_location_purged); sameUrlHosts accepts only "
            "equal authority texts (sameUrlHosts_sound) and nothing outside the request's authority is ever purged "
            "(purged_urls_stay_on_the_request_host). A relative-path Location is not purged in this tree "
            "because addRelativePath leaves the memoised absolute form in place (relative_location_counterexample under the regenerated "
            "flag; relative_location_purged once the flag flips; fix diff in notes/fixes). The model (purgesOthers/respMaybeCacheable tables, "
            "PathChars, sameUrlHosts, urlIsRelative, addRelativePath/absolute with the memo, purgeEntriesByUrl/Header, maybePurgeOthers, "
            "METHOD_OTHER purge at request time, hit path with Vary dispatch, setPublicKey/adjustVary/httpMaybeRemovePublic) is tied to the "
            "verbatim staged functions in-process under ASan and to the rebuilt binary by scenario correspondence; not exhibited by the "
            "model: socket I/O, freshness arithmetic, MD5, eviction, concurrency, HTCP",
    "note": "trusted: Lean kernel, python rig (origin/client stubs), loopback TCP; not modelled: see text",
    "technique": "Lean 4 proof (induction over histories with a store invariant) + translator + in-process ASan differential run + "
                 "end-to-end scenario correspondence with a direct oracle",
}

NOMINAL_PORT = "8000"
NOMINAL_SEG = "sq0"
HOSTS = {"0": "127.0.0.1", "1": "localhost", "2": "LOCALHOST", "3": "LocalHost"}
PATH_SET = set(b"/:@-._~%!$&'()*+,;=" + bytes(range(65, 91)) + bytes(range(97, 123)) + bytes(range(48, 58)))
# RFC 9110 9.2.1 / IANA registry "safe = yes"; everything else (unknown methods included) is unsafe
SAFE_METHODS = {"GET", "HEAD", "OPTIONS", "TRACE", "PROPFIND", "REPORT", "SEARCH", "PRI"}


def subst(b, port, seg):
    return b.replace(b"{O}", b"127.0.0.1:" + port.encode()).replace(b"{P}", port.encode()).replace(b"{S}", seg.encode())


# ---------------------------------------------------------------------------------------------- RFC 3986 (for the oracle only)

def split_ref(r):
    """RFC 3986 appendix B -> (scheme, authority, path, query, fragment); None for undefined components.
    A text whose first path segment contains a colon that is not preceded by a valid scheme is not a URI reference at all
    (RFC 3986 4.2): every component comes back undefined and the caller treats it as naming nothing."""
    m = re.match(rb"^(([^:/?#]+):)?(//([^/?#]*))?([^?#]*)(\?([^#]*))?(#(.*))?", r, re.S)
    scheme = m.group(2)
    if scheme is not None and not re.fullmatch(rb"[A-Za-z][A-Za-z0-9+.\-]*", scheme):
        return None, None, None, None, None
    if scheme is None and m.group(4) is None and b":" in re.split(rb"[/?#]", r, maxsplit=1)[0]:
        return None, None, None, None, None
    return scheme, m.group(4), m.group(5), m.group(7), m.group(9)


def remove_dots(path):
    out = []
    inp = path
    while inp:
        if inp.startswith(b"../"):
            inp = inp[3:]
        elif inp.startswith(b"./"):
            inp = inp[2:]
        elif inp.startswith(b"/./"):
            inp = inp[2:]
        elif inp == b"/.":
            inp = b"/"
        elif inp.startswith(b"/../"):
            inp = inp[3:]
            if out:
                out.pop()
        elif inp == b"/..":
            inp = b"/"
            if out:
                out.pop()
        elif inp in (b".", b".."):
            inp = b""
        else:
            i = inp.find(b"/", 1)
            seg = inp if i == -1 else inp[:i]
            out.append(seg)
            inp = inp[len(seg):]
    return b"".join(out)


def resolve(base, ref):
    """RFC 3986 5.2.2 strict -> (scheme, authority, path, query) without the fragment"""
    bs, ba, bp, bq, _ = split_ref(base)
    rs, ra, rp, rq, _ = split_ref(ref)
    if rp is None:
        return None, None, None, None          # not a URI reference
    if rs is not None:
        return rs, ra, remove_dots(rp), rq
    if ra is not None:
        return bs, ra, remove_dots(rp), rq
    if rp == b"":
        return bs, ba, bp, (rq if rq is not None else bq)
    if rp.startswith(b"/"):
        return bs, ba, remove_dots(rp), rq
    if ba is not None and bp == b"":
        merged = b"/" + rp
    else:
        merged = bp[:bp.rfind(b"/") + 1] + rp
    return bs, ba, remove_dots(merged), rq


def normalise(parts):
    """(scheme, authority, path, query) -> comparable identity of an http(s) resource, or None when it has no host"""
    s, a, p, q = parts
    if s is None or a is None:
        return None
    s = s.lower()
    if s not in (b"http", b"https"):
        return None
    if b"@" in a:
        a = a[a.rfind(b"@") + 1:]
    host, port = a, None
    m = re.match(rb"^(.*):([0-9]*)$", a, re.S)
    if m:
        host, port = m.group(1), m.group(2)
    if host == b"":
        return None
    dflt = b"80" if s == b"http" else b"443"
    if not port:
        port = dflt
    port = port.lstrip(b"0") or b"0"
    return (s, host.lower(), port, p or b"/", q)


# ---------------------------------------------------------------------------------------------- end-to-end harness

def parse_steps(line):
    """-> list of dicts or None"""
    toks = line.split(" ")
    if toks[0] != "S" or len(toks) < 2:
        return None
    steps = []
    try:
        for t in toks[1:]:
            f = t.split("/")
            if f[0] in ("G", "H") and len(f) == 5 and f[1] in HOSTS and f[4] in ("0", "1"):
                steps.append({"k": f[0], "h": f[1], "path": unhx(f[2]), "x": None if f[3] == "." else unhx(f[3]), "v": f[4] == "1"})
            elif f[0] == "U" and len(f) == 7 and f[2] in HOSTS and re.fullmatch(r"[A-Za-z_-]+", f[1]):
                steps.append({"k": "U", "m": f[1], "h": f[2], "path": unhx(f[3]), "status": int(f[4]),
                              "loc": None if f[5] == "." else unhx(f[5]), "cloc": None if f[6] == "." else unhx(f[6])})
            else:
                return None
    except (ValueError, IndexError):
        return None
    return steps


def step_url(st, port, seg):
    return b"http://" + HOSTS[st["h"]].encode() + b":" + port.encode() + b"/" + seg.encode() + b"/" + st["path"]


class E2E:
    def __init__(self, stage):
        from e2e import rig
        self.rig = rig
        self.origin = rig.Origin()
        self.squid = None
        last = None
        for attempt in range(6):
            try:
                self.squid = rig.Squid(stage, conf="").start(wait=90)
                break
            except RuntimeError as e:
                last = e
                time.sleep(1.0)
        if self.squid is None:
            raise last
        self.n = 0
        self.lock = threading.Lock()
        self.plans = {}

    def handler(self, req):
        rig = self.rig
        plan = self.plans.get(req["sid"])
        n = req["n"]
        if plan is None:
            return [("send", rig.simple_response(500, b"no plan"))]
        st, port, seg = plan
        hs = [("X-Gen", str(n))]
        if st["k"] in ("G", "H"):
            hs.append(("Cache-Control", "max-age=3600"))
            if st["v"]:
                hs.append(("Vary", "X"))
            body = b"gen%d" % n
            resp = rig.simple_response(200, body, hs)
            if st["k"] == "H":
                resp = resp[:resp.index(b"\r\n\r\n") + 4]
            return [("send", resp)]
        for name, key in (("Location", "loc"), ("Content-Location", "cloc")):
            if st[key] is not None:
                hs.append((name, subst(st[key], port, seg).decode("latin-1")))
        status = st["status"]
        if status in (204, 205, 304) or status < 200:
            return [("send", rig.simple_response(status, b"", hs, cl=False) if status in (204, 304) else rig.simple_response(status, b"", hs))]
        return [("send", rig.simple_response(status, b"u%d" % n, hs))]

    def once(self, steps):
        rig = self.rig
        with self.lock:
            self.n += 1
            sid = "q%d" % self.n
        seg = "s" + sid
        port = str(self.origin.port)
        self.origin.on(sid, self.handler)
        out = []
        for st in steps:
            self.plans[sid] = (st, port, seg)
            before = len(self.origin.requests(sid))
            url = step_url(st, port, seg).decode("latin-1")
            if st["k"] in ("G", "H"):
                hdrs = [("X", st["x"].decode("latin-1"))] if st["x"] is not None else []
                r = rig.get(self.squid.port, url, headers=hdrs, method="GET" if st["k"] == "G" else "HEAD")
            else:
                r = rig.get(self.squid.port, url, method=st["m"], body=b"x")
            after = len(self.origin.requests(sid))
            if r is None:
                out.append("none")
                continue
            gen = rig.hget(r["hdrs"], "x-gen", "?")
            if st["k"] in ("G", "H"):
                if r["status"] != 200:
                    out.append("status%d" % r["status"])
                elif after == before:
                    out.append("c" + gen)
                elif after == before + 1:
                    out.append("o" + gen)
                else:
                    out.append("o%s+%d" % (gen, after - before - 1))
            else:
                if after == before + 1:
                    out.append("o%s:%d" % (gen, r["status"]))
                else:
                    out.append("local%d:%d" % (after - before, r["status"]))
        self.plans.pop(sid, None)
        return "S " + " ".join(out)

    def one(self, line):
        steps = parse_steps(line)
        if steps is None:
            return "bad-op"
        obs = None
        for attempt in range(3):      # flake guard: an observation the property rejects must repeat
            obs = self.once(steps)
            if oracle(line, obs) is None:
                return obs
        return obs

    def run(self, lines):
        rig = self.rig
        with ThreadPoolExecutor(max_workers=6) as ex:
            return list(ex.map(rig.guarded(self.one, [self.squid]), lines))

    def close(self):
        if self.squid is not None:
            self.squid.stop()
        self.origin.close()


class Harness:
    """S lines -> staged squid; every other line -> the in-process executable"""

    def __init__(self, stage):
        self.proc = ProcHarness([build_exe(stage)], env={"ASAN_OPTIONS": "detect_leaks=0", "UBSAN_OPTIONS": "print_stacktrace=0:halt_on_error=1"})
        self.stage = stage
        self.e2e = None
        self.crashes = 0

    def run(self, lines):
        out = [None] * len(lines)
        si = [i for i, l in enumerate(lines) if l.startswith("S ")]
        pi = [i for i, l in enumerate(lines) if not l.startswith("S ")]
        if pi:
            for i, o in zip(pi, self.proc.run([lines[i] for i in pi])):
                out[i] = o
            self.crashes = self.proc.crashes
        if si:
            if self.e2e is None:
                self.e2e = E2E(self.stage)     # started from the main thread
            for i, o in zip(si, self.e2e.run([lines[i] for i in si])):
                out[i] = o
        return out

    def close(self):
        if self.e2e is not None:
            self.e2e.close()
            self.e2e = None


def build(stage):
    return Harness(stage)


# ---------------------------------------------------------------------------------------------- the direct oracle

def invalidating(method):
    """RFC 9111 4.4: unsafe methods, including methods whose safety is unknown"""
    return method not in SAFE_METHODS


def header_targets(base, loc, cloc):
    """[(relation, identity)] of the same-host URLs named by Location / Content-Location of a reply to a request for `base`"""
    me = normalise(resolve(base, b""))
    out = []
    for rel, v in (("loc", loc), ("cloc", cloc)):
        if v is None:
            continue
        t = normalise(resolve(base, v))
        if t is not None and me is not None and t[:3] == me[:3]:
            out.append((rel, t))
    return out


def oracle_s(line, impl):
    steps = parse_steps(line)
    if steps is None:
        return None if impl == "bad-op" else "scenario line not understood but answered"
    if not impl.startswith("S "):
        return "no usable observation: " + impl[:80]
    obs = impl.split(" ")[1:]
    if len(obs) != len(steps):
        return "no usable observation: step count"
    inval = {}     # identity -> list of (contact, relation, step index)
    contact = {}   # contact number -> identity
    for i, (st, ob) in enumerate(zip(steps, obs)):
        url = step_url(st, NOMINAL_PORT, NOMINAL_SEG)
        me = normalise(resolve(url, b""))
        if st["k"] in ("G", "H"):
            m = re.fullmatch(r"([oc])(\d+)", ob)
            if not m:
                return "no usable observation: step %d %s" % (i, ob)
            g = int(m.group(2))
            if m.group(1) == "o":
                contact[g] = me
                continue
            if contact.get(g) != me:
                return "step %d: served a reply the origin never gave for this URL" % i
            for (c, rel, j) in reversed(inval.get(me, [])):
                if g < c:
                    return ("step %d: the cache served the reply of origin contact %d although the %s request of step %d (contact %d, status %d) "
                            "invalidated it [rel=%s step=%d served=%d]" % (i, g, steps[j]["m"], j, c, steps[j]["status"], rel, j, g))
        else:
            m = re.fullmatch(r"o(\d+):(\d+)", ob)
            if not m:
                return "no usable observation: step %d %s" % (i, ob)
            if int(m.group(2)) != st["status"]:
                return "no usable observation: step %d status %s relayed for %d" % (i, m.group(2), st["status"])
            c = int(m.group(1))
            if invalidating(st["m"]) and st["status"] < 400:
                loc = None if st["loc"] is None else subst(st["loc"], NOMINAL_PORT, NOMINAL_SEG)
                cloc = None if st["cloc"] is None else subst(st["cloc"], NOMINAL_PORT, NOMINAL_SEG)
                for rel, t in [("self", me)] + header_targets(url, loc, cloc):
                    inval.setdefault(t, []).append((c, rel, i))
    return None


def canon_text(ident):
    """the text squid keys the resource under: scheme://host[:non-default port]Encode(path[?query], PathChars)"""
    s, host, port, p, q = ident
    a = host if port == (b"80" if s == b"http" else b"443") else host + b":" + port
    pq = p + (b"?" + q if q is not None else b"")
    enc = b"".join(bytes([c]) if c in PATH_SET else b"%%%02X" % c for c in pq)
    return s + b"://" + a + enc


def p_fields(line):
    w = line.split(" ")
    if len(w) != 9 or w[0] != "P":
        return None
    try:
        return {"m": w[1], "status": int(w[2]), "scheme": w[3], "host": unhx(w[4]), "port": w[5], "path": unhx(w[6]),
                "loc": None if w[7] == "." else unhx(w[7]), "cloc": None if w[8] == "." else unhx(w[8])}
    except ValueError:
        return None


def p_base(f):
    return f["scheme"].encode() + b"://" + f["host"] + (b"" if f["port"] == "-" else b":" + f["port"].encode()) + f["path"]


def parse_evict(impl):
    if not impl.startswith("evict="):
        return None
    body = impl[6:]
    if body == "-":
        return []
    out = []
    for tok in body.split(","):
        a, b = tok.split(":")
        out.append((int(a), unhx(b)))
    return out


def oracle_p(line, impl):
    f = p_fields(line)
    if f is None:
        return None if impl == "bad-op" else "line not understood but answered"
    if impl in ("bad-components", "bad-op"):
        return None
    ev = parse_evict(impl)
    if ev is None:
        return "no usable observation: " + impl[:80]
    base = p_base(f)
    me = normalise(resolve(base, b""))
    if me is None:
        return None
    # never another host
    for (mid, u) in ev:
        t = normalise(resolve(u, b""))
        if t is not None and t[1] != me[1] and f["m"] != "CONNECT":
            return "purged a URL of another host: %r" % u
    if not (invalidating(f["m"]) and f["status"] < 400) or f["m"] in ("CONNECT",):
        return None
    want = [("self", me)] + header_targets(base, f["loc"], f["cloc"])
    for rel, t in want:
        key = canon_text(t)
        for mid in (1, 4):          # GET, HEAD
            if (mid, key) not in ev:
                return "the %s key %r is not evicted [rel=%s]" % ("GET" if mid == 1 else "HEAD", key, rel)
    return None


def authority_text(u):
    i = u.find(b":")
    if i < 0:
        return None
    r = u[i + 1:].lstrip(b"/")
    j = r.find(b"/")
    return r if j < 0 else r[:j]


def oracle(line, impl):
    if impl is None:
        return "no output"
    if impl.startswith("abort"):
        return "no usable observation: " + impl[:100]
    k = line[:1]
    if k == "S":
        return oracle_s(line, impl)
    if k == "P":
        return oracle_p(line, impl)
    w = line.split(" ")
    try:
        if k == "H" and len(w) == 3:
            a, b = unhx(w[1]), unhx(w[2])
            if impl == "bad-op":
                return None if (0 in a or 0 in b) else "rejected"
            if impl == "same=1":
                if authority_text(a) != authority_text(b) or not authority_text(a):
                    return "sameUrlHosts accepts different hosts"
            elif impl == "same=0":
                m1 = re.fullmatch(rb"[a-z]+://([^/:@?#]+(:[0-9]+)?)/[^\x00]*", a, re.S)
                m2 = re.fullmatch(rb"[a-z]+://([^/:@?#]+(:[0-9]+)?)/[^\x00]*", b, re.S)
                if m1 and m2 and m1.group(1) == m2.group(1):
                    return "sameUrlHosts refuses two URLs with the same authority text"
            else:
                return "no usable observation: " + impl[:60]
        elif k == "R" and len(w) == 2:
            a = unhx(w[1])
            if impl == "bad-op":
                return None if 0 in a else "rejected"
            first = re.split(rb"[/?#]", a, maxsplit=1)[0]
            want = "rel=0" if b":" in first else "rel=1"
            if impl != want:
                return "urlIsRelative: %s for a reference %s a colon in its first segment" % (impl, "with" if b":" in first else "without")
        elif k == "A" and len(w) == 6:
            if impl in ("bad-op", "bad-components"):
                return None
            # RFC 3986 5.2.3 merge without dot-segment removal, as the function documents
            host, path, rel = unhx(w[2]), unhx(w[4]), unhx(w[5])
            ident = normalise(resolve(w[1].encode() + b"://" + host + (b"" if w[3] == "-" else b":" + w[3].encode()) + b"/", b""))
            if ident is None:
                return None
            cut = path.rfind(b"/")
            merged = (b"/" if cut < 0 else path[:cut + 1]) + rel
            want = canon_text((ident[0], ident[1], ident[2], merged, None))
            if impl != "abs=" + hx(want):
                return "addRelativePath + absolute() does not give the merged URL [rel=addrel]"
    except ValueError:
        return None if impl == "bad-op" else "line not understood but answered"
    return None


def compare(line, impl, model):
    if impl == "bad-components":
        return True      # outside the canonical request components: the real parser rewrote them
    return impl == model


# ---------------------------------------------------------------------------------------------- findings

def has_dot_segments(v):
    path = re.split(rb"[?#]", v, maxsplit=1)[0]
    return any(seg in (b".", b"..") for seg in path.split(b"/"))


def classify_value(base, v):
    """why a Location value naming a same-host URL is not purged; None = no known reason"""
    if v is None:
        return None
    rs, ra, rp, rq, rf = split_ref(v)
    bs, ba, bp, bq, _ = split_ref(base)
    if rs is None and ra is None:
        if v.startswith(b"/"):
            if has_dot_segments(v) or rf is not None:
                return "C20-location-spelling-not-purged"
            return None
        # relative-path reference (or empty / query-only / fragment-only)
        if rp is None or (rp == b"" and rq is None):
            return None                                        # not a reference / same document: the request URL itself
        if has_dot_segments(v) or rf is not None or (bq is not None and b"/" in bq) or rp == b"" or has_dot_segments(bp or b""):
            # no dot-segment removal (in the value or in the request path it is merged with), fragment kept, rfind('/') inside the
            # query, a query-only reference merged like a path
            return "C20-location-spelling-not-purged"
        return "C20-relative-location-not-purged"
    if rs is None:
        return "C20-location-spelling-not-purged"             # network-path reference
    t = normalise(resolve(base, v))
    if t is None:
        return None
    if canon_text(t) != v:
        return "C20-location-spelling-not-purged"             # scheme/host case, default port, fragment, dot segments, ?query
    return None


def classify(line, impl, why):
    if not why or "no usable observation" in why:
        return None
    m = re.search(r"\[rel=(\w+)( step=(\d+) served=(\d+))?\]", why)
    if not m:
        return None
    rel = m.group(1)
    if line.startswith("A "):
        return "C20-relative-location-not-purged" if rel == "addrel" else None
    if line.startswith("P "):
        f = p_fields(line)
        quiet = "C20-copy-lock-unlock-not-invalidating" if f["m"] in KNOWN_QUIET else None
        if rel == "self":
            return quiet
        return classify_value(p_base(f), f[rel]) or quiet
    if line.startswith("S "):
        steps = parse_steps(line)
        st = steps[int(m.group(3))]
        served = int(m.group(4))
        quiet = "C20-copy-lock-unlock-not-invalidating" if st["m"] in KNOWN_QUIET else None
        # which step produced the served reply?
        obs = impl.split(" ")[1:]
        src = [steps[i] for i, o in enumerate(obs) if o == "o%d" % served]
        if src and src[0]["k"] in ("G", "H") and src[0]["v"] and not quiet:
            return "C20-vary-variants-survive"
        if rel == "self":
            return quiet
        v = subst(st[rel], NOMINAL_PORT, NOMINAL_SEG)
        return classify_value(step_url(st, NOMINAL_PORT, NOMINAL_SEG), v) or quiet
    return None


# ---------------------------------------------------------------------------------------------- generators

REGISTERED = ["GET", "POST", "PUT", "HEAD", "CONNECT", "TRACE", "OPTIONS", "DELETE", "LINK", "UNLINK", "CHECKOUT", "CHECKIN", "UNCHECKOUT",
              "MKWORKSPACE", "VERSION-CONTROL", "REPORT", "UPDATE", "LABEL", "MERGE", "BASELINE-CONTROL", "MKACTIVITY", "PROPFIND",
              "PROPPATCH", "MKCOL", "COPY", "MOVE", "LOCK", "UNLOCK", "SEARCH", "PRI", "PURGE"]
UNKNOWN = ["PATCH", "FOO", "BREW", "METHOD_OTHER", "get", "Post"]
E2E_METHODS = [m for m in REGISTERED if m not in ("GET", "HEAD", "CONNECT", "PURGE", "PRI", "TRACE")] + ["PATCH", "FOO", "BREW"]
KNOWN_QUIET = ("COPY", "LOCK", "UNLOCK")
STATUSES = [200, 201, 202, 203, 204, 206, 226, 299, 300, 301, 302, 303, 307, 308, 399, 400, 401, 403, 404, 405, 409, 410, 418, 499, 500, 502, 503, 599]
SUFFIXES = [b"a", b"d/a", b"d/e/a", b"d/", b"", b"a.html", b"d/a?x=1", b"d/a?x=/y", b"a;p=1", b"d/a%20b", b"d/~u/a", b"d/A"]


def p_line(m, status, scheme, host, port, path, loc, cloc):
    return "P %s %d %s %s %s %s %s %s" % (m, status, scheme, hx(host), port, hx(path), "." if loc is None else hx(loc), "." if cloc is None else hx(cloc))


def path_gen(rng):
    k = rng.below(10)
    if k < 4:
        return b"/" + rng.choice(SUFFIXES)
    if k == 4:
        return b"/"
    if k == 5:
        return b"/" + rng.bytes(rng.range(1, 12), b"abcXYZ019/._-~?=&%:@+,;")
    if k == 6:
        return b"/" + b"/".join(rng.bytes(rng.range(0, 4), b"ab.") for _ in range(rng.range(1, 5)))
    if k == 7:
        return b"/x" * rng.choice([1, 50, 500, 2000])
    if k == 8:
        return b"/q?" + rng.bytes(rng.range(0, 8), b"ab/=&?")
    return b"/" + rng.bytes(rng.range(1, 6), bytes(c for c in range(33, 127) if c != 35))     # no '#': not part of a request target


def host_gen(rng):
    return rng.choice([b"h.example", b"a", b"127.0.0.1", b"www.example.com", b"x-1.example.org", b"h", b"a.b.c.d.e", b"example.com"])


def authority_of(scheme, host, port):
    d = "80" if scheme == "http" else "443"
    return host if port in ("-", d) else host + b":" + port.encode()


def header_value(rng, scheme, host, port, path):
    """one Location/Content-Location value for a request to scheme://host:port path"""
    auth = authority_of(scheme, host, port)
    exact = scheme.encode() + b"://" + auth
    tpath = rng.choice([b"/t", b"/d/b", path, b"/", b"/d/b?x=1", b"/a%20b", b"/d/./b", b"/d/../b"])
    k = rng.below(22)
    if rng.chance(1, 2):
        k = rng.choice([0, 4, 5, 7, 8, 9, 14, 15])     # half of the values: absent / absolute path / exact spelling / other host
    if k == 0:
        return None
    if k == 1:
        return rng.choice([b"b", b"b/c", b"t.html", b"b?x=1", b"x;y", b"b%20c"])                       # relative path
    if k == 2:
        return rng.choice([b"./b", b"../b", b"../../b", b".", b"..", b"b/../c", b"./", b"b/."])           # with dot segments
    if k == 3:
        return rng.choice([b"", b"?q=1", b"#f", b"?", b"#", b"b#f"])
    if k in (4, 5):
        return tpath                                                                                     # absolute path
    if k == 6:
        return b"//" + auth + tpath                                                                      # network path
    if k in (7, 8, 9):
        return exact + tpath                                                                             # absolute, exact spelling
    if k == 10:
        return exact.upper() + tpath if rng.chance(1, 2) else scheme.upper().encode() + b"://" + auth + tpath
    if k == 11:
        d = "80" if scheme == "http" else "443"
        return scheme.encode() + b"://" + host + b":" + (d if port in ("-", d) else port.lstrip("0") and "0" + port).encode() + tpath
    if k == 12:
        return exact + tpath + b"#frag"
    if k == 13:
        return rng.choice([exact, exact + b"?q", scheme.encode() + b"://u@" + auth + tpath, scheme.encode() + b"://" + host + b"." + tpath])
    if k == 14:                                                                                          # other hosts, near misses
        other = rng.choice([b"evil.example", host + b".evil", host[:-1] or b"x", b"x" + host, host + b"@evil", host + b":81", host + b":8" ,
                            b"evil@" + host, host.upper(), b"[::1]", host + b"%2f"])
        return scheme.encode() + b"://" + other + tpath
    if k == 15:
        return (b"https" if scheme == "http" else b"http") + b"://" + auth + tpath                       # other scheme, same authority text
    if k == 16:
        return rng.choice([b"a:b", b":", b"http:", b"http:/", b"http://", b"http:///", b"http:///x", b"://x", b"x://", b"http:x", b"http:/x/y",
                           b"urn:x:y", b"mailto:a@b", b"http:////" + auth + tpath, b"http:/" + auth + tpath, b"h:" + auth, b":" + auth + b"/"])
    if k == 17:                                                                                          # truncation of a valid absolute URL
        v = exact + tpath
        return v[:rng.range(0, len(v))]
    if k == 18:                                                                                          # one byte changed
        v = bytearray(exact + tpath)
        v[rng.below(len(v))] = rng.choice(b"/:@?#.%aA0 \t")
        return bytes(v)
    if k == 19:
        v = exact + tpath
        i = rng.below(len(v) + 1)
        return v[:i] + rng.choice([b"/", b":", b"//", b"@"]) + v[i:]                                     # insertion
    if k == 20:
        return rng.bytes(rng.range(1, 10), b"ab:/.?#@%")
    return rng.bytes(rng.range(1, 8), bytes(range(1, 256)))


def p_cases(rng, n):
    for _ in range(n):
        m = rng.choice(REGISTERED) if rng.chance(3, 5) else rng.choice(["POST", "PUT", "DELETE"] + UNKNOWN)
        if m in KNOWN_QUIET and rng.chance(2, 3):
            m = "POST"
        status = rng.choice(STATUSES) if rng.chance(1, 3) else rng.choice([200, 201, 204, 303, 399, 400])
        scheme = rng.choice(["http", "http", "https"])
        host = host_gen(rng)
        port = rng.choice(["-", "-", "80", "443", "8080", "1", "65535", "3128"])
        path = path_gen(rng)
        loc = header_value(rng, scheme, host, port, path)
        cloc = header_value(rng, scheme, host, port, path) if rng.chance(1, 2) else None
        if rng.chance(1, 6):
            loc, cloc = cloc, loc
        yield p_line(m, status, scheme, host, port, path, loc, cloc)


def url_text(rng):
    scheme = rng.choice(["http", "https"])
    host = host_gen(rng)
    port = rng.choice(["-", "8080", "80"])
    v = header_value(rng, scheme, host, port, b"/p")
    return v if v is not None else scheme.encode() + b"://" + authority_of(scheme, host, port) + b"/p"


def h_cases(rng, n):
    for _ in range(n):
        a = url_text(rng)
        k = rng.below(6)
        if k == 0:
            b = a
        elif k == 1:
            b = url_text(rng)
        elif k == 2:                       # same authority, other path
            m = re.match(rb"^([a-z]+://[^/]*)", a)
            b = (m.group(1) if m else a) + rng.choice([b"/z", b"/", b"", b"?q", b"/z/y"])
        elif k == 3:
            b = a[:rng.range(0, len(a))]
        elif k == 4:
            v = bytearray(a or b"x")
            v[rng.below(len(v))] = rng.choice(b"/:@?#.aA0")
            b = bytes(v)
        else:
            i = a.find(b":")
            b = a[:i + 1] + b"/" * rng.range(0, 4) + a[i + 1:].lstrip(b"/") if i >= 0 else a + b":"
        if 0 in a or 0 in b:
            continue
        if rng.chance(1, 2):
            a, b = b, a
        yield "H %s %s" % (hx(a), hx(b))


def r_cases(rng, n):
    for _ in range(n):
        v = url_text(rng)
        if rng.chance(1, 4):
            v = rng.bytes(rng.range(0, 6), b"a:/?#.")
        if 0 in v:
            continue
        yield "R %s" % hx(v)


def a_cases(rng, n):
    """canonical cases last: in the unfixed tree every one of them shows the addRelativePath defect"""
    for _ in range(n):
        rel = rng.choice([b"b", b"b/c", b"", b"x?y=1", b"..", b"./b", b"b%41", b"b c", rng.bytes(rng.range(1, 6), b"ab/.?%")])
        yield "A %s %s %s %s %s" % (rng.choice(["http", "https"]), hx(host_gen(rng)), rng.choice(["-", "8080"]), hx(path_gen(rng)), hx(rel))


def g(h, path, x=None, v=False, head=False):
    return "%s/%s/%s/%s/%d" % ("H" if head else "G", h, hx(path), "." if x is None else hx(x), 1 if v else 0)


def u(m, h, path, status, loc=None, cloc=None):
    return "U/%s/%s/%s/%d/%s/%s" % (m, h, hx(path), status, "." if loc is None else hx(loc), "." if cloc is None else hx(cloc))


def s_loc_value(rng, target, kind):
    """a Location text naming (or nearly naming) /{S}/<target> on the origin"""
    t = b"/{S}/" + target
    if kind == "abs-exact":
        return b"http://{O}" + t
    if kind == "abs-path":
        return t
    if kind == "rel":
        return None       # filled by the caller (depends on the request path)
    if kind == "netpath":
        return b"//{O}" + t
    if kind == "upper-scheme":
        return b"HTTP://{O}" + t
    if kind == "fragment":
        return b"http://{O}" + t + b"#f"
    if kind == "dots":
        return b"http://{O}/{S}/./" + target
    if kind == "other-host":
        return rng.choice([b"http://other.example", b"http://127.0.0.1.evil:{P}", b"http://127.0.0.2:{P}", b"http://localhost:{P}", b"http://x@evil:{P}"]) + t
    if kind == "other-port":
        return rng.choice([b"http://127.0.0.1:1{P}", b"http://127.0.0.1", b"http://127.0.0.1:80"]) + t
    if kind == "userinfo":
        return b"http://u@{O}" + t
    raise ValueError(kind)


CLEAN_KINDS = ["abs-exact", "abs-path", "other-host", "other-port", "abs-exact", "abs-path"]
KNOWN_KINDS = ["rel", "netpath", "upper-scheme", "fragment", "dots", "userinfo"]


def rel_ref(req_path, target):
    """a dot-free relative-path reference from req_path's directory to target, or None"""
    d = req_path[:req_path.rfind(b"/") + 1] if b"/" in req_path else b""
    if b"?" in req_path.split(b"/")[-1] and b"/" in req_path.split(b"?", 1)[1]:
        return None
    if target.startswith(d) and target[len(d):] and not target[len(d):].startswith(b"/"):
        return target[len(d):]
    return None


def s_scenario(rng, kinds, methods, quiet_ok=False):
    t = rng.below(10)
    m = rng.choice(methods)
    if m in KNOWN_QUIET and not quiet_ok:
        m = "POST"
    status = rng.choice(STATUSES) if rng.chance(1, 2) else rng.choice([200, 201, 204, 303, 399, 400, 404])
    h = "0" if rng.chance(3, 4) else rng.choice("123")
    a = rng.choice(SUFFIXES)
    if t <= 1:                                     # the request's own URL
        warm = [g(h, a)] + ([g(h, a)] if rng.chance(1, 2) else [])
        return "S " + " ".join(warm + [u(m, h, a, status)] + [g(h, a), g(h, a)])
    if t <= 5:                                     # Location / Content-Location targets
        b = rng.choice([s for s in SUFFIXES if s != a])
        kind = rng.choice(kinds)
        if kind == "rel":
            v = rel_ref(a, b)
            if v is None:
                a, b = b"d/a", b"d/b"
                v = b"b"
        else:
            v = s_loc_value(rng, b, kind)
        other = s_loc_value(rng, rng.choice(SUFFIXES), rng.choice(CLEAN_KINDS)) if rng.chance(1, 4) else None
        loc, cloc = (v, other) if rng.chance(1, 2) else (other, v)
        steps = [g(h, a), g(h, b), g(h, b), u(m, h, a, status, loc, cloc), g(h, b), g(h, a)]
        return "S " + " ".join(steps)
    if t == 6:                                     # host spelling of the requests themselves
        hs = [rng.choice("123") for _ in range(3)]
        return "S " + " ".join([g(hs[0], a), g(hs[1], a), u(m, hs[2], a, status), g(hs[0], a)])
    if t == 7:                                     # HEAD entries
        return "S " + " ".join([g(h, a, head=True), g(h, a, head=True), g(h, a), g(h, a, head=True), u(m, h, a, status), g(h, a, head=True), g(h, a)])
    if t == 8:                                     # two purging requests, different URLs
        b = rng.choice([s for s in SUFFIXES if s != a])
        return "S " + " ".join([g(h, a), g(h, b), u(m, h, a, status), g(h, b), u(rng.choice(["POST", "PUT", "DELETE"]), h, b, rng.choice([200, 404])), g(h, a), g(h, b)])
    # random walk over two URLs
    b = rng.choice([s for s in SUFFIXES if s != a])
    steps = []
    for _ in range(rng.range(4, 9)):
        if rng.chance(2, 3):
            steps.append(g(h, rng.choice([a, b]), head=rng.chance(1, 5)))
        else:
            tgt = rng.choice([a, b])
            steps.append(u(rng.choice(methods) if quiet_ok else rng.choice(["POST", "PUT", "DELETE", "PATCH", "MKCOL", "OPTIONS"]), h, rng.choice([a, b]),
                           rng.choice([200, 201, 404, 500]), s_loc_value(rng, tgt, rng.choice(CLEAN_KINDS)) if rng.chance(1, 2) else None))
    return "S " + " ".join(steps)


def vary_scenario(rng, purge):
    """two variants of one URL, an unsafe request, both variants again"""
    a = rng.choice([b"v/a", b"v/b?x=1"])
    m = rng.choice(["POST", "PUT", "DELETE", "PATCH"]) if purge else rng.choice(["OPTIONS", "POST"])
    status = 200 if purge else rng.choice([404, 500])
    if not purge and m == "OPTIONS":
        status = 200
    x1, x2 = b"one", b"two"
    return "S " + " ".join([g("0", a, x1, True), g("0", a, x2, True), g("0", a, x1, True), g("0", a, x2, True), u(m, "0", a, status),
                            g("0", a, x1, True), g("0", a, x2, True), g("0", a, None, True)])


def vary_walk(rng):
    """random history over one URL whose replies mostly (not always) vary: variants, HEAD, absent header, purging and other requests"""
    a = rng.choice([b"v/a", b"v/b?x=1"])
    steps = []
    for _ in range(rng.range(3, 9)):
        if rng.chance(1, 4):
            steps.append(u(rng.choice(["POST", "PUT", "OPTIONS", "DELETE", "BREW"]), "0", a, rng.choice([200, 200, 404])))
        else:
            steps.append(g("0", a, rng.choice([b"one", b"two", None]), rng.chance(4, 5), head=rng.chance(1, 6)))
    return "S " + " ".join(steps)


def exhaustive_s():
    """every e2e method x a status on each side of 400 x the clean Location kinds (thorough)"""
    for m in E2E_METHODS:
        for status in (200, 204, 303, 399, 400, 404):
            yield "S " + " ".join([g("0", b"a"), g("0", b"a"), u(m, "0", b"a", status), g("0", b"a")])
            for kind in ("abs-exact", "abs-path"):
                if m in KNOWN_QUIET:
                    continue
                yield "S " + " ".join([g("0", b"d/a"), g("0", b"d/b"), u(m, "0", b"d/a", status, s_loc_value(None, b"d/b", kind)), g("0", b"d/b"), g("0", b"d/a")])
                yield "S " + " ".join([g("0", b"d/a"), g("0", b"d/b"), u(m, "0", b"d/a", status, None, s_loc_value(None, b"d/b", kind)), g("0", b"d/b"), g("0", b"d/a")])


def exhaustive_p():
    """every registered method (+ unknown ones) x statuses around 400 x header presence (thorough)"""
    for m in REGISTERED + UNKNOWN:
        for status in (0, 100, 199, 200, 399, 400, 401, 599, 600, 999):
            for loc in (None, b"/t", b"http://h.example/t", b"http://evil.example/t"):
                for cloc in (None, b"/u"):
                    yield p_line(m, status, "http", b"h.example", "-", b"/d/a", loc, cloc)


def cases(rng, tier):
    thorough = tier == "thorough"
    out = []
    out += list(p_cases(rng.fork("p"), 6000 if thorough else 700))
    out += list(h_cases(rng.fork("h"), 6000 if thorough else 600))
    out += list(r_cases(rng.fork("r"), 2000 if thorough else 200))
    if thorough:
        out += list(exhaustive_p())
    rs = rng.fork("s")
    for _ in range(900 if thorough else 110):
        out.append(s_scenario(rs, CLEAN_KINDS, [m for m in E2E_METHODS if m not in KNOWN_QUIET]))
    for _ in range(60 if thorough else 8):
        out.append(vary_scenario(rs, purge=False))
    if thorough:
        out += list(exhaustive_s())
    # cases in the region of the known findings come last and stay few
    for _ in range(120 if thorough else 14):
        out.append(s_scenario(rs, KNOWN_KINDS, E2E_METHODS, quiet_ok=True))
    for _ in range(20 if thorough else 4):
        out.append(vary_scenario(rs, purge=True))
    for _ in range(150 if thorough else 12):
        out.append(vary_walk(rs))
    out += list(a_cases(rng.fork("a"), 300 if thorough else 40))
    return out


def exhaustive(tier):
    return tier == "thorough"


def nontrivial(line, impl, model):
    k = line[:1]
    if k == "S":
        steps = parse_steps(line) or []
        obs = (impl or "").split(" ")[1:]
        ui = [i for i, s in enumerate(steps) if s["k"] == "U"]
        return bool(ui) and any(o.startswith("c") for o in obs[:ui[0]]) and len(steps) > ui[0] + 1
    if k == "P":
        return (impl or "").startswith("evict=") and impl != "evict=-"
    return impl not in ("bad-op", "bad-components")


def tag(line, impl, model):
    k = line[:1]
    if k == "S":
        steps = parse_steps(line) or []
        us = [s for s in steps if s["k"] == "U"]
        if not us:
            return "S no-unsafe"
        s = us[0]
        hdr = "loc" if s["loc"] is not None else "cloc" if s["cloc"] is not None else "none"
        after = (impl or "").split(" ")[1:][steps.index(s) + 1:]
        return "S %s %s hdr=%s vary=%s -> %s" % ("purging" if invalidating(s["m"]) else "safe", "<400" if s["status"] < 400 else ">=400", hdr,
                                                 "yes" if any(t.get("v") for t in steps) else "no", "".join(o[:1] for o in after))
    if k == "P":
        f = p_fields(line)
        if f is None:
            return "P bad"
        ev = parse_evict(impl or "")
        n = "?" if ev is None else str(len({u_ for _m, u_ in ev}))
        return "P %s %s urls=%s" % ("purging" if invalidating(f["m"]) else "safe", "<400" if f["status"] < 400 else ">=400", n if impl != "bad-components" else "bad-components")
    return "%s %s" % (k, impl)


MINIMISE_BUDGET = 30
MAX_REPORT = 8


def shrink(line):
    k = line[:1]
    w = line.split(" ")
    if k == "S":
        toks = w[1:]
        for i in range(len(toks)):                      # drop one step
            if len(toks) > 1:
                yield "S " + " ".join(toks[:i] + toks[i + 1:])
        for i, t in enumerate(toks):                    # drop a header of an unsafe step
            f = t.split("/")
            if f[0] == "U":
                for j in (5, 6):
                    if f[j] != ".":
                        f2 = list(f)
                        f2[j] = "."
                        yield "S " + " ".join(toks[:i] + ["/".join(f2)] + toks[i + 1:])
    elif k == "P" and len(w) == 9:
        for j in (7, 8):
            if w[j] != ".":
                yield " ".join(w[:j] + ["."] + w[j + 1:])
        for j in (6, 7, 8):
            if w[j] not in (".", "-") and len(w[j]) > 2:
                b = unhx(w[j])
                for cut in (len(b) // 2, len(b) - 1):
                    if j != 6 or cut >= 1:
                        yield " ".join(w[:j] + [hx(b[:cut])] + w[j + 1:])
    elif k in ("H", "R", "A"):
        for j in range(1, len(w)):
            if re.fullmatch(r"[0-9a-f]{4,}", w[j]):
                b = unhx(w[j])
                for cut in (len(b) // 2, len(b) - 1):
                    yield " ".join(w[:j] + [hx(b[:cut])] + w[j + 1:])
                yield " ".join(w[:j] + [hx(b[1:])] + w[j + 1:])


KNOWN_MUST_MATCH_MODEL = True   # inside a known finding's region the observation must still equal the model's (which reproduces the listed defect); see lib/vf/run.py
