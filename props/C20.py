"""C20 Successful unsafe requests invalidate cached responses (end to end + the real purge code in-process)."""
import os, re, subprocess, threading, time
from concurrent.futures import ThreadPoolExecutor
from vf.util import VERIF, hx, unhx
from vf.harness import ProcHarness

ID = "C20"
PROP_MODULE = "SquidModel.Properties.C20"
MODEL = "c20"
GEN = ["purge_tables"]


# ---------------------------------------------------------------------------------------------- in-process harness

def _extract(text, pattern, what):
    m = re.search(pattern, text, re.S | re.M)
    if not m:
        from vf.stage import BuildError
        raise BuildError("%s not found in the staged source" % what)
    return m.group(0)


def extract_client(stage):
    """verbatim text of sameUrlHosts, purgeEntriesByHeader, Client::maybePurgeOthers of the staged src/clients/Client.cc"""
    t = stage.read("src/clients/Client.cc")
    return "\n".join([
        _extract(t, r"^static bool\nsameUrlHosts\(.*?^}\n", "sameUrlHosts"),
        _extract(t, r"^static void\npurgeEntriesByHeader\(.*?^}\n", "purgeEntriesByHeader"),
        _extract(t, r"^void\nClient::maybePurgeOthers\(\)\n.*?^}\n", "Client::maybePurgeOthers"),
    ])


def extract_reply(stage):
    """verbatim text of purgeEntriesByUrl of the staged src/client_side_reply.cc"""
    t = stage.read("src/client_side_reply.cc")
    return _extract(t, r"^void\npurgeEntriesByUrl\(.*?^}\n", "purgeEntriesByUrl")


def other_purges_at_request_time(stage):
    """clientReplyContext::processMiss: `if (r->method == Http::METHOD_OTHER) { purgeAllCached(); }` still there, and
    purgeAllCached still purges effectiveRequestUri()"""
    t = stage.read("src/client_side_reply.cc")
    a = re.search(r"if \(r->method == Http::METHOD_OTHER\) \{\s*purgeAllCached\(\);\s*\}", t) is not None
    b = re.search(r"clientReplyContext::purgeAllCached\(\)\n\{[^}]*SBuf url\(http->request->effectiveRequestUri\(\)\);\s*purgeEntriesByUrl\(http->request, url\.c_str\(\)\);\s*\}", t) is not None
    return a and b


def build_exe(stage):
    built = getattr(stage, "built", None)
    if built is None:
        built = stage.built = {}
    if "c20" in built:
        return built["c20"]
    inc = os.path.join(stage.work, "c20inc")
    os.makedirs(inc, exist_ok=True)
    with open(os.path.join(inc, "c20_client.inc"), "w") as f:
        f.write(extract_client(stage))
    with open(os.path.join(inc, "c20_reply.inc"), "w") as f:
        f.write(extract_reply(stage))
    with ThreadPoolExecutor(max_workers=6) as ex:
        main = ex.submit(stage.compile, os.path.join(VERIF, "harness", "c20.cc"), extra=["-I" + inc])
        rest = [ex.submit(stage.compile, s) for s in ["src/anyp/UriScheme.cc", "src/http/RequestMethod.cc", "src/http/MethodType.cc"]]
        objs = [main.result()] + [r.result() for r in rest]
    # tests/stub_libhttp.o stubs HttpRequestMethod; the real http/RequestMethod.cc is used instead: weaken the stub's symbols
    weak = os.path.join(stage.work, "c20_stub_libhttp_weak.o")
    subprocess.run(["objcopy", "--weaken", os.path.join(stage.repo, "src/tests/stub_libhttp.o"), weak], check=True)
    exe = stage.link_like("tests/testURL", objs + [weak], os.path.join(stage.work, "c20"), drop=("tests/stub_libhttp.o",))
    built["c20"] = exe
    return exe
