"""C15 Range responses contain exactly the requested bytes (end to end)."""
import os, re, importlib
from vf.util import VERIF, hx, unhx

H = importlib.import_module("harness.c15")

ID = "C15"
PROP_MODULE = "SquidModel.Properties.C15"
MODEL = "c15"
GEN = ["rangepack_consts"]
RULE = ("scenario = store state (uncached with range_offset_limit none / memory hit / disk-only hit / uncached with the default limit) x method x "
        "object size (0..3 pages, page boundaries +-1) x Content-Type x origin framing x Range header (sorted, adjacent, overlapping, "
        "out-of-order, beyond-length, suffix, open-ended, invalid) x If-Range x connection reuse, each sent through the rebuilt squid; "
        "the raw 200/206/416 is parsed strictly (multipart framing re-read byte by byte) and compared with the origin object; "
        "non-trivial = the request carries a Range header; distinct = distinct scenario lines")
TRUSTED = ["modelled, not verified: Comm I/O, the store (modelled as an adversary returning 1..4096 bytes at the requested offset), "
           "header parsing and generic reply header generation, the rig's origin stub (its single-range behaviour is part of the model)"]
ASSUMPTIONS = ["Range headers inside the clean grammar (digits only, <= 18 digits) or certainly invalid; the lax strtoll cases belong to C28",
               "objects with a strong ETag and max-age; cache_dir ufs for the disk-only state; HTTP/1.1 clients"]
MANIFEST = {
    "engine": "e2e",
    "text": "partial: for the model of range_iter/packRange/canPackMoreRanges/getNextRangeOffset/lengthToSend over ANY store delivery schedule "
            "(theorems honoured_wire_exact, content_length_exact, parts_are_requested_satisfiable, parts_cover_requested, respond_status, serveStored_sound) the 206 body is "
            "exactly the requested slices with their framing, Content-Length is exact, and the parts are the satisfiable requested ranges; an "
            "ignored range yields the complete object for every first store answer (ignored_wire_full, at full strength since fix f9db419; "
            "prefix_variant_ignored_wire_counterexample documents the pre-fix behaviour); the model "
            "is tied to the rebuilt binary by scenario correspondence (status, Content-Range, Content-Length, part list, FNV of the "
            "boundary-normalised wire body) and a direct oracle that re-reads the multipart framing and compares every part with the origin object",
    "note": "trusted: Lean kernel, python rig (origin/client stubs), loopback TCP; not modelled: socket I/O, store internals (swap-in, "
            "memory pages), reply header generation besides Content-Range/Content-Type/Content-Length, If-Range dates, Request-Range",
    "technique": "Lean 4 proof (loop invariant over the packing state machine, arbitrary delivery schedules) + constants translator + "
                 "end-to-end scenario correspondence with three rebuilt squid instances",
}



def build(stage):
    return H.Harness(stage)


# ------------------------------------------------------------------------------------------------ generators

SIZES = [0, 1, 2, 3, 10, 100, 255, 256, 257, 1000, 3700, 3800, 3900, 4000, 4095, 4096, 4097, 5000, 8191, 8192, 8193, 9000, 12287, 12288, 12289]


def line(mode, method, n, seed, ct, olen, rng, ifr, ka, seg):
    return "%s %s %d %d %d %s %s %s %d %d" % (mode, method, n, seed, ct, olen, hx(rng) if rng is not None else "-", ifr, ka, seg)


def spec_text(s):
    a, b = s
    if a is None:
        return b"-%d" % b
    if b is None:
        return b"%d-" % a
    return b"%d-%d" % (a, b)


def pos_near(rng, n):
    """an offset: small, near a page boundary, near the end, beyond the end, or anywhere"""
    k = rng.below(8)
    if k == 0:
        return rng.below(4)
    if k == 1:
        return max(0, n - 1 - rng.below(3))
    if k == 2:
        return n + rng.below(3)
    if k == 3:
        return max(0, 4096 * rng.range(1, 3) - 2 + rng.below(4))
    if k == 4:
        return n + rng.range(1, 5000)
    return rng.below(max(1, n))


def one_spec(rng, n):
    k = rng.below(10)
    if k == 0:
        return (None, rng.choice([0, 1, 2, max(1, n - 1), n, n + 1, n + 1000, rng.below(max(1, n)) + 1]))
    if k == 1:
        return (pos_near(rng, n), None)
    a = pos_near(rng, n)
    ln = rng.choice([1, 1, 2, 10, 100, 4096, 4097, rng.below(max(1, n)) + 1, 10 ** 6])
    return (a, a + ln - 1)


def sorted_specs(rng, n, k):
    """k strictly ordered, non-overlapping first-last specs inside (or just beyond) the object: the honoured multi-range shape"""
    cuts = sorted(rng.below(max(1, n + 1)) for _ in range(2 * k))
    out = []
    for i in range(k):
        a, b = cuts[2 * i], cuts[2 * i + 1]
        if out and a <= out[-1][1]:
            a = out[-1][1] + 1 + (0 if rng.chance(1, 2) else rng.below(3))
        b = max(a, b)
        out.append((a, b))
    if rng.chance(1, 4):
        out[-1] = (out[-1][0], None)
    if rng.chance(1, 6) and out[-1][0] is not None and n > 0:
        out.append((None, rng.range(1, max(1, n - max(0, out[-1][0]) - 1)) if n - out[-1][0] > 2 else 1))
    return out


SEPS = [b",", b",", b", ", b" ,", b",\t", b",,", b" , "]
INVALID = [b"bytes=5-3", b"bytes=abc", b"bytes=-", b"bytes=", b"bits=0-5", b"bytes 0-5", b"0-5", b"bytes=0-5,x", b"bytes=1-2,5-3", b"bytes=--5", b"bytes=5",
           b"bytes=a-5", b"byte=0-1", b"bytes=0-1,,", b"bytes=x-", b"bytes=-x"]


def range_header(rng, n):
    k = rng.below(20)
    if k == 0:
        return None
    if k == 1:
        return rng.choice(INVALID)
    if k <= 7:
        specs = sorted_specs(rng, n, rng.range(2, 5))
    elif k <= 11:
        specs = [one_spec(rng, n)]
    else:
        specs = [one_spec(rng, n) for _ in range(rng.range(2, 4))]
        if rng.chance(1, 3):
            specs.sort(key=lambda s: (s[0] if s[0] is not None else 1 << 62))
    if rng.chance(1, 12) and len(specs) > 1:
        specs.insert(rng.below(len(specs)), specs[rng.below(len(specs))])       # duplicate
    sep = rng.choice(SEPS)
    pre = rng.choice([b"bytes=", b"bytes=", b"bytes=", b"Bytes=", b"BYTES=", b"bytes= ", b"bytes=,"])
    return pre + sep.join(spec_text(s) for s in specs) + rng.choice([b"", b"", b"", b",", b" ,"])


def random_case(rng, tier):
    mode = rng.choice(["miss", "miss", "miss", "mem", "mem", "mem", "disk", "disk", "disk", "fwd", "fwd"])
    n = rng.choice(SIZES) if rng.chance(2, 3) else rng.below(70000 if tier == "thorough" and rng.chance(1, 6) else 14000)
    method = "HEAD" if rng.chance(1, 14) and mode != "fwd" else "GET"
    olen = "chunked" if rng.chance(1, 12) and method == "GET" else "cl"
    ifr = rng.choice(["match", "other", "weak"]) if rng.chance(1, 6) else "-"
    return line(mode, method, n, rng.below(251), rng.below(3), olen, range_header(rng, n), ifr, 1 if rng.chance(1, 3) else 0, rng.range(1, 3))


def boundary_cases():
    for mode in ("miss", "mem", "disk", "fwd"):
        for n in (1, 100, 4096, 8193):
            rs = [b"0-0", b"%d-%d" % (n - 1, n - 1), b"%d-%d" % (n, n), b"%d-" % (n - 1), b"%d-" % n, b"-1", b"-%d" % n, b"-%d" % (n + 1), b"-0", b"0-",
                  b"0-%d" % (n - 1), b"0-%d" % n, b"0-0,%d-%d" % (n - 1, n - 1), b"0-0,-1", b"-1,0-0", b"0-0,1-1", b"0-1,1-2", b"1-1,0-0", b"0-,0-0",
                  b"%d-,0-0" % n, b"%d-%d,%d-" % (n, n + 5, n + 7), b"0-0,0-0", b"999999999999999999-", b"0-999999999999999999", b"-999999999999999999"]
            if n > 4096:
                rs += [b"4095-4096", b"4096-4096", b"0-4095,4096-8191", b"4090-4100,8190-8192", b"1-4096", b"4095-4095,4097-4097,8192-"]
            for r in rs:
                yield line(mode, "GET", n, 7, 1, "cl", b"bytes=" + r, "-", 0, 1)
    # the buildRangeHeader guards on their own
    for mode in ("miss", "mem", "disk"):
        for ifr in ("match", "other", "weak"):
            yield line(mode, "GET", 5000, 9, 1, "cl", b"bytes=0-9,4990-", ifr, 0, 1)
            yield line(mode, "GET", 5000, 9, 1, "cl", b"bytes=10-19", ifr, 1, 1)
        yield line(mode, "GET", 5000, 9, 2, "chunked", b"bytes=0-9", "-", 0, 2)
        yield line(mode, "GET", 5000, 9, 2, "chunked", b"bytes=10-19,30-", "-", 1, 3)
        yield line(mode, "HEAD", 5000, 9, 1, "cl", b"bytes=10-19", "-", 0, 1)
        yield line(mode, "HEAD", 5000, 9, 0, "cl", b"bytes=10-19,30-39", "-", 1, 1)
        yield line(mode, "HEAD", 5000, 9, 1, "cl", b"bytes=30-39,10-19", "-", 0, 1)
        yield line(mode, "GET", 0, 9, 1, "cl", b"bytes=0-0", "-", 0, 1)
        yield line(mode, "GET", 0, 9, 1, "cl", b"bytes=-1", "-", 1, 1)


def universe(n):
    u = []
    for a in range(0, n + 2):
        for b in range(a, n + 2):
            u.append((a, b))
        u.append((a, None))
    for s in range(0, n + 2):
        u.append((None, s))
    return u


def exhaustive_cases(tier):
    """every range set of one or two specs over a tiny object (positions 0..n+1, open-ended, suffix lengths 0..n+1)"""
    ns = (0, 1, 3) if tier == "thorough" else (2,)
    modes = ("miss", "mem", "disk") if tier == "thorough" else ("mem", "disk")
    for n in ns:
        u = universe(n)
        for mode in modes:
            for s in u:
                yield line(mode, "GET", n, 5, 1, "cl", b"bytes=" + spec_text(s), "-", 0, 1)
            k = 0
            for s in u:
                for t in u:
                    k += 1
                    if tier != "thorough" and (k + len(mode)) % 5:
                        continue
                    yield line(mode, "GET", n, 5, 1, "cl", b"bytes=" + spec_text(s) + b"," + spec_text(t), "-", 0, 1)


def exhaustive(tier):
    """thorough: every range set of <= 2 specs over objects of 0, 1 and 3 bytes in three store states"""
    return tier == "thorough"


def mutate(rng, l):
    t = l.split(" ")
    if t[6] == "-":
        return l
    v = bytearray(unhx(t[6]))
    k = rng.below(5)
    if k == 0 and len(v) > 7:                       # truncate
        v = v[:rng.range(6, len(v) - 1)]
    elif k == 1 and len(v) > 7:                     # drop one byte
        del v[rng.range(6, len(v) - 1)]
    elif k == 2:                                    # duplicate the tail
        v += b"," + v[6:]
    elif k == 3 and len(v) > 7:                     # replace a byte by a separator / junk that both parsers reject or split on
        v[rng.range(6, len(v) - 1)] = rng.choice(b",,-x")
    else:                                           # splice a second header's specs
        v += b"," + rng.choice([b"0-0", b"-1", b"5-", b"7-3", b"1-1"])
    v = bytes(v)
    if not clean_or_invalid(v):
        return l
    t[6] = hx(v)
    return " ".join(t)


def item_class(item):
    """clean: inside the model's grammar; invalid: rejected by HttpHdrRangeSpec::parseInit for sure; unknown: the lax strtoll region (C28)"""
    if re.fullmatch(rb"\d{1,18}-\d{0,18}|-\d{1,18}", item):
        return "clean"
    if re.search(rb"[\x00-\x20\x7f-\xff\"\\]", item):
        return "unknown"
    if len(item) < 2 or b"-" not in item:
        return "invalid"            # flen < 2, or no '-' inside this item
    if re.match(rb"[A-Za-z_.;=/*]", item):
        return "invalid"            # the first-byte-pos has no digits
    if re.fullmatch(rb"--\d*", item):
        return "invalid"            # suffix length negative or missing
    return "unknown"


def clean_or_invalid(v):
    """True when the Range value is inside the region where the model's parser and the real one agree"""
    if re.search(rb"[\r\n\x00]", v) or v != v.strip(b" \t"):
        return False            # (the header parser trims the value: what is forwarded would differ from what was sent)
    if v[:6].lower() != b"bytes=":
        return True
    return all(item_class(i.strip(b" \t")) != "unknown" for i in v[6:].split(b",") if i.strip(b" \t"))


def in_scope(l):
    t = l.split(" ")
    return len(t) == 10 and (t[6] == "-" or clean_or_invalid(unhx(t[6])))


def cases(rng, tier):
    for l in all_cases(rng, tier):
        if in_scope(l):
            yield l


def all_cases(rng, tier):
    yield from boundary_cases()
    yield from exhaustive_cases(tier)
    n = 4000 if tier == "thorough" else 420
    base = []
    for i in range(n):
        l = random_case(rng, tier)
        base.append(l)
        yield l
    for i in range(n // 6):
        yield mutate(rng, rng.choice(base))


# ------------------------------------------------------------------------------------------------ oracle

def fields(impl):
    t = impl.split(" ")
    d = {"status": t[0]}
    for x in t[1:]:
        if "=" in x:
            k, v = x.split("=", 1)
            d[k] = v
    return d


def requested(sc):
    return H.origin_specs(sc["range"]) if sc["range"] is not None else None


def covered(parts):
    s = set()
    for a, b in parts:
        s.update(range(a, b + 1)) if b - a < 200000 else None
    return s


def oracle(l, impl):
    sc = H.parse_line(l)
    if sc is None:
        return None if impl == "bad-op" else "harness accepted a malformed scenario"
    if impl.startswith(("abort", "no-response", "io-error", "warm-failed", "bad-op", "mode-not-reached")):
        return "no usable observation: " + impl
    f = fields(impl)
    n = sc["n"]
    B = H.body(n, sc["seed"])
    specs = requested(sc)
    head = sc["method"] == "HEAD"
    if f.get("frame", "").startswith("bad"):
        return "response framing: " + f["frame"]
    if f.get("trail", "-") not in ("-", "ok", "closed"):
        return "connection unusable after the response: " + f["trail"]
    blen, bfnv = f["body"].split(":")
    blen = int(blen)
    st = f["status"]
    if st == "206":
        if specs is None:
            return "206 for a request without a valid Range header"
        sat = [H.satisfiable(s, n) for s in specs]
        sat = [s for s in sat if s is not None]
        if f["ct"] == "multi":
            if head:
                parts = None
            else:
                if f["frame"] != "exact":
                    return "multipart body is not exactly parts + terminator: " + f["frame"]
                parts = []
                for p in f["parts"].split(";") if f["parts"] != "-" else []:
                    rng_, ct, eq = p.split(":")
                    m = re.fullmatch(r"(\d+)-(\d+)/(\d+)", rng_)
                    a, b, tot = (int(x) for x in m.groups())
                    if tot != n or not (a <= b < n):
                        return "part Content-Range %s does not fit the %d-byte object" % (rng_, n)
                    if eq != "eq":
                        return "part %s carries other bytes than that slice of the object" % rng_
                    want_ct = H.CTYPES[sc["ct"]]
                    if (unhx(ct).decode("latin-1") or None) != want_ct:
                        return "part Content-Type differs from the object's"
                    parts.append((a, b))
                if not parts:
                    return "multipart 206 without parts"
        else:
            m = re.fullmatch(r"(\d+)-(\d+)/(\d+)", f["cr"])
            if not m:
                return "206 without a usable Content-Range: " + f["cr"]
            a, b, tot = (int(x) for x in m.groups())
            if tot != n or not (a <= b < n):
                return "Content-Range %s does not fit the %d-byte object" % (f["cr"], n)
            if f["cl"] != str(b - a + 1):
                return "Content-Length %s for the range %s" % (f["cl"], f["cr"])
            parts = [(a, b)]
            if not head:
                if blen != b - a + 1 or bfnv != H.fnv(B[a:b + 1]):
                    return "206 body is not bytes %d-%d of the object" % (a, b)
        if not head and f["cl"] != str(blen):
            return "Content-Length %s but %d body bytes" % (f["cl"], blen)
        if parts is not None:
            have = covered(parts)
            for (a, b) in sat:
                if b - a < 200000 and not set(range(a, b + 1)) <= have:
                    return "requested satisfiable range %d-%d is not covered by the parts" % (a, b)
            if not sat:
                return "206 although no requested range is satisfiable"
        return None
    if st == "200":
        if f["cl"] != "-" and f["cl"] != str(n):
            return "200 with Content-Length %s for a %d-byte object" % (f["cl"], n)
        if f["cr"] != "-":
            return "200 with a Content-Range"
        if not head and (blen != n or bfnv != H.fnv(B)):
            return "200 body is not the complete object (%d of %d bytes, skew=%s)" % (blen, n, f.get("skew", "-"))
        return None
    if st == "416":
        if specs is None:
            return "416 for a request without a valid Range header"
        if any(H.satisfiable(s, n) is not None for s in specs):
            return "416 although a requested range is satisfiable"
        return None
    return "unexpected status " + st


def compare(l, impl, model):
    return impl == model


def lowest_offset(specs):
    if specs is None or any(a is None for a, b in specs):
        return 0
    return min(a for a, b in specs)


def classify(l, impl, why):
    return None     # no open finding (C15-disk-hit-ignored-range-skips-first-buffer is fixed: its witnesses are regression cases in corpus/C15)


def nontrivial(l, impl, model):
    sc = H.parse_line(l)
    return bool(sc and sc["range"] is not None)


def tag(l, impl, model):
    sc = H.parse_line(l)
    if sc is None:
        return "bad-op"
    f = fields(impl) if impl and impl[0].isdigit() else {"status": impl.split(":")[0] if impl else "?"}
    specs = requested(sc)
    req = "none" if sc["range"] is None else ("invalid" if specs is None else ("1" if len(specs) == 1 else "n"))
    shape = ""
    if f["status"] == "206":
        shape = "-multi" if f.get("ct") == "multi" else "-single"
    elif f["status"] == "200" and f.get("skew", "-") != "-":
        shape = "-skewed"
    return "%s %s range=%s -> %s%s" % (sc["mode"], sc["method"], req, f["status"], shape)


def shrink(l):
    """a few big steps: plainer scenario, half-size object, fewer specs"""
    t = l.split(" ")
    if len(t) != 10:
        return
    def mk(**kw):
        u = list(t)
        for k, v in kw.items():
            u[{"method": 1, "n": 2, "seed": 3, "ct": 4, "olen": 5, "range": 6, "ifr": 7, "ka": 8, "seg": 9}[k]] = str(v)
        return " ".join(u)
    if (t[3], t[4], t[8], t[9]) != ("0", "0", "0", "1"):
        yield mk(seed=0, ct=0, ka=0, seg=1)
    if t[7] != "-":
        yield mk(ifr="-")
    n = int(t[2])
    for k in (50, n // 4, n // 2):
        if 0 < k < n:
            yield mk(n=k)
    if t[6] != "-":
        v = unhx(t[6])
        if v[:6].lower() == b"bytes=":
            items = [i.strip(b" \t") for i in v[6:].split(b",") if i.strip(b" \t")]
            if len(items) > 1:
                yield mk(range=hx(b"bytes=" + b",".join(items[:len(items) // 2])))
                yield mk(range=hx(b"bytes=" + b",".join(items[len(items) // 2:])))
                for i in range(min(len(items), 4)):
                    yield mk(range=hx(b"bytes=" + b",".join(items[:i] + items[i + 1:])))
            shr = []
            for it in items:
                m = re.fullmatch(rb"(\d+)-(\d*)", it)
                if m and int(m.group(1)) > 9:
                    a = int(m.group(1))
                    a2 = a // 8
                    b2 = b"" if not m.group(2) else b"%d" % max(a2, int(m.group(2)) - (a - a2))
                    shr.append(b"%d-%s" % (a2, b2))
                else:
                    shr.append(it)
            if shr != items:
                yield mk(range=hx(b"bytes=" + b",".join(shr)))
