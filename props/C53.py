"""C53 Shared page allocator never double-allocates or loses pages (lock-free protocol, scheduler-controlled atomics)."""
import os, re, itertools, sys
from vf.util import VERIF
from vf.harness import ProcHarness
from vf import ipccopy

ID = "C53"
PROP_MODULE = "SquidModel.Properties.C53"
MODEL = "c53"
GEN = ["pagestack"]
RULE = ("scenario = capacity (0..300, mostly 1..5 and around the 64-bit leaf and tree-height boundaries) x created full / created empty with all "
        "pages in the hands of the threads x 1..4 virtual threads x per-thread pop/push sequences x a schedule that picks which thread performs "
        "its next single atomic operation (random, bursts, perturbed round-robin, run-ahead; mutations of earlier cases); plus every schedule of "
        "length 10 over 2 threads for 4 call tuples on 1-2 page stacks (complete for the single-call tuples) and a capacity sweep without "
        "concurrency; thorough: every schedule of length 13 over 2 threads for 10 tuples, 3^9 over 3 threads for 2 tuples, capacities 0..520; "
        "the full atomic-operation trace (thread, object, kind, old, new), call/return history, results, final tree and holdings are compared "
        "with the model (trace validation); non-trivial = at least two threads performed atomic operations; distinct = distinct scenario lines")
TRUSTED = ["sequentially consistent atomics (all atomic operations of PageStack.cc use the default memory_order_seq_cst)",
           "textual instrumentation std::atomic -> verif::atomic of a copy of src/ipc/mem/PageStack.{h,cc}; ucontext coroutine scheduler",
           "no atomic load happens inside an assert() of PageStack.cc; the asserted conditions are theorems (asserts_hold, no_bad)",
           "the linearizability search and ownership re-check in props/C53.py (the direct oracle), the ownership table in harness/c53.cc"]
ASSUMPTIONS = ["callers respect the method contract: push() only a page the caller holds (obtained from pop() or, for a stack created empty, "
               "its initial share of the pages), each page number pushed into an empty-created stack at most once"]
MANIFEST = {
    "text": "full: for every reachable configuration of any number of threads, any capacity and tree height (cap <= 64*2^H, which the constructor's "
            "tree satisfies: measured_tree_fits), under any interleaving of single atomic operations: no_double_alloc / no_double_hold / "
            "no_duplicate_in_thread, allocated_pages_valid, no_page_lost (every page is in exactly one place: free bit, held, or in flight), "
            "root_counts_free + pop_fails_only_if_no_free (a failing pop read root counters (0,0) at an instant when every page of the pool was held, "
            "being released or already promised to an in-flight pop), quiescent_exact + released_pages_allocatable (no thread in flight: counters = "
            "exact subtree totals, free bits = exactly the pages nobody holds, size_ exact, and a pop run alone succeeds within 2H+3 operations with a "
            "free page), no_bad / asserts_hold / counters_never_overflow (no assert of PageStack.cc can fire, size_ never underflows, packed counters "
            "never carry), via an inductive counting invariant (inv_step, one lemma per atomic action). constructor_agrees_small + gen_constants_match tie "
            "the initial tree and the constants to the source; createFull_shift64_counterexample records the pre-fix variant of the repaired defect (fix 1ff5fc0). The model's atomic actions are "
            "validated against the real code by replaying scheduler-controlled executions of an instrumented copy of PageStack.cc and comparing the "
            "complete operation trace, history, results and final node array.",
    "note": "trusted: Lean kernel; SC memory model; the sed-instrumentation and coroutine scheduler; ownership/linearizability oracle. Not modelled: "
            "weak-memory effects, process death in the middle of pop/push (pages in flight are then lost), PagePool's per-purpose level counters",
    "technique": "Lean 4 inductive counting invariant over interleavings (any number of threads, any tree height) + trace validation against "
                 "scheduler-controlled real code + linearizability check of the observed histories",
}


def build_exe(stage):
    root = ipccopy.make_copies(stage, ["ipc/mem/PageStack.h", "ipc/mem/PageStack.cc"])
    p = os.path.join(root, "ipc/mem/PageStack.cc")
    fl = ipccopy.flags(root)
    ub = ["-fsanitize=undefined", "-fno-sanitize-recover=all"]
    objs = [stage.compile(p, sanitize=False, pre=fl, extra=ub),
            stage.compile(stage.path("src/ipc/mem/Page.cc"), sanitize=False, pre=fl, extra=ub),
            stage.compile(os.path.join(VERIF, "harness/c53.cc"), sanitize=False, pre=fl, extra=ub),
            stage.compile(os.path.join(VERIF, "harness/verif_sched.cc"), sanitize=False, pre=fl),
            stage.path("src/tests/stub_debug.o")]
    return stage.link_plain(objs, os.path.join(stage.work, "c53"), sanitize=False, libs=["-fsanitize=undefined"])


def build(stage):
    return ProcHarness([build_exe(stage)])


# ---------------------------------------------------------------- generators
CAPS_SMALL = [1, 1, 2, 2, 3, 3, 4, 5]
CAPS_EDGE = [63, 64, 65, 66, 100, 127, 128, 129, 130, 191, 192, 193, 200]


def fmt(cap, mode, per, sched):
    return "%d %s %d %s %s" % (cap, mode, len(per), ";".join(",".join(o) if o else "-" for o in per), ",".join(map(str, sched)) if sched else "-")


def gen_ops(rng, mode, heavy):
    """a call sequence: sessions of pops followed by pushes (F) or pushes followed by pops (E), plus a little noise"""
    ops = []
    for _ in range(rng.range(1, 3 if heavy else 2)):
        k = rng.range(1, 3)
        pops = ["P"] * k
        pushes = ["U%d" % rng.below(4) for _ in range(rng.range(max(0, k - 1), k))]
        r = rng.below(10)
        if r < 6:
            ops += (pops + pushes) if mode == "F" else (pushes + pops)
        elif r < 8:
            seq = pops + pushes
            rng.shuffle(seq)
            ops += seq
        else:
            ops += [rng.choice(["P", "U0", "U1", "U7"]) for _ in range(rng.range(1, 4))]
    return ops[:7]


def gen_schedule(rng, n, steps):
    k = rng.below(4)
    if k == 0:
        return [rng.below(n) for _ in range(steps)]
    if k == 1:      # bursts
        out = []
        while len(out) < steps:
            out += [rng.below(n)] * rng.range(1, 5)
        return out[:steps]
    if k == 2:      # round robin with perturbation
        return [(i + (1 if rng.chance(1, 5) else 0)) % n for i in range(steps)]
    t = rng.below(n)   # one thread runs ahead, then the others
    return [t] * rng.range(1, steps // 2 + 1) + [rng.below(n) for _ in range(steps // 2)]


def height(cap):
    req, n, h = (cap + 63) // 64, 2, 1
    while n < req:
        n, h = n * 2, h + 1
    return h


def mult64_cap(cap):
    """capacities whose first unused leaf is emptied by leafTruncate(pos, 0): before fix 1ff5fc0 that was `node >>= 64` (UB)"""
    return cap % 64 == 0 and cap != 64 * 2 ** height(cap)


def gen_case(rng):
    r = rng.below(10)
    if r < 5:
        cap = rng.choice(CAPS_SMALL)       # contention: pops fail, the same leaf word is fought over
    elif r < 9:
        cap = rng.choice(CAPS_EDGE)
    else:
        cap = rng.range(0, 300)
    mode = "F" if rng.chance(3, 5) else "E"
    n = rng.choice([2, 2, 2, 3, 3, 4, 1])
    per = [gen_ops(rng, mode, cap > 8) for _ in range(n)]
    steps = sum(len(o) for o in per) * (2 * height(cap) + 3)
    return fmt(cap, mode, per, gen_schedule(rng, n, rng.range(0, steps)))


def mutate(rng, line):
    cap, mode, n, ops, sched = line.split(" ")
    per = [o.split(",") if o != "-" else [] for o in ops.split(";")]
    sc = [int(x) for x in sched.split(",")] if sched != "-" else []
    k = rng.below(6)
    if k == 0 and sc:
        i = rng.below(len(sc)); sc[i] = rng.below(len(per))
    elif k == 1 and sc:
        i = rng.below(len(sc)); sc = sc[:i] + [sc[i]] * rng.range(1, 4) + sc[i:]
    elif k == 2 and sc:
        sc = sc[:rng.below(len(sc))]
    elif k == 3:
        t = rng.below(len(per)); per[t] = per[t] + [rng.choice(["P", "U0", "U2"])]
    elif k == 4:
        cap = str(max(0, int(cap) + rng.choice([-1, 1, 64, -64])))
    else:
        mode = "E" if mode == "F" else "F"
    return fmt(int(cap), mode, per, sc)


EXH_PAIRS = [  # (cap, mode, per-thread calls); the first two finish within 10 steps: every interleaving is covered
    (1, "F", (["P"], ["P"])),
    (1, "E", (["U0"], ["P"])),
    (1, "F", (["P", "U0"], ["P", "U0"])),
    (1, "E", (["U0", "P"], ["P", "P"])),
    (2, "F", (["P", "P", "U0"], ["P", "U0"])),
    (2, "E", (["U0", "P"], ["U0", "P"])),
    (65, "F", (["P", "U0"], ["P", "U0"])),
    (65, "E", (["U0", "P"], ["U0", "P"])),
    (130, "E", (["U0", "P"], ["U1", "P"])),
    (3, "F", (["P", "P"], ["P", "P"])),
]
EXH_TRIPLES = [
    (1, "F", (["P", "U0"], ["P"], ["P"])),
    (2, "E", (["U0"], ["U0"], ["P", "P"])),
]


def cases(rng, tier):
    n_rand = 24000 if tier == "thorough" else 3500
    pool = []
    for i in range(n_rand):
        if pool and rng.chance(1, 5):
            l = mutate(rng, rng.choice(pool))
        else:
            l = gen_case(rng)
        if len(pool) < 200:
            pool.append(l)
        else:
            pool[rng.below(200)] = l
        yield l
    # capacities 0..260 with no concurrency at all: the constructor's fill/truncate against the model's closed form
    for cap in (range(0, 521) if tier == "thorough" else list(range(0, 70)) + [126, 127, 128, 129, 130, 191, 192, 193, 255, 256, 257, 300, 384, 385, 500]):
        yield fmt(cap, "F", [["P", "P", "U1", "P"]], [])
        yield fmt(cap, "E", [["U0", "U5", "P", "P"], ["U3"]], [])
    # regression for fix 1ff5fc0: full stacks whose capacity is a multiple of 64 but not 64*2^k, with concurrency
    for cap in [64, 192, 320, 384] + ([448, 576, 4032] if tier == "thorough" else []):
        assert mult64_cap(cap)
        yield fmt(cap, "F", [["P", "P", "U1", "P"], ["P", "U0", "P"]], gen_schedule(rng, 2, 20))
    # bounded-exhaustive schedules
    L = 13 if tier == "thorough" else 10
    for cap, mode, per in (EXH_PAIRS if tier == "thorough" else EXH_PAIRS[:4]):
        for sched in itertools.product((0, 1), repeat=L):
            yield fmt(cap, mode, [list(p) for p in per], list(sched))
    if tier == "thorough":
        for cap, mode, per in EXH_TRIPLES:
            for sched in itertools.product((0, 1, 2), repeat=9):
                yield fmt(cap, mode, [list(p) for p in per], list(sched))


# ---------------------------------------------------------------- the direct oracle
def parse_hist(h):
    ev = []
    if h == "-":
        return ev
    for e in h.split(","):
        t, rest = e.split(":")
        ev.append((int(t), rest[0], rest[1], int(rest[2:]) if len(rest) > 2 else None))
    return ev


def linearizable(init_free, ops, by_identity=False):
    """ops: list of (call_index, return_index, kind, value). Wing&Gong search for a linearization against the sequential page
    pool. Pages are fungible: the pool is its number of free pages; pop succeeds iff that number is positive and fails iff it
    is zero, push adds one. (Which page a successful pop returns is judged separately: it must not be held by anybody.)
    by_identity=True checks the stronger spec "pop returns a page that is free at its linearization point" - that one does NOT
    hold for PageStack (a pop that has reserved a unit at the root may end up with a page whose push started later) and is
    only used to tag cases."""
    n = len(ops)
    full = (1 << n) - 1
    seen = set()
    sys.setrecursionlimit(10000)

    def rec(done, free):
        if done == full:
            return True
        if done in seen:
            return False
        seen.add(done)
        # an op may be linearized next iff no other pending op returned before it was called
        min_ret = min(ops[i][1] for i in range(n) if not done >> i & 1)
        for i in range(n):
            if done >> i & 1 or ops[i][0] > min_ret:
                continue
            _, _, kind, val = ops[i]
            if by_identity:
                if kind == "P":
                    if val == 0:
                        if free:
                            continue
                        nf = free
                    else:
                        if val not in free:
                            continue
                        nf = free - {val}
                else:
                    if val in free:
                        continue
                    nf = free | {val}
            else:
                if kind == "P":
                    if val == 0:
                        if free:
                            continue
                        nf = free
                    else:
                        if not free:
                            continue
                        nf = free - 1
                else:
                    nf = free + 1
            if rec(done | 1 << i, nf):
                return True
        return False

    return rec(0, frozenset(init_free) if by_identity else len(init_free))


def history_ops(line, hist):
    """-> (error | None, ops, holder table at the end)"""
    cap, mode, n = line.split(" ")[:3]
    cap, n = int(cap), int(n)
    holder = {}
    if mode == "E":
        for p in range(1, cap + 1):
            holder[p] = (p - 1) % n
    pending = {}
    ops = []
    for idx, (t, cr, kind, val) in enumerate(parse_hist(hist)):
        if cr == "c":
            if t in pending:
                return "history: thread %d calls while a call is pending" % t, ops, holder
            pending[t] = (idx, kind, val)
            if kind == "U":
                if holder.get(val) != t:
                    return "harness contract: thread %d pushes page %d it does not hold" % (t, val), ops, holder
                del holder[val]
        else:
            if t not in pending:
                return "history: return without call", ops, holder
            cidx, ckind, cval = pending.pop(t)
            if kind == "P":
                if val:
                    if not (1 <= val <= cap):
                        return "pop returned invalid page %d (capacity %d)" % (val, cap), ops, holder
                    if val in holder:
                        return "page %d handed to thread %d while thread %d holds it" % (val, t, holder[val]), ops, holder
                    holder[val] = t
                ops.append((cidx, idx, "P", val))
            else:
                ops.append((cidx, idx, "U", val))
    if pending:
        return "history: call never returned", ops, holder
    return None, ops, holder


def oracle(line, impl):
    if impl.startswith("abort") or impl == "bad-op" and not bad_line(line):
        return "no usable observation: " + impl
    if impl == "bad-op":
        return None
    f = dict(p.split("=", 1) for p in impl.split(" ") if "=" in p)
    if not all(k in f for k in ("log", "hist", "res", "final", "held", "q", "viol")):
        return "no usable observation: " + impl[:200]
    if f["viol"] != "-":
        return "ownership oracle on the real code: " + f["viol"]
    cap, mode, n = line.split(" ")[:3]
    cap, n = int(cap), int(n)
    # re-derive ownership from the call/return history alone
    err, ops, holder = history_ops(line, f["hist"])
    if err:
        return err
    init_free = set(range(1, cap + 1)) if mode == "F" else set()
    if len(ops) <= 40 and not linearizable(init_free, ops):
        return "history is not linearizable w.r.t. a page pool: a pop failed although at every instant of the call a page was free and unclaimed"
    # once activity stops every page nobody holds can be allocated again
    got, free = f["q"].split("/")
    if int(free) != cap - len(holder):
        return "harness free count %s differs from the history's %d" % (free, cap - len(holder))
    if got != free:
        return "after quiescence %s of %s released pages could be allocated" % (got, free)
    size = int(f["final"].split("/")[0])
    if size != cap - len(holder):
        return "size_ = %d at quiescence but %d pages are free" % (size, cap - len(holder))
    return None


def bad_line(line):
    return not re.fullmatch(r"\d{1,4} [FE] [1-8] \S+ \S+", line)


def nontrivial(line, impl, model):
    log = impl.split(" ")[0][4:]
    tids = {e.split(":")[0] for e in log.split(",") if ":" in e}
    return len(tids) >= 2


def tag(line, impl, model):
    cap, mode, n = line.split(" ")[:3]
    res = impl.split(" res=")[-1].split(" ")[0] if " res=" in impl else ""
    fails = res.count("P=0")
    retries = impl.split(" ")[0].count(".casf.")
    c = int(cap)
    capc = "0" if c == 0 else "1-8" if c <= 8 else "9-64" if c <= 64 else "65-128" if c <= 128 else ">128"
    idlin = "-"
    if fails and " hist=" in impl:
        err, ops, _ = history_ops(line, impl.split(" hist=")[1].split(" ")[0])
        if not err and len(ops) <= 40:
            idlin = "yes" if linearizable(set(range(1, c + 1)) if mode == "F" else set(), ops, by_identity=True) else "no"
    return "cap=%s mode=%s threads=%s popfail=%s casretry=%s idlin=%s" % (capc, mode, n, "yes" if fails else "no", "yes" if retries else "no", idlin)


def shrink(line):
    cap, mode, n, ops, sched = line.split(" ")
    per = [o.split(",") if o != "-" else [] for o in ops.split(";")]
    sc = [int(x) for x in sched.split(",")] if sched != "-" else []
    c = int(cap)
    for k in (len(sc) // 2, 1):
        if k and len(sc) >= k:
            yield fmt(c, mode, per, sc[:-k])
    for i in range(len(sc)):
        yield fmt(c, mode, per, sc[:i] + sc[i + 1:])
    for t in range(len(per)):
        for j in range(len(per[t])):
            p2 = [list(x) for x in per]
            del p2[t][j]
            yield fmt(c, mode, p2, sc)
    if len(per) > 1 and not per[-1]:
        yield fmt(c, mode, per[:-1], [x for x in sc if x < len(per) - 1])
    for c2 in (c // 2, c - 64, c - 1):
        if 0 < c2 < c:
            yield fmt(c2, mode, per, sc)


def exhaustive(tier):
    return False
