"""C25 Header blocks are parsed into exactly their fields."""
import os, re, itertools
from vf.util import VERIF, hx, unhx
from vf.harness import ProcHarness
from props import C26

ID = "C25"
PROP_MODULE = "SquidModel.Properties.C25"
MODEL = "c26"          # one driver serves C25 and C26 (Driver/C26.lean: ops p k m l)
GEN = ["charsets", "header_registry"]
RULE = ("p/k/m <flags> <hex block>: HttpHeader::parse directly (p), parse+packInto+parse (k), and through the HTTP/1 parser's "
        "grabMimeBlock (headersEnd, cleanMimePrefix, unfoldMime) (m); l <hex>: HeaderLookupTable.lookup. Blocks are generated from a "
        "field grammar (registered names in random case, random tokens, values of VCHAR/obs-text/inner whitespace, OWS variants, "
        "CRLF/LF, obs-folds, duplicates, framing fields, 65534-byte limits +-1), mutated (NUL, bare CR, whitespace before colon, "
        "missing colon, CR-only lines, truncation at every offset, byte flips) and enumerated exhaustively (all blocks up to length "
        "4 (quick) / 6 (thorough) over {A : SP HT CR LF b}); strict and relaxed, request/reply/other owner. non-trivial = the block is "
        "accepted with at least one stored field, or is in one of the must-reject classes; distinct = distinct lines")
TRUSTED = C26.TRUSTED + ["headersEnd / cleanMimePrefix / unfoldMime are transcribed by hand (SquidModel/Header/Mime.lean); size limits of grabMimeBlock are not modelled"]
ASSUMPTIONS = C26.ASSUMPTIONS
MANIFEST = {
    "text": "partial: for the model of HttpHeader::parse / HttpHeaderEntry::parse / packInto it is proved, for all inputs, that (1) every block "
            "made of well-formed field lines (any token name, registered names in any case, any tolerated whitespace, CRLF or LF, with or "
            "without the final empty line) is stored as exactly the name/value pairs of its lines in order (accepted_fields_exact, "
            "accepted_block_stored_exactly); (2) after a successful parse whose stored values do not span lines, parsing the packInto output "
            "stores the same entries again (pack_parse_roundtrip_partial; hypothesis = no CR/LF in stored values); (3) NUL, whitespace before "
            "the colon in requests, obs-fold and bare CR in Content-Length/Transfer-Encoding, bare CR with the strict parser and CR-only "
            "request lines are rejected by HttpHeader::parse after any well-formed prefix and before anything; (4) unfoldMime joins an "
            "obs-fold into one SP. Two clauses are false on the HTTP/1 parser path and are proved as counterexamples (known findings "
            "C25-fold-framing-unfolded, C25-cr-line-unfolded). The real code runs under ASan/UBSan against the model and an independent "
            "reference header parser, through HttpHeader::parse, parse+packInto+parse and grabMimeBlock",
    "note": "trusted: Lean kernel, hand transcription of the C++ into the model (incl. headersEnd/cleanMimePrefix/unfoldMime), registry/charset dump "
            "programs, harness and python reference parser; not proved: the converse of (1) for arbitrary accepted blocks and the round trip "
            "for stored values that contain an obs-fold (both covered by the differential run only)",
    "technique": "Lean 4 proof (induction over lines and fields; registry and octet-class facts by kernel decide over the regenerated tables) + "
                 "translators + ASan differential run + reference parser oracle",
}

build_exe = C26.build_exe
build = C26.build
ISSPACE = C26.ISSPACE
TCHAR = C26.TCHAR
parse_out = C26.parse_out

# ---------------------------------------------------------------------------------------------- registry (names only, from the source text)
_REG = None


def registry():
    global _REG
    if _REG is None:
        text = open("/repo/src/http/RegisteredHeadersHash.gperf", errors="replace").read().split("%%")[1]
        names = []
        for line in text.splitlines():
            m = re.match(r"\s*([^,\s]+)\s*,\s*Http::HdrType::(\w+)", line)
            if m and ":" not in m.group(1):
                names.append(m.group(1).encode())
        _REG = names
    return _REG


# ---------------------------------------------------------------------------------------------- reference parser (RFC 9112 section 5)
def split_terminated(block):
    """-> (lines as (content, had_cr)), unterminated tail"""
    parts = block.split(b"\n")
    tail = parts.pop()
    lines = []
    for ln in parts:
        if ln.endswith(b"\r"):
            lines.append((ln[:-1], True))
        else:
            lines.append((ln, False))
    return lines, tail


FOLD = re.compile(rb"\r*\n[ \t]+")


def reference(block, flags, unfolded_path=False):
    """-> ('reject', why) when the property demands rejection, else ('fields', [(name, value-with-folds-joined, nlines, bare)], notes)
    Only the *text* of the block is used. Lines are LF-terminated; a line starting with SP/HT continues the previous field;
    name = text before the first colon; value = the rest, surrounding whitespace removed, each obs-fold read as one SP."""
    relaxed, owner = flags[0] == "r", flags[1]
    if b"\0" in block:
        return ("reject", "NUL byte")
    lines, tail = split_terminated(block)
    if tail != b"":
        return ("reject", "last line is not terminated")
    # group into fields
    groups = []
    for idx, (content, cr) in enumerate(lines):
        if groups and content[:1] in (b" ", b"\t"):
            groups[-1].append((content, cr))
        else:
            groups.append([(content, cr)])
    fields = []
    for gi, g in enumerate(groups):
        first = g[0][0]
        if len(g) == 1 and first == b"":
            if gi != len(groups) - 1:
                return ("reject", "empty line inside the block")
            continue   # terminating blank line
        if owner == "q":
            for content, cr in g:
                if cr and content != b"" and content.strip(b"\r") == b"":
                    return ("reject", "CR-only line in a request")
        bare = any(b"\r" in content for content, cr in g)
        if bare and not relaxed:
            return ("reject", "bare CR with the strict parser")
        for content, cr in g[1:]:
            c2 = content.replace(b"\r", b" ")
            if len(c2) == 1:
                return ("reject", "blank continuation line")
        # the text of the field with the line terminators inside
        text = b""
        for k, (content, cr) in enumerate(g):
            c2 = content.replace(b"\r", b" ") if relaxed else content
            text += c2
            if k != len(g) - 1:
                text += b"\r\n" if cr else b"\n"
        if b":" not in text:
            return ("reject", "no colon")
        name, _, value = text.partition(b":")
        if name == b"":
            return ("reject", "empty name")
        core = name.rstrip(ISSPACE)
        if core != name:
            if owner == "q":
                return ("reject", "whitespace before the colon in a request")
            if owner != "p" and not relaxed:
                return ("reject", "whitespace before the colon")
        if core == b"" or not all(c in TCHAR for c in core):
            return ("reject", "field name is not a token")
        if len(name) > 65534:
            return ("reject", "name too long")
        value = value.strip(ISSPACE)
        if len(value) > 65534:
            return ("reject", "value too long")
        fields.append((core, value, len(g), bare))
    for name, value, nl, bare in fields:
        if name.lower() in (b"content-length", b"transfer-encoding") and (nl > 1 or bare):
            return ("reject", "obs-fold or bare CR in " + name.decode())
    return ("fields", fields)


def mime_reference(buf):
    """what the HTTP/1 parser hands over: the bytes up to the first empty line, without leading whitespace-started lines,
    with obs-folds replaced by one SP; None = incomplete. Also returns whether a framing field was folded."""
    m = re.search(rb"(?:\A|\n)\r?\n", buf)
    if not m:
        return None, False, b""
    block = buf[:m.end()]
    # RFC 9112 2.2: lines that start with whitespace before the first field are dropped
    while block and block[:1] in (b" ", b"\t", b"\v", b"\f", b"\r"):
        i = block.find(b"\n")
        block = block[i + 1:] if i >= 0 else b""
    if block == b"":
        block = b"\r\n"
    folded_framing = False
    for mm in re.finditer(rb"(?im)^(content-length|transfer-encoding)[ \t]*:[^\n]*\n[ \t]", block):
        folded_framing = True
    return FOLD.sub(b" ", block), folded_framing, block


CR_LINE = re.compile(rb"(?:\A|\n)\r\r+\n")


def hdr_end(buf):
    m = re.search(rb"(?:\A|\n)\r?\n", buf)
    return m.end() if m else 0


def norm_folds(v):
    return FOLD.sub(b" ", v)


def compare_entries(out, fields, flags, exact_folds):
    """stored entries vs reference fields; Content-Length (and Transfer-Encoding when prohibited) are C26's business"""
    prohibited = flags[2] != "-"
    skip = {b"content-length"} | ({b"transfer-encoding"} if prohibited else set())
    ref = [(n, v) for n, v, nl, bare in fields if n.lower() not in skip]
    got = [(n, v) for i, n, v in out["entries"] if n.lower() not in skip]
    if len(ref) != len(got):
        return "stored %d fields, the block has %d" % (len(got), len(ref))
    reg = {x.lower(): x for x in registry()}
    for k, ((rn, rv), (gn, gv)) in enumerate(zip(ref, got)):
        want = reg.get(rn.lower(), rn)
        if gn != want:
            return "field %d: stored name %r, expected %r" % (k, gn, want)
        rv2 = norm_folds(rv)
        gv2 = gv if exact_folds else norm_folds(gv)
        if gv2 != rv2:
            return "field %d (%s): stored value %r, expected %r" % (k, rn.decode("latin-1"), gv[:60], rv2[:60])
    return None


def oracle(line, impl):
    toks = line.split(" ")
    op = toks[0]
    if impl.startswith("abort:"):
        return "sanitizer/abort: " + impl
    if op == "l":
        name = unhx(toks[1])
        reg = registry()
        want = next((i for i, x in enumerate(reg) if x.lower() == name.lower()), None)
        # ids are positions in the enum; the gperf file lists them in enum order except for the tail, so only classes are compared
        known = want is not None
        got_known = impl not in ("85", "84")
        return None if known == got_known else "lookup(%r) -> %s" % (name, impl)
    fl, arg = toks[1], toks[2]
    block = unhx(arg)
    if op == "p":
        ref = reference(block, fl)
        out = parse_out(impl)
        if impl == "throw":
            return "exception"
        if ref[0] == "reject":
            return None if impl == "reject" else "accepted although: " + ref[1]
        if out is None:
            # acceptance is demanded for blocks without Content-Length trouble (C26) only
            v = C26.cl_reference(block, fl[0] == "r")[0]
            if v == "bad" and fl[0] == "s":
                return None
            return "rejected a well-formed block"
        return compare_entries(out, ref[1], fl, exact_folds=False)
    if op == "k":
        if impl in ("reject", "throw"):
            return None if impl == "reject" else "exception"
        a, pk, b = impl.split(" || ")
        o1, o2 = parse_out(a), parse_out(b)
        if o1 is None:
            return "unparsable output"
        packed = unhx(pk[len("pack="):])
        want = b"".join(n + b": " + v + b"\r\n" for i, n, v in o1["entries"])
        if packed != want:
            return "packInto output is not name ': ' value CRLF of the stored fields"
        if o2 is None:
            return "packed fields are rejected when parsed again"
        if o1["entries"] != o2["entries"]:
            return "re-parsing the packed fields gives different fields"
        return None
    if op == "m":
        mime, folded_framing, cleaned = mime_reference(block)
        if mime is None:
            return None if impl == "incomplete" else "terminator not found by the reference, but: " + impl[:40]
        if impl == "incomplete":
            return "complete header block reported incomplete"
        head, _, rest = impl.partition(" ")
        got_mime = unhx(head[len("mime="):])
        if got_mime != mime:
            return "mime block %r differs from the reference %r" % (got_mime[:80], mime[:80])
        if folded_framing and rest != "reject":
            return "accepted although: obs-fold in a framing field (HTTP/1 parser path)"
        if fl[1] == "q" and CR_LINE.search(cleaned) and rest != "reject":   # (leading whitespace-started lines are dropped by RFC 9112 2.2)
            return "accepted although: CR-only line in a request (HTTP/1 parser path)"
        ref = reference(mime, fl)
        out = parse_out(rest)
        if ref[0] == "reject":
            return None if rest == "reject" else "accepted although: " + ref[1]
        if out is None:
            v = C26.cl_reference(mime, fl[0] == "r")[0]
            if v == "bad" and fl[0] == "s":
                return None
            return "rejected a well-formed block"
        return compare_entries(out, ref[1], fl, exact_folds=True)
    return None


def classify(line, impl, why):
    toks = line.split(" ")
    if toks[0] != "m" or len(toks) != 3 or not why:
        return None
    block = unhx(toks[2])
    block = block[:hdr_end(block)]
    if "obs-fold in a framing field (HTTP/1 parser path)" in why:
        return "C25-fold-framing-unfolded"
    # a line made of CRs only, followed by a line that starts with SP/HT: unfoldMime swallows both
    if re.search(rb"\n\r\r+\n[ \t]", block) and ("CR-only line" in why or "stored value" in why or "stored " in why):
        return "C25-cr-line-unfolded"
    return None


# ---------------------------------------------------------------------------------------------- generators
VCH = bytes(range(33, 127)) + bytes([128, 160, 200, 255])
FLAGS_MAIN = ["sq-", "rq-", "sp-", "rp-"]
FLAGS_ALL = C26.FLAGS_ALL


def rand_case(rng, name):
    return bytes((c ^ 0x20) if (65 <= c <= 90 or 97 <= c <= 122) and rng.chance(1, 3) else c for c in name)


def gen_name(rng):
    k = rng.below(10)
    if k < 5:
        return rand_case(rng, rng.choice(registry()))
    if k < 8:
        return rng.bytes(rng.range(1, 12), b"abcdefghijklmnopqrstuvwxyzABCXYZ0123456789-_.!#$%&'*+^`|~")
    if k < 9:   # near a registered name
        n = rng.choice(registry())
        return rng.choice([n[:-1], n + b"x", n.replace(b"-", b"_"), b"X-" + n, n[1:]]) or b"x"
    return rng.choice([b"Host", b"Via", b"TE", b"Age", b"Key"])


def gen_value(rng):
    k = rng.below(12)
    if k == 0:
        return b""
    n = rng.choice([1, 2, 3, 5, 8, 13, 30, 80]) if k < 11 else rng.choice([200, 1000])
    v = bytearray(rng.bytes(n, VCH))
    for _ in range(rng.below(3)):   # inner whitespace
        if len(v) > 2:
            v[rng.range(1, len(v) - 2)] = rng.choice(b" \t")
    return bytes(v)


def gen_field(rng, folds=True, mess=True):
    name, value = gen_name(rng), gen_value(rng)
    if name.lower() == b"content-length" and rng.chance(3, 4):
        value = rng.choice([b"0", b"5", b"42", b"18446744073709551616", b"5, 5", b"x"])
    if name.lower() == b"transfer-encoding" and rng.chance(3, 4):
        value = rng.choice([b"chunked", b"gzip", b"Chunked"])
    bws = rng.choice([b" ", b"\t", b"  "]) if mess and rng.chance(1, 15) else b""
    lead = rng.choice([b" ", b" ", b" ", b"", b"\t", b"  ", b" \t "]) if mess else b" "
    trail = rng.choice([b"", b"", b"", b" ", b"\t", b" \t"]) if mess else b""
    eol = lambda: b"\r\n" if (not mess or rng.chance(7, 8)) else b"\n"
    if folds and rng.chance(1, 8) and len(value) >= 2:
        cut = rng.range(1, len(value) - 1)
        value = value[:cut] + eol() + rng.choice([b" ", b"\t", b"  ", b" \t"]) + value[cut:]
    return name + bws + b":" + lead + value + trail + eol()


def gen_block(rng, folds=True):
    n = rng.choice([0, 1, 1, 2, 2, 3, 4, 6, 10])
    block = b"".join(gen_field(rng, folds) for _ in range(n))
    if rng.chance(2, 3):
        block += rng.choice([b"\r\n", b"\r\n", b"\n"])
    return block


def mutate(rng, block):
    if not block:
        return rng.choice([b"\r", b"\n", b" ", b":", b"\0"])
    k = rng.below(12)
    pos = rng.below(len(block))
    if k == 0:
        return block[:pos] + b"\0" + block[pos:]
    if k == 1:
        return block[:pos] + b"\r" + block[pos:]
    if k == 2:   # whitespace before a colon
        i = block.find(b":")
        return block[:i] + rng.choice([b" ", b"\t"]) + block[i:] if i >= 0 else block
    if k == 3:   # drop a colon
        i = block.find(b":", pos)
        return block[:i] + block[i + 1:] if i >= 0 else block
    if k == 4:   # CR-only line
        i = block.find(b"\n", pos)
        return block[:i + 1] + rng.choice([b"\r\r\n", b"\r\r\r\n", b"\r\n"]) + block[i + 1:] if i >= 0 else block
    if k == 5:
        return block[:pos]
    if k == 6:
        return block[:pos] + bytes([block[pos] ^ (1 << rng.below(8))]) + block[pos + 1:]
    if k == 7:   # fold a framing field
        return block + rng.choice([b"Content-Length:\r\n 5\r\n", b"Transfer-Encoding: chunked\r\n\t\r\n", b"Content-Length: 5\r\n 6\r\n", b"content-length: 1\r5\r\n"])
    if k == 8:   # blank continuation
        i = block.find(b"\n", pos)
        return block[:i + 1] + rng.choice([b" \r\n", b"\t\n", b"  \r\n"]) + block[i + 1:] if i >= 0 else block
    if k == 9:
        j = rng.range(pos, min(len(block), pos + 20))
        return block[:j] + block[pos:j] + block[j:]
    if k == 10:
        i = block.find(b"\n", pos)
        if i >= 0 and rng.chance(1, 2):
            return block[:i + 1] + rng.choice([b"\r\r\n ", b"\r\r\r\n\t", b"\r\r\n \r\n"]) + block[i + 1:]
        return rng.choice([b" ", b"\t", b"\r\n", b"\v"]) + block
    return block[:pos] + block[pos + 1:]


SMALL = b"A: \t\r\nb"


def cases(rng, tier):
    thorough = tier == "thorough"
    reg = registry()
    # every registered name, three spellings, through the lookup and through the parser
    for n in reg:
        for v in (n, n.lower(), n.upper()):
            yield "l " + hx(v)
        yield "p sq- " + hx(n.swapcase() + b": v\r\n")
        yield "l " + hx(n[:-1])
        yield "l " + hx(n + b"x")
    # exhaustive small scope
    L = 6 if thorough else 4
    for n in range(0, L + 1):
        for tup in itertools.product(SMALL, repeat=n):
            b = bytes(tup)
            for fl in (FLAGS_MAIN if n <= 5 else ("sq-", "rp-")):
                yield "p %s %s" % (fl, hx(b))
            if n <= (5 if thorough else 4):
                yield "m rq- %s" % hx(b + b"\n\n")
    # boundaries of the 64K String limits
    for ln in (65533, 65534, 65535):
        yield "p sq- " + hx(b"X-Long: " + b"v" * ln + b"\r\n")
        yield "k rp- " + hx(b"X-Long:" + b"v" * ln + b"\n")
        yield "p sq- " + hx(b"n" * ln + b": v\r\n")
        yield "p rp- " + hx(b"n" * (ln - 1) + b" : v\r\n")
    # truncation at every offset of a typical block
    base = b"Host: a.example\r\nContent-Length: 5\r\nX-Fold: a\r\n b\r\nAccept : */*\r\n\r\n"
    for i in range(len(base) + 1):
        yield "p rp- " + hx(base[:i])
        yield "m sq- " + hx(base[:i])
    nrand = 30000 if thorough else 4000
    for i in range(nrand):
        block = gen_block(rng)
        if rng.chance(1, 4):
            for _ in range(rng.range(1, 2)):
                block = mutate(rng, block)
        fl = rng.choice(FLAGS_MAIN) if rng.chance(4, 5) else rng.choice(FLAGS_ALL)
        k = rng.below(10)
        if k < 5:
            yield "p %s %s" % (fl, hx(block))
        elif k < 8:
            yield "k %s %s" % (fl, hx(block))
        else:
            junk = rng.choice([b"", b"", b"BODY", b"\r\n", b"x: y\r\n\r\n"])
            if not block.endswith((b"\r\n\r\n", b"\n\n")) and rng.chance(9, 10):
                block += b"\r\n"
            yield "m %s %s" % (fl, hx(block + junk))
    for i in range(nrand // 20):
        yield "p %s %s" % (rng.choice(FLAGS_MAIN), hx(rng.bytes(rng.range(0, 30), b"Ab:: \t\r\n\n\0\v-1,")))


def nontrivial(line, impl, model):
    toks = line.split(" ")
    if toks[0] == "l":
        return impl not in ("84", "85")
    if " n=0" in impl or impl in ("incomplete",):
        return False
    if impl.endswith("reject") or impl == "reject":
        return reference(unhx(toks[2]), toks[1])[0] == "reject" and len(toks[2]) > 8
    return True


def tag(line, impl, model):
    toks = line.split(" ")
    if toks[0] == "l":
        return "l " + ("known" if impl not in ("84", "85") else "unknown")
    res = "incomplete" if impl == "incomplete" else "reject" if impl.endswith("reject") else "throw" if impl == "throw" else "abort" if impl.startswith("abort") else "ok"
    if res == "reject" and toks[0] == "p":
        r = reference(unhx(toks[2]), toks[1])
        res = "reject(" + (r[1] if r[0] == "reject" else "?") + ")"
    if res == "ok":
        m = re.search(r" n=(\d+)", impl)
        n = int(m.group(1)) if m else 0
        res = "ok n=" + ("0" if n == 0 else "1" if n == 1 else "2-4" if n <= 4 else "5+")
    return "%s %s %s" % (toks[0], toks[1], res)


def shrink(line):
    toks = line.split(" ")
    if toks[0] == "l" or len(toks) != 3:
        return
    yield from C26.shrink(line)


def exhaustive(tier):
    return True


KNOWN_MUST_MATCH_MODEL = True   # inside a known finding's region the observation must still equal the model's (which reproduces the listed defect); see lib/vf/run.py
