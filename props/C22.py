"""C22 Request-line acceptance matches the HTTP grammar."""
import os, re
from vf.util import VERIF, hx, unhx
from vf.harness import ProcHarness
from props import C21

ID = "C22"
PROP_MODULE = "SquidModel.Properties.C22"
MODEL = "c22"
GEN = ["http1_request", "charsets"]
RULE = ("l <relaxed> <bytes>: one call of the real Http1::RequestParser (limit 1 MiB); observed: did it go past the request line, and "
        "with which method/target/version. Lines are grammar-generated (RFC 9112 request-line, RFC 1945 simple-request, the relaxed "
        "tolerances), then EVERY single-byte substitution over 0..255 at every position of a set of seed lines (all positions of "
        "short seeds in quick, of all seeds in thorough), insertions/deletions/duplications, length limits (method 32, target 65536), "
        "leading empty lines and trailing bytes. The oracle is a reference recogniser written from the RFC grammars as regular "
        "expressions (python re), independent of the model. non-trivial = the real parser accepted the line; distinct = distinct inputs")
TRUSTED = ["reference recogniser: the regular expressions in props/C22.py transcribed from RFC 9112 section 3 / RFC 9110 (token, DIGIT), "
           "RFC 3986 (characters allowed in a URI), RFC 1945 (Simple-Request) and, for the relaxed mode, from the tolerances documented in "
           "src/http/one/Parser.cc and RequestParser.cc",
           "modelled, not verified: Tokenizer/SBuf primitives as list operations; the correspondence run ties them to the code"]
ASSUMPTIONS = ["request-target is checked lexically here (1*uri-char); its structure (origin-form, absolute-form, ...) is the business of "
               "AnyP::Uri::parse (C30)",
               "relaxed_header_parser is 0 or 1; request_header_max_size is larger than the line (1 MiB in the harness)"]
MANIFEST = {
    "text": "full (exact characterisation): accepts_iff proves for both modes and every byte string that the modelled field parsers "
            "(parseMethodField, skipDelimiter, skipTrailingCrs, parseHttpVersionField, parseUriField, the right-to-left order of "
            "parseRequestFirstLine) accept a line exactly when it has one of three explicitly written shapes: the RFC 9112 request-line "
            "with a non-zero major version (strict: single SP, CRLF; relaxed: 1*(SP/HTAB/VT/FF/CR) delimiters, *CR LF, extended target "
            "characters, case-corrected method), the RFC 1945 simple-request for GET, and a version-0 shape in which the version token "
            "need not be separated from the target; the extracted fields are the shape's fields. strict_accepts_rfc9112 / "
            "strict_rfc9112_accepted relate this to the RFC grammar; the places where the real parser deviates from RFC 9112 are proved "
            "as counterexamples and re-confirmed on the real parser every run (known findings)",
    "note": "trusted: Lean kernel, table dump, C++ harness, python reference recogniser",
    "technique": "Lean 4 proof (both directions of an iff between the parser model and a declarative grammar relation) + table translator "
                 "+ ASan differential run against a regex reference recogniser",
}

build_exe = C21.build_exe


def build(stage):
    return ProcHarness([build_exe(stage)])


# ---------------------------------------------------------------------------------------------------------------------
# reference recogniser (from the RFCs, not from the model)
TCH = rb"!#$%&'*+\-.^_`|~0-9A-Za-z"                       # RFC 9110 5.6.2 tchar
URI = rb"A-Za-z0-9\-._~:/?#\[\]@!$&'()*+,;=%"              # RFC 3986: unreserved / gen-delims / sub-delims / "%"
RD = rb" \t\x0b\x0c\r"                                      # RFC 9112 2.2 / 3: SP, HTAB, VT, FF, bare CR as relaxed delimiters
RT = rb"\t\x0b\x0c\r\x20-\x7e\x80-\xff"                     # relaxed target: URI chars, whitespace, RFC 2396 unwise, 128..255
RTND = rb"\x21-\x7e\x80-\xff"                               # ... that are not delimiters
MAXM, MAXU = 32, 65536

STRICT_LINE = re.compile(rb"([" + TCH + rb"]{1,%d}) ([" % MAXM + URI + rb"]{1,%d}) HTTP/([0-9])\.([0-9])\r\n" % MAXU, re.S)
SIMPLE_REQ = re.compile(rb"(GET) ([" + URI + rb"]{1,%d})\r\n" % MAXU, re.S)
TARGET_R = rb"([" + RTND + rb"](?:[" + RT + rb"]*[" + RTND + rb"])?)"
RELAXED_LINE = re.compile(rb"([" + TCH + rb"]{1,%d})[" % MAXM + RD + rb"]+" + TARGET_R + rb"[" + RD + rb"]+HTTP/([0-9])\.([0-9])\r*\n", re.S)
# relaxed simple-request: CR* LF ends the line; whitespace the client left before it stays in the target ("dealt with later")
RELAXED_SIMPLE = re.compile(rb"([Gg][Ee][Tt])[" + RD + rb"]+([" + RTND + rb"](?:[" + RT + rb"]*[\t\x0b\x0c\x20-\x7e\x80-\xff])?)\r*\n", re.S)
VERSION_TAIL = re.compile(rb"HTTP/[0-9]+\.[0-9]+$")
SQUID_METHODS = [b"GET", b"POST", b"PUT", b"HEAD", b"CONNECT", b"TRACE", b"OPTIONS", b"DELETE", b"LINK", b"UNLINK", b"CHECKOUT", b"CHECKIN",
                 b"UNCHECKOUT", b"MKWORKSPACE", b"VERSION-CONTROL", b"REPORT", b"UPDATE", b"LABEL", b"MERGE", b"BASELINE-CONTROL",
                 b"MKACTIVITY", b"PROPFIND", b"PROPPATCH", b"MKCOL", b"COPY", b"MOVE", b"LOCK", b"UNLOCK", b"SEARCH", b"PRI", b"PURGE"]


def first_line(relaxed, b):
    if relaxed:
        b = b[re.match(rb"(?:\r?\n)*", b).end():]       # RFC 9112 2.2: ignore empty lines before the request-line
    nl = b.find(b"\n")
    return None if nl < 0 else b[:nl + 1]


def reference(relaxed, b):
    """-> None (must not be accepted) or (method, isGet, target, major, minor)"""
    line = first_line(relaxed, b)
    if line is None:
        return None
    if not relaxed:
        m = STRICT_LINE.fullmatch(line)
        if m:
            return (m.group(1), m.group(1) == b"GET", m.group(2), int(m.group(3)), int(m.group(4)))
        m = SIMPLE_REQ.fullmatch(line)
        if m:
            return (b"GET", True, m.group(2), 0, 9)
        return None
    m = RELAXED_LINE.fullmatch(line)
    if m and len(m.group(2)) <= MAXU:
        meth = m.group(1)
        canon = meth.upper() if meth.upper() in SQUID_METHODS else meth      # mixed-case known methods are corrected
        return (canon, canon == b"GET", m.group(2), int(m.group(3)), int(m.group(4)))
    m = RELAXED_SIMPLE.fullmatch(line)
    if m and len(m.group(2)) <= MAXU:
        return (b"GET", True, m.group(2), 0, 9)
    return None


def parse_impl(impl):
    if not impl.startswith("accept "):
        return None
    d = dict(tk.split("=", 1) for tk in impl.split()[1:])
    maj, mnr = d["v"].split(".")
    return (unhx(d["m"]), d["g"] == "1", unhx(d["u"]), int(maj), int(mnr))


def oracle(line, impl):
    if impl.startswith("abort:"):
        return "sanitizer/abort: " + impl
    w = line.split()
    relaxed, b = w[1] == "1", unhx(w[2])
    if not (impl == "incomplete" or impl.startswith("reject:") or impl.startswith("accept ")):
        return "unparsable output " + impl[:80]
    want = reference(relaxed, b)
    got = parse_impl(impl)
    if want is None and got is not None:
        return "accepted a line that the grammar does not derive"
    if want is not None and got is None:
        return "did not accept (%s) a line that the grammar derives" % impl
    if want != got:
        names = ["method", "is-GET", "target", "major", "minor"]
        k = [n for n, x, y in zip(names, want, got) if x != y]
        return "accepted with different %s than the grammar's fields" % ",".join(k)
    return None


# ---------------------------------------------------------------------------------------------------------------------
# known deviations (signatures over the first line of the input)
def classify(line, impl, why):
    if impl.startswith("abort:") or not line.startswith("l "):
        return None
    w = line.split()
    relaxed, b = w[1] == "1", unhx(w[2])
    fl = first_line(relaxed, b)
    if fl is None:
        return None
    body = fl[:-1].rstrip(b"\r") if relaxed else (fl[:-2] if fl.endswith(b"\r\n") else None)
    if body is None:
        return None
    # method and what follows its delimiter(s)
    m = re.match(rb"[" + TCH + rb"]{1,32}", body)
    if not m:
        return None
    rest = body[m.end():]
    d = re.match(rb"[" + (RD if relaxed else rb" ") + rb"]+", rest)
    if not d or (not relaxed and d.end() != 1):
        return None
    tail = rest[d.end():]
    v = re.search(rb"HTTP/([0-9]+)\.([0-9]+)$", tail)
    if v:
        major0 = len(v.group(1)) > 1 or len(v.group(2)) > 1 or v.group(1) == b"0"
        before = tail[:v.start()]
        glued = not before or before[-1:] not in (C21.RELAXED_DELIMS if relaxed else b" ")
        if major0:
            # the version token denotes major version 0 (literally, or as Squid's 0.0 for multi-digit numbers): the parser then
            # does not look for the delimiter before it and takes everything up to "HTTP/" as the target
            return "C22-version0-no-delimiter"
        if glued:
            # a non-zero version token glued to the target: RFC 1945 reads the whole as a simple-request URI, the parser as a
            # request-line with a missing delimiter
            return "C22-simple-request-version-tail"
    return None


# ---------------------------------------------------------------------------------------------------------------------
# generators
def gen_valid_strict(rng):
    m = rng.choice(C21.KNOWN_METHODS) if rng.chance(2, 3) else rng.bytes(rng.range(1, 10), C21.TCHARS)
    t = rng.choice([b"/", b"*", b"/index.html", b"http://example.com/a?b=c", b"example.com:443", b"/%41%zz", b"/a/b;c=d?e#f"]) \
        if rng.chance(1, 2) else b"/" + rng.bytes(rng.range(0, 20), C21.URICH)
    v = rng.choice([b"HTTP/1.1", b"HTTP/1.1", b"HTTP/1.0", b"HTTP/1.%d" % rng.below(10), b"HTTP/%d.%d" % (rng.range(1, 9), rng.below(10))])
    return m + b" " + t + b" " + v + b"\r\n"


def gen_valid_relaxed(rng):
    m = rng.choice(C21.KNOWN_METHODS)
    if rng.chance(1, 3):
        m = bytes(c ^ 0x20 if (65 <= c <= 90 and rng.chance(1, 2)) else c for c in m)
    elif rng.chance(1, 4):
        m = rng.bytes(rng.range(1, 10), C21.TCHARS)
    d1 = rng.bytes(rng.range(1, 3), C21.RELAXED_DELIMS) if rng.chance(1, 2) else b" "
    d2 = rng.bytes(rng.range(1, 3), C21.RELAXED_DELIMS) if rng.chance(1, 2) else b" "
    t = b"/" + rng.bytes(rng.range(0, 12), C21.URICH + b" \t\"\\|^<>`{}\x80\xfe\xff\r")
    while t[-1:] in (b" ", b"\t", b"\r", b"\x0b", b"\x0c"):
        t = t[:-1]
    v = rng.choice([b"HTTP/1.1", b"HTTP/1.0", b"HTTP/%d.%d" % (rng.range(1, 9), rng.below(10))])
    return rng.choice([b"", b"", b"\r\n", b"\n", b"\n\r\n"]) + m + d1 + t + d2 + v + rng.choice([b"\r\n", b"\n", b"\r\r\n"])


def gen_simple(rng, relaxed):
    g = b"GET" if not relaxed or rng.chance(1, 2) else rng.choice([b"get", b"Get", b"gEt"])
    t = b"/" + rng.bytes(rng.range(0, 10), C21.URICH)
    return g + b" " + t + (b"\r\n" if not relaxed else rng.choice([b"\r\n", b"\n", b" \r\n", b"\r\r\n"]))


SEEDS = [b"GET / HTTP/1.1\r\n", b"OPTIONS * HTTP/1.0\r\n", b"GET /\r\n", b"CONNECT example.com:443 HTTP/1.1\r\n",
         b"M-SEARCH /a%20b?c=d HTTP/2.0\r\n", b"get  /a b\tHTTP/1.1\r\r\n", b"\r\nPOST /x HTTP/1.1\n", b"GET / HTTP/0.9\r\n",
         b"GET /x HTTP/12.3\r\n", b"PUT /1.1 HTTP/1.1\r\n"]


def all_substitutions(s):
    for i in range(len(s)):
        for c in range(256):
            if c != s[i]:
                yield s[:i] + bytes([c]) + s[i + 1:]


def cases(rng, tier):
    thorough = tier == "thorough"

    def both(b):
        yield "l 0 " + hx(b)
        yield "l 1 " + hx(b)
    # every single-byte substitution over the whole alphabet
    seeds = list(SEEDS)
    if thorough:
        seeds += [gen_valid_strict(rng) for _ in range(20)] + [gen_valid_relaxed(rng) for _ in range(20)] + [gen_simple(rng, True) for _ in range(5)]
    else:
        seeds = seeds[:6] + [gen_valid_strict(rng), gen_valid_relaxed(rng)]
    for s in seeds:
        yield from both(s)
        for t in all_substitutions(s):
            yield from both(t)
    # grammar-directed valid lines (+ trailing bytes), small mutations of them
    n = 6000 if thorough else 1200
    for i in range(n):
        k = rng.below(10)
        relaxed = rng.chance(1, 2)
        if k < 4:
            b = gen_valid_relaxed(rng) if relaxed else gen_valid_strict(rng)
        elif k < 5:
            b = gen_simple(rng, relaxed)
        elif k < 7:
            b = C21.gen_head(rng, relaxed)
        else:
            b = gen_valid_relaxed(rng) if rng.chance(1, 2) else gen_valid_strict(rng)
            for _ in range(rng.range(1, 2)):
                b = C21.mutate(rng, b)
        if rng.chance(1, 4):
            b += rng.choice([b"Host: x\r\n\r\n", b"\r\n", b"x", b"\n", b"GET / HTTP/1.1\r\n\r\n"])
        yield "l %d %s" % (1 if relaxed else 0, hx(b))
        if rng.chance(1, 3):
            yield "l %d %s" % (0 if relaxed else 1, hx(b))
    # version-token neighbourhood, exhaustively: every 1..2 character major/minor and separators
    digs = b"0129"
    for sep in (b" ", b"", b"  ", b"\t"):
        for a in [b""] + [bytes([x]) for x in digs] + [bytes([x, y]) for x in digs for y in digs]:
            for c in [b""] + [bytes([x]) for x in digs] + [bytes([x, y]) for x in b"01" for y in b"09"]:
                for meth in (b"GET", b"POST"):
                    yield from both(meth + b" /x" + sep + b"HTTP/" + a + b"." + c + b"\r\n")
    # boundary: method and target length limits
    for nm in (1, 31, 32, 33, 64):
        for ch in (b"A", b"g"):
            yield from both(ch * nm + b" / HTTP/1.1\r\n")
    for nu in ((65535, 65536, 65537) if thorough else (65536, 65537)):
        yield from both(b"GET /" + b"a" * (nu - 1) + b" HTTP/1.1\r\n")
        yield from both(b"GET /" + b"a" * (nu - 1) + b"\r\n")
    # all short strings over a small alphabet around a method and a target
    alpha = [b" ", b"\r", b"\n", b"/", b"G", b"H", b"1", b"."]
    maxlen = 4 if thorough else 3
    def rec(prefix, k):
        if k == 0:
            yield prefix
            return
        for c in alpha:
            yield from rec(prefix + c, k - 1)
    for k in range(0, maxlen + 1):
        for s in rec(b"", k):
            yield from both(b"GET" + s + b"\n")
            if thorough:
                yield from both(b"GET /" + s + b"TTP/1.1\r\n")


def shrink(line):
    """drop bytes, but leave cases that already carry a known-deviation signature as they are"""
    if classify(line, "", "") is not None:
        return
    w = line.split()
    tk = w[2]
    if tk == "-":
        return
    n = len(tk) // 2
    step = max(1, n // 2)
    while step >= 1:
        for off in range(0, n, step):
            cand = tk[:off * 2] + tk[(off + step) * 2:]
            yield "%s %s %s" % (w[0], w[1], cand or "-")
        step //= 2


def nontrivial(line, impl, model):
    return impl.startswith("accept")


def tag(line, impl, model):
    w = line.split()
    mode = "relaxed" if w[1] == "1" else "strict"
    if impl.startswith("accept"):
        v = impl.split(" v=")[1]
        return "%s accept v=%s" % (mode, v if v in ("1.1", "1.0", "0.9", "0.0") else "other")
    return "%s %s" % (mode, impl)


def exhaustive(tier):
    return True   # all 255 substitutions at every position of the seed lines; all strings over the 8-symbol alphabet up to the tier's length


KNOWN_MUST_MATCH_MODEL = True   # inside a known finding's region the observation must still equal the model's (which reproduces the listed defect); see lib/vf/run.py
