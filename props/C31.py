"""C31 Percent-encoding round-trips (AnyP::Uri::Encode/Decode, rfc1738_do_escape/rfc1738_unescape)."""
import os, re
from vf.util import VERIF, hx, unhx
from vf.harness import ProcHarness

ID = "C31"
PROP_MODULE = "SquidModel.Properties.C31"
MODEL = "c31"
GEN = ["charsets", "uri_sets", "rfc1738_tables"]
RULE = ("E <set> <hex>: Encode then Decode of the real output; D <hex>: Decode; e <flags> <hex>: rfc1738_do_escape then rfc1738_unescape; "
        "u <hex>: rfc1738_unescape in an exact-size heap buffer; X* lines: the same operation on every string of a given length and prefix "
        "(each X line counts as one evaluation but covers 256^k inputs; the harness checks the property on each from the real outputs). "
        "non-trivial = at least one octet was encoded/decoded (output differs from input) or a malformed sequence was rejected; "
        "distinct = distinct input lines")
TRUSTED = ["modelled, not verified: SBuf/MemBlob storage under Tokenizer and SBuf::appendf (covered by the ASan differential run only); "
           "snprintf(\"%%%02X\") is modelled by its documented behaviour",
           "sweep lines (X*): the per-input property check runs inside the harness (harness/c31.cc check* functions), the model side is tied by an FNV-1a digest of all outputs"]
ASSUMPTIONS = ["rfc1738 inputs are C strings (no NUL) shorter than INT_MAX (the int indices of rfc1738_unescape are modelled as unbounded)",
               "plain char is signed on the build platform (dumped every run; the model follows the dumped value)",
               "the C locale for isalpha/isdigit inside Tokenizer::int64"]
MANIFEST = {
    "text": "full for ignore sets without '%' and for rfc1738 flag sets that escape '%' (UNSAFE without NOPERCENT): theorems decode_encode_partial, "
            "encode_alphabet, decode_accepts_iff_wellformed, unescape_escape_partial, unescape_in_place_safe, escape_fits_buffer hold for every byte string "
            "in models that follow AnyP::Uri::Encode/Decode (over a Tokenizer model) and rfc1738_do_escape/rfc1738_unescape (buffer, indices, "
            "snprintf) branch by branch; counterexamples are proved for ignore sets containing '%' (PathChars) and for NOPERCENT / no-UNSAFE flag sets, "
            "which are outside the statement; the real functions run under ASan/UBSan against the models and a direct round-trip/alphabet oracle, "
            "exhaustively for all strings of length <= 3 in the thorough tier",
    "note": "trusted: Lean kernel (+propext/Classical.choice/Quot.sound as printed), table/set dump, C++ harness and python oracle; "
            "modelled not verified: SBuf storage and printf formatting (differential run under ASan only); int index overflow for >2 GB strings is outside the model",
    "technique": "Lean 4 proofs (induction, loop/spec refinement with explicit memory indices, decide over regenerated tables) + translators + ASan differential run with exhaustive small scope",
}


def build_exe(stage):
    if "c31" in getattr(stage, "built", {}):
        return stage.built["c31"]
    objs = [stage.compile(os.path.join(VERIF, "harness", "c31.cc"))]
    objs += stage.compile_many(["src/parser/Tokenizer.cc", "src/sbuf/SBuf.cc", "src/base/CharacterSet.cc"])
    exe = stage.link_like("tests/testURL", objs, os.path.join(stage.work, "c31"))
    stage.built = getattr(stage, "built", {})
    stage.built["c31"] = exe
    return exe


class ParallelHarness:
    """The sweep lines (X*, 65536 inputs each) are independent of each other and of the ordinary lines: they are spread over a few
    harness processes; all other lines go, in order, through one process (so that the static buffer of rfc1738_do_escape sees the
    generated sequence of lengths)."""

    def __init__(self, exe, workers=4):
        self.exe = exe
        self.workers = workers
        self.crashes = 0

    def run(self, lines):
        from concurrent.futures import ThreadPoolExecutor
        heavy = [i for i, l in enumerate(lines) if l.startswith("X") and sweep_size(l) >= 65536]
        hs = set(heavy)
        chunks = [[i for i in range(len(lines)) if i not in hs]]
        if len(heavy) >= 2 * self.workers:
            chunks += [heavy[k::self.workers] for k in range(self.workers)]
        else:
            chunks[0] = list(range(len(lines)))
        out = [None] * len(lines)

        def work(idx):
            h = ProcHarness([self.exe])
            res = h.run([lines[i] for i in idx])
            return idx, res, h.crashes

        with ThreadPoolExecutor(max_workers=len(chunks)) as ex:
            for idx, res, crashes in ex.map(work, chunks):
                self.crashes += crashes
                for i, r in zip(idx, res):
                    out[i] = r
        return out


def build(stage):
    return ParallelHarness(build_exe(stage))


# ---- independent definitions of the sets and flags (from RFC 3986 / include/rfc1738.h documentation) ----
ALNUM = b"ABCDEFGHIJKLMNOPQRSTUVWXYZabcdefghijklmnopqrstuvwxyz0123456789"
UNRESERVED = ALNUM + b"-._~"
SUBDELIMS = b"!$&'()*+,;="
SETS = {
    "unreserved": frozenset(UNRESERVED),
    "userinfo": frozenset(UNRESERVED + SUBDELIMS + b":%"),       # RFC 3986 3.2.1 userinfo, pct-encoded kept
    "path": frozenset(UNRESERVED + SUBDELIMS + b":@/%"),         # RFC 3986 3.3 pchar and "/", pct-encoded kept
}
F_CTRLS, F_UNSAFE, F_RESERVED, F_NOSPACE, F_NOPERCENT = 1, 2, 4, 128, 256
F_ALL = 7
F_UNESCAPED = F_UNSAFE | F_CTRLS | F_NOPERCENT
RFC1738_UNSAFE = b"<>\"#%{}|\\^~[]`' "   # RFC 1738 2.2 "unsafe" list (and the quote squid adds)
RFC1738_RESERVED = b";/?:@=&"


def set_of(spec):
    if spec in SETS:
        return SETS[spec]
    assert spec.startswith("x")
    return frozenset(unhx(spec[1:]))


def set_spec(members):
    return "x" + hx(bytes(sorted(set(members))))


# ---- generators ----
PCT_ALPHA = b"%%%2541aAfFgG09 /~-\x00\x01\x7f\x80\xff:@?#+&=;\"'<>"
ESC_ALPHA = b"%%%2541aAfFgG09 /~-\x01\x1f\x20\x7f\x80\xff:@?#+&=;\"'<>[]{}|\\^`"
FLAGSETS = [0, 1, 2, 3, 4, 5, 6, 7, 128 | 2, 128 | 3, 128 | 7, 256 | 2, 259, 259 | 128, 256 | 7, 256 | 128 | 7, 128, 256, 384, 8, 64 | 3, 0xffff]


def rand_string(rng, alpha, nul_ok, maxlen=40):
    k = rng.below(6)
    if k == 0:      # arbitrary octets
        s = rng.bytes(rng.range(0, maxlen))
    elif k == 1:    # dense in metacharacters
        s = rng.bytes(rng.range(0, maxlen), alpha)
    elif k == 2:    # text that already looks encoded: valid, lower-case, truncated and malformed triplets
        parts = [b"%41", b"%2f", b"%2F", b"%25", b"%00", b"%", b"%%", b"%4", b"%g1", b"%1g", b"%ff", b"%FF", b"%7e", b"a", b"/", b" ", b"%\xff1", b"%0\x00",
                 b"%250", b"%2541", b"0", b"x"]
        s = b"".join(rng.choice(parts) for _ in range(rng.range(0, 14)))
    elif k == 3:    # mostly plain with a few specials
        s = bytearray(rng.bytes(rng.range(0, maxlen), ALNUM + b"-._~/"))
        for _ in range(rng.range(0, 3)):
            if s:
                s[rng.below(len(s))] = rng.choice(alpha)
        s = bytes(s)
    elif k == 4:    # URL shaped
        s = b"http://" + rng.bytes(rng.range(1, 8), b"abc.-") + b"/" + rng.bytes(rng.range(0, 20), b"ab/%20 ~?&=#\xe4\xf6") + rng.choice([b"", b"%", b"%2", b"%zz", b"?q=%25"])
    else:           # runs
        s = rng.choice([b"%", b"\xff", b" ", b"a", b"%25", b"#"]) * rng.range(0, 30)
    if not nul_ok:
        s = s.replace(b"\0", b"\x01")
    return s


def mutate(rng, s):
    s = bytearray(s)
    k = rng.below(5)
    if k == 0 and s:
        s[rng.below(len(s))] ^= 1 << rng.below(8)
    elif k == 1 and s:
        del s[rng.below(len(s)):]
    elif k == 2 and s:
        i = rng.below(len(s))
        s[i:i] = s[i:i + rng.range(1, 4)]
    elif k == 3:
        i = rng.below(len(s) + 1)
        s[i:i] = rng.choice([b"%", b"%%", b"%0", b"%00", b"%2", b"%25", b"\x00", b"\xff"])
    elif s:
        i = rng.below(len(s))
        j = rng.below(len(s))
        s[i], s[j] = s[j], s[i]
    return bytes(s)


def py_encode(s, members):
    return b"".join(bytes([c]) if c in members else b"%%%02X" % c for c in s)


def cases(rng, tier):
    thorough = tier == "thorough"
    named = ["unreserved", "path", "userinfo"]
    custom = ["x-", set_spec(range(256)), set_spec(set(range(256)) - {37}), set_spec(b"%"), set_spec(ALNUM), set_spec(b"0123456789ABCDEFabcdef"),
              set_spec(set(UNRESERVED) | {0, 0xff}), set_spec(b"%0123456789")]
    # ---- exhaustive small scopes ----
    yield "E unreserved -"
    yield "D -"
    yield "u -"
    for fl in (0, 3, 7, 259):
        yield "e %d -" % fl
    for b in range(256):                       # every single octet, as individual lines
        for st in named + ["x-"]:
            yield "E %s %s" % (st, hx(bytes([b])))
        yield "D " + hx(bytes([b]))
        yield "D 25" + hx(bytes([b])) + "30"
        yield "D 2541" + hx(bytes([b]))
        if b:
            for fl in (0, 1, 2, 3, 4, 7, 130, 259):
                yield "e %d %s" % (fl, hx(bytes([b])))
            yield "u " + hx(bytes([b]))
            yield "u 25" + hx(bytes([b])) + "31"
            yield "u 2534" + hx(bytes([b]))
    for st in named + custom[:4]:              # all strings of length 2 (3 in thorough) as sweeps
        yield "XE %s 1 -" % st
        yield "XE %s 2 -" % st
    yield "XD 1 -"
    yield "XD 2 -"
    yield "Xu 1 -"
    yield "Xu 2 -"
    for fl in FLAGSETS:
        yield "Xe %d 1 -" % fl
        if thorough or fl in (0, 3, 7, 259):
            yield "Xe %d 2 -" % fl
    if thorough:
        secondary = set(b"%0129AFGafg /~\x01\x7f\x80\xff\"#;")
        for b in range(256):
            p = hx(bytes([b]))
            yield "XE unreserved 3 %s" % p
            yield "XD 3 %s" % p
            yield "XE path 3 %s" % p
            if b:
                yield "Xu 3 %s" % p
                yield "Xe 3 3 %s" % p
                yield "Xe 7 3 %s" % p
                if b in secondary:
                    yield "Xe 259 3 %s" % p
    else:
        # the interesting slices of length 3: everything that starts with '%', and %-in-the-middle
        for p in ("25", "41", "ff"):
            yield "XE unreserved 3 %s" % p
            yield "XD 3 %s" % p
            yield "Xu 3 %s" % p
            yield "Xe 3 3 %s" % p
        yield "XE path 3 25"
        yield "Xe 259 3 25"
        yield "XD 4 2525"
        yield "Xu 4 2525"
        yield "XD 5 412530"
        yield "Xu 5 412530"
    # strings over a small alphabet, as individual lines (python oracle + exact model comparison)
    small = b"%a4\xff "
    maxlen = 4 if thorough else 3
    def rec(prefix, n):
        if n == 0:
            yield prefix
            return
        for c in small:
            yield from rec(prefix + bytes([c]), n - 1)
    for n in range(2, maxlen + 1):
        for s in rec(b"", n):
            yield "E unreserved " + hx(s)
            yield "D " + hx(s)
            yield "u " + hx(s)
            yield "e 3 " + hx(s)
    # ---- random / structured ----
    nrand = 30000 if thorough else 2500
    for i in range(nrand):
        k = rng.below(10)
        if k < 3:       # Encode
            s = rand_string(rng, PCT_ALPHA, True)
            if rng.chance(1, 4):
                s = mutate(rng, s)
            st = rng.choice(named + custom) if rng.chance(4, 5) else set_spec(rng.bytes(rng.range(0, 200)))
            yield "E %s %s" % (st, hx(s))
        elif k < 5:     # Decode: valid encodings (deep), and their mutations
            s = rand_string(rng, PCT_ALPHA, True)
            enc = py_encode(s, set_of(rng.choice(["unreserved", "x-", custom[4]])))
            if rng.chance(1, 3):
                enc = enc.lower() if rng.chance(1, 2) else enc
            if rng.chance(1, 2):
                enc = mutate(rng, enc)
            yield "D " + hx(enc)
        elif k < 8:     # escape + unescape
            s = rand_string(rng, ESC_ALPHA, False)
            if rng.chance(1, 4):
                s = mutate(rng, s).replace(b"\0", b"\x02")
            fl = rng.choice(FLAGSETS) if rng.chance(5, 6) else rng.below(512)
            yield "e %d %s" % (fl, hx(s))
        else:           # unescape of arbitrary / escaped-looking text
            s = rand_string(rng, ESC_ALPHA, False)
            if rng.chance(1, 2):
                s = py_encode(s, frozenset(ALNUM))
                if rng.chance(1, 2):
                    s = mutate(rng, s).replace(b"\0", b"%")
            yield "u " + hx(s)
    # ---- boundary: lengths around the static-buffer growth rule and large inputs ----
    sizes = [1, 2, 3, 4, 5, 85, 86, 255, 256, 341, 342, 1023, 1024, 1365, 1366, 4095, 4096]
    if not thorough:
        sizes = [1, 2, 3, 86, 341, 342, 1024, 1366, 4096]
    for n in sizes:
        for fill in (b"%", b"a", b"\xff", None):
            s = fill * n if fill else rng.bytes(n)
            yield "E unreserved " + hx(s)
            if fill is None or fill == b"%":
                yield "E path " + hx(s)
            z = s.replace(b"\0", b"\x03")
            yield "e 7 " + hx(z)
            if fill is None:
                yield "e 259 " + hx(z)
                yield "u " + hx(z)
                yield "D " + hx(py_encode(s, SETS["unreserved"]))
        yield "u " + hx((b"%41" * n)[:n])
        yield "u " + hx((b"%%" * n)[:n])
        yield "D " + hx((b"%4a" * n)[:n])
    # shrinking sequence: a long call followed by short ones (the static buffer is reused, not reallocated)
    for n in (300, 7, 100, 0, 101, 299, 301):
        yield "e 7 " + hx(b"#" * n)
    nbig = 40 if thorough else 8
    for i in range(nbig):
        n = rng.range(1000, 4096)
        s = rand_string(rng, PCT_ALPHA, True, maxlen=n)
        yield "E %s %s" % (rng.choice(named), hx(s))
        z = s.replace(b"\0", b"\x04")
        yield "e %d %s" % (rng.choice([3, 7, 259]), hx(z))
        yield "u " + hx(py_encode(z, frozenset(ALNUM)) if rng.chance(1, 2) else z)


# ---- the direct oracle ----
RE_FIELDS = re.compile(r"^(\w+)=(\S+) (\w+)=(\S+)$")
RE_SWEEP = re.compile(r"^n=(\d+) bad=(\d+) first=(\S+) digest=([0-9a-f]{16})$")
RE_WELLFORMED = re.compile(rb"(?:[^%]|%[0-9A-Fa-f]{2})*", re.S)


def ref_pct_decode(s):
    """strict RFC 3986 decoding; None when some % is not followed by two hex digits"""
    if not RE_WELLFORMED.fullmatch(s):
        return None
    return re.sub(rb"%([0-9A-Fa-f]{2})", lambda m: bytes([int(m.group(1), 16)]), s, flags=re.S)


def ref_unescape(s):
    """rfc1738_unescape per its documentation: %% -> %, %xy -> octet (not 0), everything else unchanged"""
    out = bytearray()
    i = 0
    n = len(s)
    while i < n:
        if s[i] == 37 and i + 1 < n and s[i + 1] == 37:
            out.append(37)
            i += 2
            continue
        if s[i] == 37 and i + 2 < n:
            try:
                x = int(s[i + 1:i + 3].decode("ascii"), 16) if re.fullmatch(rb"[0-9A-Fa-f]{2}", s[i + 1:i + 3]) else None
            except UnicodeDecodeError:
                x = None
            if x:
                out.append(x)
                i += 3
                continue
        out.append(s[i])
        i += 1
    return bytes(out)


def encoded_form_ok(enc, members):
    i = 0
    n = len(enc)
    while i < n:
        c = enc[i]
        if c == 37 and i + 2 < n and enc[i + 1] in b"0123456789ABCDEF" and enc[i + 2] in b"0123456789ABCDEF":
            i += 3
            continue
        if c in members:
            i += 1
            continue
        return False
    return True


def sweep_size(line):
    """number of inputs an X line covers"""
    w = line.split(" ")
    n, pre = int(w[-2]), unhx(w[-1])
    base = 256 if w[0] in ("XE", "XD") else 255
    return base ** (n - len(pre))


def oracle(line, impl):
    w = line.split(" ")
    op = w[0]
    if impl.startswith("abort:"):
        return "sanitizer/abort: " + impl
    if impl == "bad-op":
        return "harness did not understand the case"
    try:
        if op.startswith("X"):
            if impl == "reject:nul":
                return None if b"\0" in unhx(w[-1]) else "NUL-free prefix rejected"
            m = RE_SWEEP.match(impl)
            if not m:
                return "unparsable output " + impl[:80]
            if int(m.group(1)) != sweep_size(line):
                return "sweep covered %s inputs instead of %d" % (m.group(1), sweep_size(line))
            if int(m.group(2)) != 0:
                return "property fails on %s inputs of the sweep, first: %s" % (m.group(2), m.group(3))
            return None
        s = unhx(w[-1])
        if op == "E":
            members = set_of(w[1])
            m = RE_FIELDS.match(impl)
            if not m or m.group(1) != "enc" or m.group(3) != "dec":
                return "unparsable output " + impl[:80]
            enc = unhx(m.group(2))
            dec = None if m.group(4) == "reject" else unhx(m.group(4))
            if 37 not in members or 37 not in s:
                if dec != s:
                    return "decoding the encoded form does not return the original"
                if ref_pct_decode(enc) != s:
                    return "the encoded form does not denote the original octets"
            if not encoded_form_ok(enc, members):
                return "encoded form contains an octet that is neither ignored nor part of a well-formed %XX triplet"
            if len(enc) > 3 * len(s):
                return "encoded form longer than three times the input"
            return None
        if op == "D":
            ref = ref_pct_decode(s)
            if impl == "reject:pct":
                return None if ref is None else "well-formed pct-encoding rejected"
            if ref is None:
                return "malformed pct-encoding accepted"
            if unhx(impl) != ref:
                return "decoded octets differ from the RFC 3986 reading"
            return None
        if op == "e":
            if b"\0" in s:
                return None if impl == "reject:nul" else "NUL input not rejected by the harness"
            flags = int(w[1])
            m = RE_FIELDS.match(impl)
            if not m or m.group(1) != "esc" or m.group(3) != "unesc":
                return "unparsable output " + impl[:80]
            esc, un = unhx(m.group(2)), unhx(m.group(4))
            escapes_pct = bool(flags & F_UNSAFE) and not (flags & F_NOPERCENT)
            if (escapes_pct or 37 not in s) and un != s:
                return "unescaping the escaped form does not return the original"
            if len(esc) > 3 * len(s):
                return "escaped form longer than three times the input"
            if len(un) > len(esc):
                return "unescaped string longer than its input"
            if ref_unescape(esc) != un:
                return "unescape result differs from the documented reading"
            if escapes_pct and not encoded_form_ok(esc, frozenset(range(256)) - {37}):
                return "escaped form contains a % that is not a well-formed %XX triplet"
            if flags & F_UNSAFE and flags & F_CTRLS and not flags & (F_NOSPACE | F_NOPERCENT):
                bad = [c for c in esc if c <= 32 or c >= 127 or (c in RFC1738_UNSAFE and c != 37)]
                if bad:
                    return "escaped form contains the raw unsafe octet 0x%02x" % bad[0]
            if flags & F_ALL == F_ALL and not flags & (F_NOSPACE | F_NOPERCENT):
                bad = [c for c in esc if c in RFC1738_RESERVED]
                if bad:
                    return "fully escaped form contains the raw reserved octet 0x%02x" % bad[0]
            return None
        if op == "u":
            if b"\0" in s:
                return None if impl == "reject:nul" else "NUL input not rejected by the harness"
            m = re.match(r"^(\S+) mem=(\S+)$", impl)
            if not m:
                return "unparsable output " + impl[:80]
            out, mem = unhx(m.group(1)), unhx(m.group(2))
            if len(out) > len(s):
                return "unescaped string longer than the input"
            if len(mem) != len(s) + 1 or mem[len(s)] != 0 or mem[len(out)] != 0 or mem[:len(out)] != out:
                return "buffer after unescaping is not the result followed by a terminator inside the input's extent"
            if out != ref_unescape(s):
                return "unescape result differs from the documented reading"
            return None
    except ValueError:
        return "unparsable output " + impl[:80]
    return "unknown op"


def compare(line, impl, model):
    if line.startswith("X"):
        strip = lambda o: re.sub(r" bad=\d+ first=\S+", "", o)
        return strip(impl) == strip(model)
    return impl == model


def nontrivial(line, impl, model):
    w = line.split(" ")
    if w[0].startswith("X"):
        return impl.startswith("n=")
    if impl.startswith("reject:pct"):
        return True
    if w[0] == "E":
        return not impl.startswith("enc=%s " % w[-1])
    if w[0] == "D":
        return impl != w[-1]
    if w[0] == "e":
        return not impl.startswith("esc=%s " % w[-1])
    if w[0] == "u":
        return not impl.startswith(w[-1] + " ")
    return False


def tag(line, impl, model):
    w = line.split(" ")
    op = w[0]
    if op.startswith("X"):
        return "%s sweep len=%s" % (op, w[-2])
    arg = w[-1]
    n = 0 if arg == "-" else len(arg) // 2
    size = "0" if n == 0 else "1" if n == 1 else "2-4" if n <= 4 else "5-64" if n <= 64 else "65-4096" if n <= 4096 else ">4096"
    if impl.startswith("reject") or impl.startswith("abort"):
        kind = impl.split(":")[0] + ":" + impl.split(":")[1][:12] if ":" in impl else impl
    elif op == "E":
        kind = ("changed" if nontrivial(line, impl, model) else "plain") + (" dec-reject" if impl.endswith("dec=reject") else "")
    else:
        kind = "changed" if nontrivial(line, impl, model) else "plain"
    return "%s len=%s %s" % (op, size, kind)


def classify(line, impl, why):
    # no known findings in this area; failures are grouped per operation and failure kind so that one defect gives one report
    w = line.split(" ")
    kind = "sanitizer" if impl.startswith("abort:") else re.sub(r"[^a-z]+", "-", why.split(",")[0].split(":")[0].lower())[:60]
    return "C31-unclassified-%s-%s" % (w[0], kind)


def exhaustive(tier):
    # thorough: every byte string of length <= 3 for Encode(unreserved, path)/Decode and every NUL-free string of length <= 3 for
    # escape (flags 3, 7)/unescape (escape 259: every string <= 2 and 24 first-octet slices of length 3);
    # quick: every string of length <= 2 and the length-3 slices starting with '%', 'A', 0xff
    return True
