"""C27 Integer parsing is exact and overflow-safe."""
import os, re
from vf.util import VERIF, hx, unhx
from vf.harness import ProcHarness

ID = "C27"
PROP_MODULE = "SquidModel.Properties.C27"
MODEL = "c27"
GEN = ["tok_consts"]
RULE = ("i64 <base> <allowSign> <limit> <hex>: Parser::Tokenizer::int64 on a fresh tokenizer; ud <limit> <hex>: udec64; "
        "po <hex>: httpHeaderParseOffset; pi <hex>: httpHeaderParseInt. Streams: grammar-directed numerals (sign, 0x prefix, digits "
        "valid for the base, terminators, limits 0/len-1/len/len+1/npos), boundary numerals (2^63, 2^63-1, 2^64, 2^31, 2^32, "
        "cutoff*base+d, powers of the base, each +-delta, in bases 0/8/10/16 and 2..36 plus degenerate bases), mutations "
        "(truncation at every offset, byte flips, duplication, splicing), random bytes. non-trivial = the parser returned a value; "
        "distinct = distinct input lines")
TRUSTED = ["specified, not verified: SBuf::substr/consume and the C library (isdigit/isalpha/isupper/tolower in the C locale, strtoll, "
           "strtol) are given as list/arithmetic specifications in the model; tied by the differential run",
           "two flags of Gen/TokConsts.lean (type of `acc`, atoi vs strtol) are read from the source text by regular expressions"]
ASSUMPTIONS = ["`base` is a C int, `limit` an SBuf::size_type (32 bits); C locale; header values are C strings (no NUL)"]
MANIFEST = {
    "text": "full: the Lean model of Tokenizer::int64/udec64 follows the C++ branch by branch with the C integer types explicit (uint64_t "
            "accumulator, int cutlim, signed overflow would be the outcome ub) and is proved equal, for every byte string, every C int base, "
            "sign setting and limit, to an arbitrary-precision specification (sign, 0x prefix, maximal digit run, Horner value, range test); "
            "hence exact value, exact consumed length, failure only when no digit or out of range, and no undefined behaviour on any input. "
            "httpHeaderParseOffset and httpHeaderParseInt (strtol + range check) are proved to return the exact value of [ws][sign]digits or "
            "to fail. The pre-fix variants (int64_t accumulator, atoi) are kept as labelled model variants with their counterexamples "
            "(fixed in cc4ab0d, 5201bbe; witnesses are regression cases). The real functions run under ASan/UBSan against the model and "
            "against a python big-integer oracle",
    "note": "trusted: Lean kernel (+axioms as printed), translator of limits and of the two source-text flags, harness, python oracle; "
            "specified not verified: SBuf primitives and libc conversions (strtoll/strtol/atoi/ctype)",
    "technique": "Lean 4 proof (loop invariant relating the cutoff/cutlim test to unbounded Horner evaluation) + constants translator + "
                 "UBSan differential run with big-integer oracle",
}

NPOS = 0xffffffff
I64MAX = (1 << 63) - 1
I64MIN = -(1 << 63)
I32MAX = (1 << 31) - 1
I32MIN = -(1 << 31)
# Both former findings (C27-int64-min-ub, C27-parseint-wraps) are fixed in /repo (cc4ab0d, 5201bbe): the inputs of the two
# regions are ordinary cases now and every one the generators produce is run. Should a sanitizer abort come back, each abort costs a
# process restart, so the number of aborting inputs per run is still bounded (ABORT_CAP), far above what a regression needs to show.
ABORT_CAP = 400


def build_exe(stage):
    if "c27" in getattr(stage, "built", {}):
        return stage.built["c27"]
    objs = [stage.compile(os.path.join(VERIF, "harness", "c27.cc")),
            stage.compile("src/parser/Tokenizer.cc"),
            stage.compile("src/HttpHeaderTools.cc")]
    exe = stage.link_like("tests/testHttpRange", objs, os.path.join(stage.work, "c27"),
                          drop=("HttpHeaderTools.o",), extra=["tests/stub_StatHist.o"])
    stage.built = getattr(stage, "built", {})
    stage.built["c27"] = exe
    return exe


class Harness:
    """ProcHarness whose crash budget is per call (every UB witness costs one restart)."""

    def __init__(self, exe):
        self.exe = exe
        self.crashes = 0

    def run(self, lines):
        h = ProcHarness([self.exe], env={"UBSAN_OPTIONS": "print_stacktrace=0:halt_on_error=1:exitcode=86"})
        out = h.run(lines)
        self.crashes += h.crashes
        self.last_stderr = getattr(h, "last_stderr", "")
        return out


def build(stage):
    return Harness(build_exe(stage))


# ---------------------------------------------------------------- reference arithmetic (python big ints)

def digit(c):
    if 48 <= c <= 57:
        return c - 48
    if 65 <= c <= 90:
        return c - 55
    if 97 <= c <= 122:
        return c - 87
    return None


def valid(c, b):
    d = digit(c)
    return d is not None and d < b


def value(ds, b):
    v = 0
    for c in ds:
        v = v * b + digit(c)
    return v


def to_base(n, b, upper=False):
    assert 2 <= b <= 36 and n >= 0
    al = "0123456789ABCDEFGHIJKLMNOPQRSTUVWXYZ" if upper else "0123456789abcdefghijklmnopqrstuvwxyz"
    if n == 0:
        return b"0"
    r = []
    while n:
        r.append(al[n % b])
        n //= b
    return "".join(reversed(r)).encode()


def lex_i64(data, base, sign, limit):
    """The documented lexical structure: (region, neg, start of digits, effective base, end of the maximal digit run)."""
    r = data if limit == NPOS else data[:limit]
    i, neg = 0, False
    if sign and r[:1] in (b"-", b"+"):
        neg = r[:1] == b"-"
        i = 1
    b = base
    pre = False
    if base in (0, 16) and r[i:i + 1] == b"0" and i + 1 < len(r) and r[i + 1] in b"xX":
        i += 2
        b = 16
        pre = True
    elif base == 0:
        b = 8 if r[i:i + 1] == b"0" else 10
    j = i
    while j < len(r) and valid(r[j], b):
        j += 1
    return r, neg, i, b, j, pre


def ub_zone(data, base, sign, limit):
    """negative numeral one of whose digit-run prefixes denotes exactly 2^63"""
    r, neg, i, b, j, pre = lex_i64(data, base, sign, limit)
    if not neg or j == i:
        return False
    v = 0
    for c in r[i:j]:
        v = v * b + digit(c)
        if v == 1 << 63:
            return True
        if v > 1 << 63:
            return False
    return False


def check_i64(data, base, sign, limit, impl):
    r, neg, i, b, j, pre = lex_i64(data, base, sign, limit)
    if impl == "fail":
        if not r:
            return None                      # nothing to parse
        if j == i:
            return None                      # no digit where the number must start
        v = value(r[i:j], b)
        v = -v if neg else v
        if I64MIN <= v <= I64MAX:
            return "failed although the digits denote the in-range value %d" % v
        return None
    m = re.fullmatch(r"ok (-?\d+) (\d+) (-|[0-9a-f]+)", impl)
    if not m:
        return "unexpected output " + impl[:100]
    v, k, rest = int(m.group(1)), int(m.group(2)), unhx(m.group(3))
    if rest != data[k:]:
        return "the unconsumed part is not the input minus the consumed characters"
    if k > len(r):
        return "consumed beyond the limit/buffer"
    # what was consumed must be [sign] [0x] digits, the digits must denote v
    c = data[:k]
    p, cneg = 0, False
    if sign and c[:1] in (b"-", b"+"):
        cneg = c[:1] == b"-"
        p = 1
    cb = base
    if base in (0, 16) and c[p:p + 1] == b"0" and len(c) > p + 2 and c[p + 1] in b"xX":
        p += 2
        cb = 16
    elif base == 0:
        cb = 8 if c[p:p + 1] == b"0" else 10
    ds = c[p:]
    if not ds or not all(valid(x, cb) for x in ds):
        return "consumed characters are not [sign][0x]digits of base %d" % cb
    exact = value(ds, cb)
    exact = -exact if cneg else exact
    if exact != v:
        return "returned %d but the consumed digits denote %d" % (v, exact)
    if not (I64MIN <= v <= I64MAX):
        return "returned a value outside int64"
    if k < len(r) and valid(r[k], cb):
        return "stopped inside the digit run (consumed %d characters, the next one is a digit too)" % k
    return None


WS = b" \t\n\v\f\r"


def lex_dec(data):
    i = 0
    while i < len(data) and data[i] in WS:
        i += 1
    neg = False
    if data[i:i + 1] in (b"-", b"+"):
        neg = data[i:i + 1] == b"-"
        i += 1
    j = i
    while j < len(data) and 48 <= data[j] <= 57:
        j += 1
    return neg, i, j


def check_po(data, impl):
    neg, i, j = lex_dec(data)
    if impl == "fail":
        if j == i:
            return None
        v = int(data[i:j])
        v = -v if neg else v
        if I64MIN <= v <= I64MAX:
            return "failed although the digits denote the in-range value %d" % v
        return None
    m = re.fullmatch(r"ok (-?\d+) (\d+)", impl)
    if not m:
        return "unexpected output " + impl[:100]
    v, k = int(m.group(1)), int(m.group(2))
    if j == i:
        return "succeeded without digits"
    if k != j:
        return "end pointer at %d, the digit run ends at %d" % (k, j)
    exact = int(data[i:j])
    exact = -exact if neg else exact
    if exact != v:
        return "returned %d but the consumed digits denote %d" % (v, exact)
    return None


def check_pi(data, impl):
    neg, i, j = lex_dec(data)
    first_digit = len(data) > 0 and 48 <= data[0] <= 57
    if j == i:
        return None if impl == "fail" else "succeeded without digits"
    exact = int(data[i:j])
    exact = -exact if neg else exact
    if impl == "fail":
        if I32MIN <= exact <= I32MAX and (exact != 0 or first_digit) and first_digit:
            return "failed although the string starts with digits denoting the in-range value %d" % exact
        return None
    m = re.fullmatch(r"ok (-?\d+)", impl)
    if not m:
        return "unexpected output " + impl[:100]
    v = int(m.group(1))
    if not (I32MIN <= exact <= I32MAX):
        return "returned %d for digits denoting %d, which does not fit an int (wrapped)" % (v, exact)
    if v != exact:
        return "returned %d but the digits denote %d" % (v, exact)
    return None


def check_ud(data, limit, impl):
    r, neg, i, b, j, pre = lex_i64(data, 10, False, limit)
    parsable = j > i and value(r[i:j], 10) <= I64MAX
    if impl == "throw:insufficient":
        if not data or (parsable and j == len(data)):
            return None
        return "InsufficientInput although a terminated in-range number is present"
    if impl == "throw:parse":
        if data and not parsable:
            return None
        return "parse error although an in-range number is present"
    m = re.fullmatch(r"ok (-?\d+) (\d+) (-|[0-9a-f]+)", impl)
    if not m:
        return "unexpected output " + impl[:100]
    v, k, rest = int(m.group(1)), int(m.group(2)), unhx(m.group(3))
    if rest != data[k:] or not rest:
        return "remaining buffer wrong or empty after success"
    if not parsable or k != j or v != value(r[i:j], 10):
        return "returned %d/%d but the digit run denotes %s" % (v, k, value(r[i:j], 10) if j > i else None)
    return None


def parse_line(line):
    w = line.split()
    if w[0] == "i64":
        return ("i64", int(w[1]), int(w[2]) == 1, int(w[3]), unhx(w[4]))
    if w[0] == "ud":
        return ("ud", int(w[1]), unhx(w[2]))
    return (w[0], unhx(w[1]))


def oracle(line, impl):
    if impl.startswith("abort:"):
        return "sanitizer/abort: " + impl
    if impl.startswith("fail-touched"):
        return "a failed parse modified its result or the tokenizer: " + impl
    if impl in ("bad-op", "reject:nul"):
        return None
    p = parse_line(line)
    if p[0] == "i64":
        return check_i64(p[4], p[1], p[2], p[3], impl)
    if p[0] == "ud":
        return check_ud(p[2], p[1], impl)
    if p[0] == "po":
        return check_po(p[1], impl)
    if p[0] == "pi":
        return check_pi(p[1], impl)
    return None


def is_int64_ub_abort(impl):
    return impl.startswith("abort:") and "Tokenizer.cc" in impl and \
        ("signed_integer_overflow" in impl or "negation_of" in impl or "UndefinedBehaviorSanitizer" in impl)


def compare(line, impl, model):
    if model == "ub":
        return is_int64_ub_abort(impl)
    return impl == model


def classify(line, impl, why):
    p = parse_line(line)
    if p[0] == "i64" and is_int64_ub_abort(impl) and ub_zone(p[4], p[1], p[2], p[3]):
        return "C27-int64-min-ub"
    if p[0] == "pi" and why and "does not fit an int" in why:
        neg, i, j = lex_dec(p[1])
        if j > i:
            v = int(p[1][i:j])
            v = -v if neg else v
            if not (I32MIN <= v <= I32MAX):
                return "C27-parseint-wraps"
    return None


def nontrivial(line, impl, model):
    return impl.startswith("ok ")


def tag(line, impl, model):
    w = line.split()
    out = impl.split(" ")[0] if not impl.startswith("abort:") else "abort"
    if w[0] == "i64":
        b = int(w[1])
        bc = str(b) if b in (0, 8, 10, 16) else ("2..36" if 2 <= b <= 36 else "odd")
        lim = "npos" if int(w[3]) == NPOS else "0" if int(w[3]) == 0 else "n"
        return "i64 base=%s sign=%s limit=%s %s" % (bc, w[2], lim, out)
    return "%s %s" % (w[0], out)


# ---------------------------------------------------------------- generators

BASES_MAIN = [0, 8, 10, 16]
BASES_MORE = [2, 3, 7, 9, 11, 32, 36]
BASES_ODD = [1, -1, 37, 100, 2147483647, -2147483648, -10, 17]
TERMS = [b"", b" ", b"x", b"g", b"G", b"z", b"Z", b".", b"-", b"+", b"\r\n", b"\x00", b"\xff", b"8", b"9", b"a", b"f", b"0", b"/", b":", b"@", b"`", b"{", b"["]


def i64_line(base, sign, limit, data):
    return "i64 %d %d %d %s" % (base, 1 if sign else 0, limit, hx(data))


def limits_for(rng, n):
    return [NPOS, NPOS, NPOS, 0, 1, max(0, n - 1), n, n + 1, rng.range(0, n + 2), NPOS - 1, 268435455]


def numeral(rng, n, b, style):
    """bytes of n in base b (2..36) with random letter case; style adds leading zeros"""
    s = to_base(n, b, upper=rng.chance(1, 2))
    if rng.chance(1, 3):
        s = bytes((c ^ 0x20) if (65 <= c <= 90 or 97 <= c <= 122) and rng.chance(1, 2) else c for c in s)
    if style == 1:
        s = b"0" * rng.range(1, 3) + s
    return s


def boundary_values(b, delta):
    vals = set()
    targets = [1 << 63, (1 << 63) - 1, 1 << 64, 1 << 62, 1 << 31, 1 << 32, 0]
    # powers of the base around the int64 limit
    p = 1
    while p < (1 << 66):
        if p > (1 << 60):
            targets.append(p)
        p *= b
    for t in targets:
        for d in range(-delta, delta + 1):
            if t + d >= 0:
                vals.add(t + d)
    # the cutoff/cutlim decision points: cutoff*b + d for every digit d, for both cutoffs
    for lim in ((1 << 63), (1 << 63) - 1):
        q = lim // b
        for qq in (q - 1, q, q + 1):
            for d in range(b):
                if d < 4 or d > b - 4 or abs(d - lim % b) <= 2:
                    vals.add(qq * b + d)
    return sorted(vals)


def wrap_zone(data):
    neg, i, j = lex_dec(data)
    if j == i:
        return False
    v = int(data[i:j])
    v = -v if neg else v
    return not (I32MIN <= v <= I32MAX)


class Budget:
    """bounds the number of inputs of the former overflow zone per run (see ABORT_CAP); everything else is admitted"""

    def __init__(self, rng):
        self.rng = rng
        self.ub = 0

    def admit(self, line):
        w = line.split()
        if w[0] == "i64" and ub_zone(unhx(w[4]), int(w[1]), int(w[2]) == 1, int(w[3])):
            self.ub += 1
            return self.ub <= ABORT_CAP
        return True


def shrink(line):
    """delete chunks of the byte string; replace the limit by npos"""
    w = line.split()
    hi = len(w) - 1
    tk = w[hi]
    if w[0] == "i64" and w[3] != str(NPOS):
        yield " ".join(w[:3] + [str(NPOS)] + w[4:])
    if tk != "-":
        n = len(tk) // 2
        step = max(1, n // 2)
        while step >= 1:
            for off in range(0, n, step):
                cand = tk[:off * 2] + tk[(off + step) * 2:]
                yield " ".join(w[:hi] + [cand or "-"])
            step //= 2


def gen_valid(rng, n):
    for _ in range(n):
        k = rng.below(10)
        base = rng.choice(BASES_MAIN) if k < 7 else rng.choice(BASES_MORE) if k < 9 else rng.choice(BASES_ODD)
        eff = base
        pre = b""
        if base in (0, 16) and rng.chance(1, 3):
            pre = rng.choice([b"0x", b"0X"])
            eff = 16
        elif base == 0:
            eff = rng.choice([8, 10])
        nd = rng.choice([1, 1, 2, 3, 5, 10, 15, 18, 19, 20, 21, 22, 25, 40, 63, 64, 65])
        if 2 <= eff <= 36:
            al = b"0123456789abcdefghijklmnopqrstuvwxyzABCDEFGHIJKLMNOPQRSTUVWXYZ"
            digs = bytes(rng.choice([c for c in al if valid(c, eff)]) for _ in range(nd))
            if base == 0 and not pre:
                digs = (b"0" + digs) if eff == 8 else (bytes([rng.choice(b"123456789")]) + digs[1:])
        else:
            digs = rng.bytes(nd, b"0123456789azAZ")
        sg = rng.choice([b"", b"", b"-", b"+", b"-", b"--", b"+-", b" "])
        data = sg + pre + digs + rng.choice(TERMS) + (rng.bytes(rng.range(0, 4)) if rng.chance(1, 4) else b"")
        yield i64_line(base, rng.chance(2, 3), rng.choice(limits_for(rng, len(data))), data)


def gen_boundary(rng, tier):
    delta = 40 if tier == "thorough" else 2
    bases = list(range(2, 37)) if tier == "thorough" else [8, 10, 16, 2, 36, 7]
    for b in bases:
        vals = boundary_values(b, delta)
        for v in vals:
            for sg in (b"", b"-", b"+"):
                if tier != "thorough" and sg == b"+" and rng.chance(2, 3):
                    continue
                s = numeral(rng, v, b, rng.below(3))
                forms = [(b, s)]
                if b == 16:
                    forms.append((16, rng.choice([b"0x", b"0X"]) + s))
                    forms.append((0, rng.choice([b"0x", b"0X"]) + s))
                if b == 8:
                    forms.append((0, b"0" + s))
                if b == 10 and s[:1] != b"0":
                    forms.append((0, s))
                for (base, body) in forms:
                    data = sg + body + (rng.choice(TERMS) if rng.chance(1, 2) else b"")
                    yield i64_line(base, True if sg else rng.chance(1, 2), NPOS if rng.chance(3, 4) else rng.choice(limits_for(rng, len(data))), data)
        # one more digit after a boundary numeral (overflow must stay detected), and limits cutting the numeral
        for v in ((1 << 63) - 1, 1 << 63, (1 << 63) // b):
            s = to_base(v, b)
            for extra in (b"0", to_base(b - 1, b)):
                for sg in (b"", b"-"):
                    yield i64_line(b, True, NPOS, sg + s + extra)
            for lim in range(0, len(s) + 3):
                yield i64_line(b, True, lim, b"-" + s + b"7")
    # degenerate bases
    for base in BASES_ODD:
        for data in (b"0", b"1", b"00", b"-0", b"z", b"Z9", b"10", b"0x10", b"9223372036854775807", b"-9223372036854775808", b""):
            yield i64_line(base, True, NPOS, data)
    # prefix corner cases
    for base in (0, 16, 10, 8):
        for data in (b"0x", b"0X", b"0xg", b"0x-1", b"-0x", b"+0x1", b"0x0x1", b"00x1", b"0", b"-", b"+", b"+-1", b"08", b"09", b"0_", b"x1", b"0x\xff", b"0\xd8", b"0\xf8"):
            for lim in (NPOS, 1, 2, 3):
                yield i64_line(base, True, lim, data)
                yield i64_line(base, False, lim, data)


def mutate(rng, data):
    k = rng.below(5)
    if not data:
        return rng.bytes(1)
    if k == 0:
        i = rng.below(len(data))
        return data[:i] + bytes([data[i] ^ (1 << rng.below(8))]) + data[i + 1:]
    if k == 1:
        return data[:rng.below(len(data) + 1)]
    if k == 2:
        i = rng.below(len(data))
        return data[:i] + data[i:i + rng.range(1, 3)] + data[i:]
    if k == 3:
        i = rng.below(len(data) + 1)
        return data[:i] + rng.choice([b"-", b"+", b"0x", b" ", b"0", b"\x00", b"9", b"f"]) + data[i:]
    i = rng.below(len(data))
    return data[:i] + data[i + 1:]


def gen_mut(rng, seeds, n):
    for _ in range(n):
        w = rng.choice(seeds).split()
        data = mutate(rng, unhx(w[4]))
        yield "i64 %s %s %s %s" % (w[1], w[2], w[3] if rng.chance(1, 2) else str(rng.choice(limits_for(rng, len(data)))), hx(data))


def cstr(b):
    return b.replace(b"\x00", b"\x01")


def gen_header(rng, tier):
    pts = [0, 1, 9, 10, I32MAX, I32MAX + 1, -I32MIN, -I32MIN + 1, 1 << 32, (1 << 32) + 1, (1 << 32) - 1, (1 << 33) + 5, 4294967297,
           I64MAX, I64MAX + 1, I64MAX - 1, 1 << 64, (1 << 64) + 1, (1 << 64) - 1, 10 ** 19, 10 ** 20, 10 ** 30, 3 * (1 << 32) + 7,
           (1 << 63) + (1 << 32) + 3, 99999999999999999999]
    delta = 12 if tier == "thorough" else 2
    for v in pts:
        for d in range(-delta, delta + 1):
            if v + d < 0:
                continue
            for sg in (b"", b"-", b"+"):
                s = sg + str(v + d).encode()
                for op in ("po", "pi"):
                    yield "%s %s" % (op, hx(s))
                    if d == 0:
                        yield "%s %s" % (op, hx(b" " + s + b";"))
                        yield "%s %s" % (op, hx(b"000" + s))
    fixed = [b"", b" ", b"-", b"+", b"+-1", b"--1", b" 0", b"-0", b"+0", b"0", b"00", b"0x10", b"1e3", b"\t\n\v\f\r 12", b"1 2", b"12abc",
             b"abc", b"\xa0" + b"1", b"\x85" + b"1", b" +7x", b"- 1", b"0-1", b"1-", b"\x1c1", b"\x0e1", b"\x081"]
    for s in fixed:
        yield "po " + hx(s)
        yield "pi " + hx(s)
    n = 4000 if tier == "thorough" else 500
    for _ in range(n):
        ws = rng.choice([b"", b"", b" ", b"\t", b"  ", b"\r\n"])
        sg = rng.choice([b"", b"", b"-", b"+"])
        nd = rng.choice([1, 2, 5, 9, 10, 11, 18, 19, 20, 21, 30])
        ds = rng.bytes(nd, b"0123456789")
        tail = rng.choice([b"", b"", b" ", b"x", b"-5", b".5", b",", b"\r\n"])
        s = cstr(ws + sg + ds + tail)
        if rng.chance(1, 4):
            s = cstr(mutate(rng, s))
        yield "%s %s" % (rng.choice(["po", "pi"]), hx(s))


def gen_udec(rng, tier):
    for s in (b"", b"1", b"1 ", b"12;", b"x", b"-1 ", b"+1 ", b" 1 ", b"0x10 ", b"9223372036854775807 ", b"9223372036854775808 ",
              b"9223372036854775807", b"00000000000000000000000001 ", b"18446744073709551616;", b"007\r\n"):
        for lim in (NPOS, 0, 1, 2, len(s), len(s) + 1, max(0, len(s) - 1)):
            yield "ud %d %s" % (lim, hx(s))
    n = 2000 if tier == "thorough" else 300
    for _ in range(n):
        ds = rng.bytes(rng.choice([1, 2, 3, 10, 18, 19, 20, 25]), b"0123456789")
        s = ds + rng.choice([b"", b" ", b"\r\n", b";", b"a", b"-", b"\xff"])
        if rng.chance(1, 5):
            s = mutate(rng, s)
        yield "ud %d %s" % (rng.choice(limits_for(rng, len(s))), hx(s))


def exhaustive_small(tier):
    """every string of length <= L over a small alphabet, every main base, both sign settings (thorough)"""
    al = b"-+0x19afg "
    L = 4 if tier == "thorough" else 2
    def rec(prefix, n):
        if n == 0:
            yield prefix
            return
        for c in al:
            yield from rec(prefix + bytes([c]), n - 1)
    bases = [0, 8, 10, 16] if tier == "thorough" else [0, 16]
    for n in range(0, L + 1):
        for s in rec(b"", n):
            for base in bases:
                for sign in (True, False):
                    yield i64_line(base, sign, NPOS, s)
            if tier == "thorough" and n >= 2:
                yield i64_line(0, True, n - 1, s)


def cases(rng, tier):
    budget = Budget(rng.fork("budget"))
    out = []

    def emit(gen):
        for l in gen:
            if budget.admit(l):
                out.append(l)

    emit(exhaustive_small(tier))
    emit(gen_boundary(rng.fork("boundary"), tier))
    nvalid = 60000 if tier == "thorough" else 5000
    emit(gen_valid(rng.fork("valid"), nvalid))
    seeds = [l for l in out if l.startswith("i64")]
    emit(gen_mut(rng.fork("mut"), seeds, 40000 if tier == "thorough" else 4000))
    r2 = rng.fork("random")
    for _ in range(10000 if tier == "thorough" else 800):
        data = r2.bytes(r2.range(0, 24), r2.choice([None, b"0123456789abcdefxX-+ ", b"01"]))
        emit([i64_line(r2.choice(BASES_MAIN + BASES_MORE + BASES_ODD), r2.chance(1, 2), r2.choice(limits_for(r2, len(data))), data)])
    emit(gen_header(rng.fork("header"), tier))
    emit(gen_udec(rng.fork("udec"), tier))
    return out


def exhaustive(tier):
    return True   # all strings of length <= 2 (quick) / <= 4 (thorough) over the alphabet "-+0x19afg " for the main bases
