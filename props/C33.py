"""C33 Error pages never reflect client input unescaped."""
import os, re, shlex, subprocess
from concurrent.futures import ThreadPoolExecutor
from vf.util import VERIF, hx, unhx
from vf.stage import BuildError

ID = "C33"


def la_expand(d, tok, seen):
    """what libtool would put on the command line for a .la convenience library: its archive and its dependency_libs"""
    path = os.path.normpath(os.path.join(d, tok))
    if path in seen:
        return []
    seen.add(path)
    text = open(path).read()
    old = re.search(r"^old_library='([^']*)'", text, re.M).group(1)
    deps = re.search(r"^dependency_libs='([^']*)'", text, re.M).group(1).split()
    res = [os.path.join(os.path.dirname(path), ".libs", old)]
    for dep in deps:
        if dep.endswith(".la"):
            res += la_expand("/", dep, seen) if os.path.isabs(dep) else la_expand(d, dep, seen)
        else:
            res.append(dep)
    return res


def link_whole_squid(stage, out, replace, extra_objs):
    """link like the tree links `squid`, with some objects replaced: replace = {token in the recipe: replacement or None}.
    The recipe is read from make; libtool itself is bypassed (its shell script needs a minute for this command line)."""
    d = os.path.join(stage.repo, "src")
    r = subprocess.run(["make", "-n", "-W", "main.cc", "squid"], cwd=d, capture_output=True, text=True)
    lines = [l for l in r.stdout.splitlines() if "-o squid " in l and "--mode=link" in l]
    if not lines:
        raise BuildError("no link recipe for squid\n" + r.stderr[-2000:])
    toks = shlex.split(lines[0].strip())
    toks = toks[toks.index("--mode=link") + 1:]
    res, skip, seen = [], False, set()
    for tk in toks:
        if skip:
            skip = False
            continue
        if tk == "-o":
            res += ["-o", out]
            skip = True
            continue
        if tk in ("-Werror", "-export-dynamic", "force", "-dlopen"):
            continue    # "-dlopen force" = libtool's preloaded-symbols table; the harness supplies an empty one
        if tk in replace:
            if replace[tk]:
                res.append(replace[tk])
            continue
        if tk.endswith(".la"):
            res += la_expand(d, tk, seen)
            continue
        res.append(tk)
        if tk == "globals.o":
            res += list(extra_objs)
    res += ["-fsanitize=address,undefined"]
    r = subprocess.run(res, cwd=d, capture_output=True, text=True)
    if r.returncode != 0:
        raise BuildError("link failed:\n%s\n%s" % (" ".join(shlex.quote(c) for c in res)[:3000], r.stderr[-5000:]))
    return out


def build_exe(stage):
    built = getattr(stage, "built", None)
    if built is None:
        built = stage.built = {}
    if "c33" in built:
        return built["c33"]
    # main.o of the tree with its main() renamed (the harness brings its own)
    o2 = os.path.join(stage.work, "main_renamed.o")
    subprocess.run(["objcopy", "--redefine-sym", "main=squid_main_unused", os.path.join(stage.repo, "src", "main.o"), o2], check=True)
    with ThreadPoolExecutor(max_workers=2) as ex:
        f1 = ex.submit(stage.compile, os.path.join(VERIF, "harness", "c33.cc"), None, True, ["-O0", "-g1"])
        f3 = ex.submit(stage.compile, "src/html/Quoting.cc")
        o1, o3 = f1.result(), f3.result()
    exe = link_whole_squid(stage, os.path.join(stage.work, "c33"), {"errorpage.o": None, "main.o": None, "html/libhtml.la": o3}, [o1, o2])
    built["c33"] = exe
    return exe


# ------------------------------------------------------------------------------------------------------------------ spec
from vf.harness import ProcHarness

PROP_MODULE = "SquidModel.Properties.C33"
MODEL = "c33"
GEN = ["error_macros"]
RULE = ("x: ErrorState::compile() run in-process on templates (every %X for all 255 letters, the shipped templates, random mixes incl. "
        "nested %D/%S, bare % at the end) x transactions whose request line, headers, host, method, user name, FTP/DNS texts carry "
        "markup markers, in page and deny_info mode; w: the rebuilt squid end to end on hostile requests per reachable template; "
        "non-trivial = a marker from a hostile field occurs (escaped) in the produced text; distinct = distinct lines")
TRUSTED = ["modelled, not verified: the value sources themselves (request->pack, urlCanonicalFakeHttps, Dump, the FTP listing generator "
           "...) are opaque: the harness reads their values off the live objects with the same expressions; "
           "the source classification (config/callee vs. hostile) in SquidModel.ErrPage.Expand.classOf is reviewed by hand"]
ASSUMPTIONS = ["templates without @Squid{...} logformat sequences (their output is appended unquoted by compileLogformatCode; no shipped template uses them)",
               "NUL-free source values (C strings)"]
MANIFEST = {
    "engine": "e2e",
    "text": "partial: theorems client_controlled_macros_quoted (checker over the regenerated macro table), no_raw_client_markup_in_page, "
            "client_text_is_well_quoted and skeleton_independent_of_client_bytes hold for the model (the C++ switch of compileLegacyCode parsed "
            "into an AST and interpreted, the epilogue, the template walker, %D/%S nesting) for every template, transaction and mode; the model is "
            "tied to the real ErrorState::compile by an in-process differential run under ASan/UBSan and to the rebuilt binary by hostile requests "
            "per reachable error template, each judged by a direct marker oracle",
    "note": "trusted: Lean kernel, the C++-to-AST translator, harness, python rig; not modelled: where squid fills the ErrorState fields from "
            "(covered only by the end-to-end scenarios), @Squid{} logformat codes, the FTP listing generator",
    "technique": "Lean 4 proof (verified abstract checker + decide over the regenerated AST) + translator + in-process differential run + end-to-end scenarios",
}

STATE = {}
MARK = b"vfq7"
LETTERS = b"aAbBcDeEfFgGhHiIlLmMoOpPRsStTuUwWxzZ"


class Harness:
    def __init__(self, stage):
        self.exe = build_exe(stage)
        self.proc = ProcHarness([self.exe])
        self.stage = stage
        self.crashes = 0
        STATE["exe"] = self.exe
        STATE["stage"] = stage
        self.e2e = None

    def run(self, lines):
        xs = [(i, l) for i, l in enumerate(lines) if not l.startswith("w ")]
        ws = [(i, l) for i, l in enumerate(lines) if l.startswith("w ")]
        out = [None] * len(lines)
        if xs:
            for (i, _), o in zip(xs, self.proc.run([l for _, l in xs])):
                out[i] = o
            self.crashes = self.proc.crashes
        if ws:
            if self.e2e is None:
                self.e2e = E2E(self.stage)
            for (i, _), o in zip(ws, self.e2e.run([l for _, l in ws])):
                out[i] = o
        return out

    def close(self):
        if self.e2e is not None:
            self.e2e.close()
            self.e2e = None


def build(stage):
    return Harness(stage)


def envs_for(specs):
    """ask the real code what every source evaluates to for each transaction spec"""
    h = ProcHarness([STATE["exe"]])
    return h.run(["e " + s for s in specs])


def marker(key, prefix=MARK):
    k = key.encode()
    return b"x<" + prefix + k + b">\"" + prefix + k + b"\"'" + prefix + k + b"'&" + prefix + k + b";y"


def hostile(rng, key, prefix=MARK):
    k = rng.below(10)
    if k < 5:
        return marker(key, prefix)
    if k == 5:
        return b"plain-" + key.encode()
    if k == 6:
        return b"&lt;" + prefix + key.encode() + b"&amp;&#60;<" + prefix + b">"
    if k == 7:
        return bytes(rng.range(1, 255) for _ in range(rng.range(0, 24))) + b"<" + prefix + b"r>"
    if k == 8:
        return b""
    return (marker(key, prefix) + b" ") * rng.choice([10, 50, 200])


URLS = [b"http://example.com/", b"http://example.com:8080/pa<vfq7u>th?q=\"vfq7u\"&x='vfq7u'", b"http://us<vfq7i>:pw@host.example/x",
        b"ftp://ftp.example/%2fetc/<vfq7f>", b"ftp://user'vfq7n':p@ftp.example/dir/", b"https://secure.example/&vfq7s;", b"http://[::1]:81/\"vfq7v\"",
        b"http://h.example/" + b"a" * 3000 + b"<vfq7l>", b"urn:x<vfq7>", b"example.com:443", b"http://<vfq7h>/", b"/relative<vfq7>", b"*", b"http://h.example/%3Cvfq7%3E%25"]
FIELDS = ["method", "host", "path", "userinfo", "hier", "extacl", "hdr", "authuser", "url", "xerrno", "ftpreq", "ftprep", "ftpcwd", "ftpmsg", "ftplist",
          "dns", "errmsg", "detailb", "detailv", "denymsg", "admin", "emaildata", "htmltext", "style", "type"]
CFG_FIELDS = {"extacl", "ftplist", "htmltext", "style"}       # emitted raw by design (administrator / callee-encoded): marked with another prefix
TEXT = [b"<p>", b"</p>", b"<a href=\"", b"\">", b"font-size: 100%;", b" ", b"&nbsp;", b"%%", b"text", b"<hr>\n", b"<pre>", b"</pre>", b"mailto:", b"@", b"{", b"%;"]


def gen_template(rng, letters=LETTERS, n=None):
    parts = []
    for _ in range(n if n is not None else rng.range(0, 12)):
        k = rng.below(10)
        if k < 4:
            parts.append(rng.choice(TEXT))
        elif k < 9:
            parts.append(b"%" + bytes([rng.choice(letters)]))
        else:
            parts.append(b"%" + bytes([rng.range(1, 255)]))
    if rng.chance(1, 8):
        parts.append(b"%")
    t = b"".join(parts)
    return t.replace(b"@Squid{", b"@Squid-").replace(MARK, b"vfq-")


def gen_spec(rng, dense=False):
    f = []
    if rng.chance(4, 5):
        f.append(("req", rng.choice(URLS)))
    for name in FIELDS:
        if not rng.chance(1, 2 if dense else 4):
            continue
        if name == "xerrno":
            v = str(rng.choice([0, 1, 2, 13, 110, 111, 113])).encode()
        elif name == "type":
            v = str(rng.range(1, 40)).encode()
        elif name == "emaildata":
            v = b"1"
        elif name == "hdr":
            for _ in range(rng.range(1, 3)):
                f.append(("hdr", rng.choice([b"X-Evil", b"Cookie", b"User-Agent", b"Referer", b"Authorization", b"Host"]) + b":" + hostile(rng, "hdr").replace(b"\0", b"")))
            continue
        elif name == "detailv":
            v = gen_template(rng) if rng.chance(2, 3) else b"detail text %D %S %U"
        elif name == "method":
            v = rng.choice([b"GET", b"POST", b"CONNECT", b"PURGE", b"M'vfq7m'&vfq7m;", hostile(rng, "m")]) or b"GET"
        elif name == "ftpmsg":
            v = b"\n".join(hostile(rng, "ftpmsg") for _ in range(rng.range(1, 3)))
        else:
            v = hostile(rng, name, b"cfgq7" if name in CFG_FIELDS else MARK)
        f.append((name, v))
    return ",".join("%s=%s" % (k, hx(v)) for k, v in f) or "."


SIG_DEFAULT = b"\n<br>\n<hr>\n<div id=\"footer\">\nGenerated %T by %h (%s)\n</div>\n</body></html>\n"


def shipped_templates(stage):
    d = os.path.join(stage.repo, "errors", "templates")
    res = []
    for n in sorted(os.listdir(d)):
        if n.startswith("ERR_"):
            with open(os.path.join(d, n), "rb") as fh:
                res.append((n, fh.read()))
    return res


def cases(rng, tier):
    stage = STATE["stage"]
    thorough = tier == "thorough"
    todo = []   # (flags, tmpl, sig, spec)
    dense = [gen_spec(rng, dense=True) for _ in range(6 if thorough else 3)]
    # every letter, both modes, with and without a request
    for b in range(1, 256):
        for flags in ("010", "110", "000", "011"):
            for s in (dense[:2] if not thorough else dense) + ["."]:
                if b in LETTERS or (flags == "010" and s != ".") or thorough:
                    todo.append((flags, b"<i>%" + bytes([b]) + b"</i>", SIG_DEFAULT, s))
    # shipped templates
    for name, text in shipped_templates(stage):
        if b"\0" in text:
            continue
        for _ in range(6 if thorough else 2):
            todo.append((rng.choice(["010", "010", "000"]), text, SIG_DEFAULT, gen_spec(rng, dense=rng.chance(1, 2))))
    # random templates and signatures (nesting of %D / %S)
    for i in range(6000 if thorough else 700):
        sig = SIG_DEFAULT if rng.chance(1, 2) else gen_template(rng, b"SDUhTs%Rx", rng.range(0, 5))
        flags = rng.choice(["010", "010", "110", "000", "100", "011", "001", "111"])
        letters = LETTERS if rng.chance(3, 4) else b"DSDSUROg"
        todo.append((flags, gen_template(rng, letters), sig, gen_spec(rng, dense=rng.chance(1, 3))))
    # nesting: what the last macro of the detail text / signature leaves in the function-static buffer
    for last in LETTERS + b"%;":
        for flags in ("010", "110"):
            spec = "req=%s,method=%s,detailb=%s,detailv=%s" % (hx(URLS[1]), hx(b"M'vfq7m'&vfq7m;"), hx(b"brief"), hx(b"detail: %U %" + bytes([last]) + b" end"))
            todo.append((flags, b"<p>%D</p>%S", b"sig %h %" + bytes([last]) + b".", spec))
    specs = sorted(set(t[3] for t in todo))
    envs = dict(zip(specs, envs_for(specs)))
    for flags, tmpl, sig, spec in todo:
        env = envs[spec]
        if env.startswith("@"):
            yield "x %s %s %s %s %s" % (flags, hx(tmpl), hx(sig), spec, env)
    for l in e2e_cases(rng, tier):
        yield l


# ---- direct oracle -----------------------------------------------------------------------------------------------------------

RAW = [c + MARK for c in (b"<", b">", b"\"", b"'", b"&")]


def raw_count(page):
    return sum(page.count(r) for r in RAW)


def oracle(line, impl):
    if impl.startswith("abort"):
        return "sanitizer/abort: " + impl
    if line.startswith("w "):
        return e2e_oracle(line, impl)
    if impl in ("bad-op", "bad-spec", "bad-env"):
        return "no usable observation: " + impl
    if impl.startswith("reject:"):
        return None
    try:
        page = unhx(impl)
    except ValueError:
        return "unparsable output " + impl[:60]
    n = raw_count(page)
    if n:
        i = min(page.find(r) for r in RAW if r in page)
        return "a marker from a hostile source appears with its raw markup character in the output: ...%r..." % page[max(0, i - 30):i + 30]
    return None


def nontrivial(line, impl, model):
    if line.startswith("w "):
        return " esc=0" not in impl and "esc=" in impl
    try:
        return MARK in unhx(impl)
    except ValueError:
        return False


def tag(line, impl, model):
    t = line.split(" ")
    if t[0] == "w":
        return "e2e %s -> %s" % (t[1], " ".join(impl.split(" ")[:2]))
    try:
        page = unhx(impl)
    except ValueError:
        return "x " + impl[:20]
    tm = unhx(t[2])
    kind = "single" if len(tm) <= 10 else "shipped" if b"<!DOCTYPE" in tm[:200] or b"<html" in tm[:300] else "random"
    return "x %s %s %s" % ("deny" if t[1][0] == "1" else "page", kind, "reflects" if MARK in page else "no-marker")


def classify(line, impl, why):
    return None     # no known findings: C33-nested-static-buffer (f565422) and C33-ftp-listing-raw-line (5325ceb) are fixed; their witnesses stay as cases


def exhaustive(tier):
    return True    # every macro letter 1..255 in both modes


# ------------------------------------------------------------------------------------------------------------------ end to end
import base64, shutil, socket, threading, time
from e2e import rig

ALL_LETTERS = "aAbBcDeEfFgGhHiIlLmMoOpPRsStTuUwWxzZ"
VF_ALL = "<html><body>\n" + "".join("<div id=\"vf-%s\">%%%s</div>\n" % (c, c) for c in ALL_LETTERS) + "</body></html>\n"
REDIR = "http://redir.test/?u=%u&U=%U&m=%M&H=%H&p=%p&P=%P&R=%R&o=%o&a=%a&i=%i&s=%s&B=%B"
# scenario kind -> (expected X-Squid-Error page name, template the page is built from)
KINDS = {
    "vfall-path": "ERR_VF_ALL", "vfall-hdr": "ERR_VF_ALL", "vfall-user": "ERR_VF_ALL", "vfall-method": "ERR_VF_ALL",
    "redir": "302", "denied": "ERR_ACCESS_DENIED", "dns": "ERR_DNS_FAIL", "dns-host": "ERR_DNS_FAIL", "connect": "ERR_CONNECT_FAIL",
    "toobig": "ERR_TOO_BIG", "unsup-method": "ERR_UNSUP_REQ", "invalid-req": "ERR_INVALID_URL", "invalid-url": "ERR_INVALID_URL",
    "httpver": "ERR_UNSUP_HTTPVERSION", "proto": "ERR_PROTOCOL_UNKNOWN",
    "ftp-deny": "ERR_FTP_FORBIDDEN", "ftp-list": "ERR_DIR_LISTING", "ftp-cwd": "ERR_FTP_NOT_FOUND", "ftp-user": "ERR_DIR_LISTING",
    "ftp-list-long": "ERR_DIR_LISTING", "ftp-list-junk": "ERR_DIR_LISTING",
}
# a request-line payload of arbitrary bytes may also be refused earlier, with one of these pages
EARLY = ("ERR_INVALID_REQ", "ERR_INVALID_URL", "ERR_PROTOCOL_UNKNOWN")


class DnsStub(threading.Thread):
    """answers every query with NXDOMAIN at once"""
    def __init__(self):
        super().__init__(daemon=True)
        self.s = socket.socket(socket.AF_INET, socket.SOCK_DGRAM)
        self.ok = True
        try:
            self.s.bind(("127.0.0.1", 53))
        except OSError:
            self.ok = False

    def run(self):
        while self.ok:
            try:
                d, a = self.s.recvfrom(2048)
                self.s.sendto(d[:2] + b"\x81\x83" + d[4:6] + b"\0\0\0\0\0\0" + d[12:], a)
            except OSError:
                return

    def close(self):
        self.ok = False
        self.s.close()


class FtpStub(threading.Thread):
    """FTP server whose texts and listing carry the payload; the USER name prefix selects the behaviour"""
    def __init__(self):
        super().__init__(daemon=True)
        self.s = socket.socket()
        self.s.setsockopt(socket.SOL_SOCKET, socket.SO_REUSEADDR, 1)
        self.s.bind(("127.0.0.1", 0))
        self.s.listen(64)
        self.port = self.s.getsockname()[1]
        self.payload = {}     # user -> payload bytes

    def run(self):
        while True:
            try:
                c, _ = self.s.accept()
            except OSError:
                return
            threading.Thread(target=self.serve, args=(c,), daemon=True).start()

    def serve(self, c):
        try:
            self._serve(c)
        except OSError:
            pass
        finally:
            c.close()

    def _serve(self, c):
        c.settimeout(10)
        f = c.makefile("rb")
        say = lambda b: c.sendall(b + b"\r\n")
        say(b"220 ready")
        data, mode, mark = None, "list", b""
        while True:
            l = f.readline()
            if not l:
                break
            l = l.rstrip(b"\r\n")
            cmd = l.split(b" ")[0].upper()
            arg = l[len(cmd) + 1:]
            if cmd == b"USER":
                mode = arg.split(b"-")[0].decode("latin-1")
                mark = self.payload.get(arg.split(b"-")[1] if b"-" in arg else b"", b"").replace(b"\r", b"").replace(b"\n", b"")
                say(b"331 need password")
            elif cmd == b"PASS":
                if mode == "deny":
                    say(b"530 Login incorrect " + mark)
                else:
                    say(b"230-hello " + mark)
                    say(b"230 logged in")
            elif cmd == b"SYST":
                say(b"215 UNIX Type: L8")
            elif cmd == b"PWD":
                say(b'257 "/" is cwd')
            elif cmd == b"TYPE":
                say(b"200 ok")
            elif cmd == b"CWD":
                if mode == "cwdfail":
                    say(b"550 no such dir " + mark)
                else:
                    say(b"250-cwd msg " + mark)
                    say(b"250 ok")
            elif cmd in (b"MDTM", b"SIZE"):
                say(b"550 no " + mark)
            elif cmd == b"EPSV":
                say(b"500 no epsv")
            elif cmd == b"PASV":
                data = socket.socket()
                data.bind(("127.0.0.1", 0))
                data.listen(1)
                p = data.getsockname()[1]
                say(b"227 Entering Passive Mode (127,0,0,1,%d,%d)" % (p >> 8, p & 255))
            elif cmd in (b"LIST", b"NLST", b"RETR"):
                if cmd == b"RETR" or data is None:
                    say(b"550 not a plain file " + mark)
                    continue
                say(b"150 here it comes")
                data.settimeout(10)
                d, _ = data.accept()
                short = mark[:150]      # well-formed entries (a line over 1024 bytes is a different code path: listlong)
                if mode == "listlong":
                    short = (mark + b"-") * (1100 // (len(mark) + 1) + 1)
                if mode == "listjunk":
                    d.sendall(b"this is not a listing line " + mark + b"\r\n")
                mark = short
                d.sendall(b"-rw-r--r--   1 ow" + mark + b"ner group       12 Jan  1  2020 fi" + mark + b"le.txt\r\n"
                          b"drwxr-xr-x   2 owner group     4096 Jan  1  2020 di" + mark + b"r\r\n"
                          b"lrwxrwxrwx   1 owner group       12 Jan  1  2020 li" + mark + b"nk -> ta" + mark + b"rget\r\n"
                          b"total garbage " + mark + b" line\r\n")
                d.close()
                data.close()
                data = None
                say(b"226 done")
            elif cmd == b"QUIT":
                say(b"221 bye")
                break
            else:
                say(b"500 what " + mark)

    def close(self):
        self.s.close()


E2E_CONF = """
error_directory {dir}/errs
dns_nameservers 127.0.0.1
dns_timeout 2 seconds
request_body_max_size 64 bytes
ftp_passive on
ftp_epsv off
auth_param basic program {dir}/auth.py
auth_param basic children 2
auth_param basic realm vf
acl authd proxy_auth REQUIRED
acl vfauth urlpath_regex ^/vfall/auth
acl vfall urlpath_regex ^/vfall
acl vfredir urlpath_regex ^/vfredir
acl blocked dstdomain .blocked.test
deny_info ERR_VF_ALL vfall
deny_info 302:%s vfredir
cache deny all
""" % REDIR
E2E_ACCESS = """http_access deny vfauth !authd
http_access deny vfall
http_access deny vfredir
http_access deny blocked
http_access allow all
"""


class E2E:
    def __init__(self, stage):
        self.dns = DnsStub()
        self.dns.start()
        self.ftp = FtpStub()
        self.ftp.start()
        self.origin = rig.Origin()
        self.squid = rig.Squid(stage, conf=E2E_CONF, access=E2E_ACCESS)
        d = self.squid.dir
        shutil.copytree(os.path.join(stage.repo, "errors", "templates"), d + "/errs")
        with open(d + "/errs/ERR_VF_ALL", "w") as f:
            f.write(VF_ALL)
        with open(d + "/auth.py", "w") as f:
            f.write("#!/usr/bin/python3 -u\nimport sys\nfor l in sys.stdin:\n    sys.stdout.write('OK\\n'); sys.stdout.flush()\n")
        os.chmod(d + "/auth.py", 0o755)
        subprocess.run(["chmod", "-R", "a+rX", d])
        self.squid.start(wait=90)   # a loaded machine needs more than the default 10 s
        self.n = 0
        self.lock = threading.Lock()

    def request(self, kind, pay, sid):
        op = self.origin.port
        q = lambda b: b"".join(bytes([c]) if 32 < c < 127 else b"%%%02X" % c for c in b)   # keep the request line parsable
        one = lambda b: b.replace(b"\r", b" ").replace(b"\n", b" ")
        host = b"127.0.0.1:%d" % op
        if kind == "vfall-path":
            return b"GET http://%s/vfall/%s/%s?q=%s HTTP/1.1\r\nHost: %s\r\n\r\n" % (host, sid, q(pay), q(pay), host)
        if kind == "vfall-hdr":
            return b"GET http://%s/vfall/%s HTTP/1.1\r\nHost: %s\r\nX-Evil: %s\r\nCookie: %s\r\nUser-Agent: %s\r\nReferer: %s\r\n\r\n" % (host, sid, host, one(pay), one(pay), one(pay), one(pay))
        if kind == "vfall-user":
            return b"GET http://%s/vfall/auth/%s HTTP/1.1\r\nHost: %s\r\nProxy-Authorization: Basic %s\r\n\r\n" % (host, sid, host, base64.b64encode(pay.replace(b":", b";") + b":pw"))
        if kind == "vfall-method":
            m = bytes(c for c in pay if c in b"!#$%&'*+-.^_`|~0123456789ABCDEFGHIJKLMNOPQRSTUVWXYZabcdefghijklmnopqrstuvwxyz") or b"M"
            return b"%s http://%s/vfall/%s HTTP/1.1\r\nHost: %s\r\n\r\n" % (m, host, sid, host)
        if kind == "redir":
            return b"GET http://%s/vfredir/%s/%s HTTP/1.1\r\nHost: %s\r\nX-Evil: %s\r\n\r\n" % (host, sid, q(pay), host, one(pay))
        if kind == "denied":
            return b"GET http://x.blocked.test/%s/%s HTTP/1.1\r\nHost: x.blocked.test\r\nX-Evil: %s\r\n\r\n" % (sid, q(pay), one(pay))
        if kind == "dns":
            return b"GET http://nonexistent-%s.invalid/%s HTTP/1.1\r\nHost: x\r\n\r\n" % (sid, q(pay))
        if kind == "dns-host":
            h = bytes(c for c in pay if c not in b" /?#@:[]\\\r\n\t%" and 32 < c < 127) or b"h"
            return b"GET http://%s.%s.invalid/ HTTP/1.1\r\nHost: x\r\n\r\n" % (h, sid)
        if kind == "connect":
            return b"GET http://127.0.0.1:%d/%s/%s HTTP/1.1\r\nHost: x\r\n\r\n" % (self.closed_port, sid, q(pay))
        if kind == "toobig":
            return b"POST http://%s/%s/%s HTTP/1.1\r\nHost: %s\r\nContent-Length: 200\r\n\r\n%s" % (host, sid, q(pay), host, b"a" * 200)
        if kind == "unsup-method":
            return b"DELETE ftp://127.0.0.1:%d/%s/%s HTTP/1.1\r\nHost: x\r\n\r\n" % (op, sid, q(pay))
        if kind == "invalid-req":
            return b"GET /%s/%s HTTP/1.1 junk\r\nHost: x\r\n\r\n" % (sid, q(pay))
        if kind == "invalid-url":
            return b"GET %s://%s/%s HTTP/1.1\r\nHost: x\r\n\r\n" % (q(pay).replace(b"/", b"") or b"x", sid, q(pay))
        if kind == "httpver":
            return b"GET http://%s/%s/%s HTTP/3.7\r\nHost: x\r\n\r\n" % (host, sid, q(pay))
        if kind == "proto":
            return b"%s;x http://%s/%s HTTP/1.1\r\nHost: x\r\n\r\n" % (q(pay).replace(b"/", b"") or b"x", host, sid)
        if kind.startswith("ftp-"):
            mode = {"ftp-deny": b"deny", "ftp-list": b"list", "ftp-cwd": b"cwdfail", "ftp-user": b"list", "ftp-list-long": b"listlong", "ftp-list-junk": b"listjunk"}[kind]
            self.ftp.payload[sid] = pay
            user = mode + b"-" + sid
            if kind == "ftp-user":
                user += b"-" + bytes(c for c in pay if c not in b" /?#@:[]\\\r\n\t%" and 32 < c < 127)[:150]
            # the path goes to the stub in CWD commands: printable bytes only, so that the FTP dialogue itself stays well-formed
            path = bytes(c for c in pay if 32 < c < 127 and c not in b"/%?#")[:200]
            return b"GET ftp://%s:pw@127.0.0.1:%d/d%s/ HTTP/1.1\r\nHost: x\r\n\r\n" % (user, self.ftp.port, q(path))
        return None

    def one(self, line):
        try:
            _, kind, payhex = line.split(" ")[:3]
            pay = unhx(payhex)
        except ValueError:
            return "bad-op"
        if kind not in KINDS or b"\0" in pay:
            return "bad-op"
        with self.lock:
            self.n += 1
            sid = b"q%d" % self.n
        self.closed_port = getattr(self, "closed_port", None) or rig.free_port()
        for attempt in range(3):
            req = self.request(kind, pay, sid)
            c = rig.Client(self.squid.port, timeout=15)
            c.send(req)
            r = c.response()
            c.close()
            if r is not None and r["complete"]:
                break
        if not self.squid.alive():
            return "abort:squid-died " + " ".join(self.squid.problems())[:200]
        if r is None:
            return "no-response"
        text = r["body"] + b"\n" + (rig.hget(r["hdrs"], "location") or "").encode("latin-1")
        name = (rig.hget(r["hdrs"], "x-squid-error") or "?").split(" ")[0]
        raw = raw_count(text)
        return "%d %s raw=%d esc=%d" % (r["status"], name, raw, text.count(MARK) - raw)

    def run(self, lines):
        with ThreadPoolExecutor(max_workers=8) as ex:
            return list(ex.map(self.one, lines))

    def close(self):
        self.squid.stop()
        self.origin.close()
        self.dns.close()
        self.ftp.close()


def e2e_payload(rng):
    k = rng.below(8)
    if k < 4:
        return marker("e")
    if k == 4:
        return b"<script>alert('" + MARK + b"')</script><" + MARK + b">"
    if k == 5:
        return b"\"><img src=x onerror=" + MARK + b"><" + MARK + b" a='"
    if k == 6:
        return bytes(rng.range(1, 255) for _ in range(rng.range(1, 20))) + b"<" + MARK + b"r>&" + MARK + b";"
    return (marker("L") + b"-") * rng.choice([5, 40])


def e2e_template(kind):
    stage = STATE["stage"]
    name = KINDS[kind]
    if name == "ERR_VF_ALL":
        return VF_ALL.encode()
    if name == "302":
        return REDIR.encode()
    with open(os.path.join(stage.repo, "errors", "templates", name), "rb") as f:
        return f.read()


def e2e_cases(rng, tier):
    n = 40 if tier == "thorough" else 5
    for kind in sorted(KINDS):
        t = e2e_template(kind)
        for i in range(n):
            yield "w %s %s %s" % (kind, hx(e2e_payload(rng)), hx(t))


def e2e_oracle(line, impl):
    kind = line.split(" ")[1]
    m = re.match(r"(\d+) (\S+) raw=(\d+) esc=(\d+)$", impl)
    if not m:
        return "no usable observation: " + impl
    alt = ("ERR_FTP_FAILURE",) if kind.startswith("ftp-") else EARLY if kind not in ("vfall-hdr", "vfall-user") else ()
    if m.group(2) != KINDS[kind] and m.group(2) not in alt:
        return "scenario did not reach the intended error page (%s): %s" % (KINDS[kind], impl)
    if int(m.group(3)):
        return "the payload appears with a raw markup character in the error page / Location header"
    return None


def compare(line, impl, model):
    if line.startswith("w "):
        m = re.search(r"raw=(\d+)", impl)
        return bool(m) and model == "raw=" + m.group(1)
    return impl == model


def shrink(line):
    """end-to-end scenarios are small and slow to re-run: only in-process lines are minimised (generic hex-token delta debugging)"""
    if line.startswith("w "):
        return
    from vf.run import default_shrink
    yield from default_shrink(line)
