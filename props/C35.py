"""C35 HTTP date formatting and parsing round-trip (src/time/rfc1123.cc)."""
import os, re, time
from vf.util import VERIF, hx, unhx
from vf.harness import ProcHarness

ID = "C35"
PROP_MODULE = "SquidModel.Properties.C35"
MODEL = "c35"
GEN = ["date_names"]
RULE = ("f <t>: Time::FormatRfc1123(t) and Time::ParseRfc1123 of the result (boundary times, random times of 1970..9999 and of the whole "
        "modelled domain years 0..99999); D <day0> <n> <seed>: the same for n consecutive days at one pseudo-random second each, "
        "compared through a mismatch count and an FNV-1a hash of all formatted strings (quick: every day of 1970..2399 + random "
        "blocks up to 9999; thorough: every day of 1970..9999); p <hex>: Time::ParseRfc1123 + the struct tm parse_date produced, on "
        "valid IMF-fixdate / RFC 850 / asctime strings, lenient variants Squid accepts, field-boundary values, mutations "
        "(flip, truncate at every offset, delete, insert, duplicate, token swap, splice across formats) and random strings. "
        "non-trivial = a round trip inside 1970..9999, a D block, or a parse that was accepted; distinct = distinct input lines")
TRUSTED = ["modelled, not verified: libc in the C locale (gmtime, timegm, strftime %a %b %d %Y %H %M %S, atoi = (int)strtol, strtok, "
           "strchr, strncmp, toupper/tolower/isdigit) -- all of them are inside the differential run",
           "the python oracle's own calendar (closed-form days_from_civil/civil_from_days) and its regular expressions for the "
           "three RFC 9110 date forms",
           "the recursive calendar walk `civilOfDays` of SquidModel/Date/Calendar.lean as the meaning of 'the time a date denotes'"]
ASSUMPTIONS = ["C locale; time_t and long are 64 bit, int is 32 bit, char is signed; HAVE_TIMEGM (the branch compiled here)",
               "inputs are C strings (no NUL)",
               "the day name of a date string carries no information (it is not compared with the date)",
               "an RFC 850 two-digit year denotes what RFC 9110 section 5.6.7 says, relative to the clock of the check "
               "(more than 50 years in the future = the calendar fields compare greater than those of now + 50 years)"]
MANIFEST = {
    "text": "full modulo libc: theorems parse_format (every t of 1970..9999 survives FormatRfc1123 then ParseRfc1123), "
            "format_is_imf_fixdate, asctime_round_trip, rfc850_round_trip, imf_fixdate_denoted / asctime_denoted (every accepted "
            "IMF-fixdate or asctime string yields the one time with exactly the written calendar fields), insane_fields_rejected "
            "(hour 24, minute 60, leap second, a day that does not exist in its month are rejected), rfc850_fixed_window, "
            "rfc850_denoted_partial hold for all inputs in a model that follows make_num, make_month, tmSaneValues (with its month "
            "table and Feb-29 rule), parse_date_elements, parse_date (strtok loop, 63-byte copy) and the timegm branch of ParseRfc1123 "
            "branch by branch; the calendar is a recursive year/month walk and both round trips are proved by induction. One part of "
            "the statement is false of the real code and proved as a counterexample (known finding): the RFC 850 two-digit year uses "
            "the fixed window 1970..2069 instead of the RFC 9110 sliding window. month_names, RFC1123_STRFTIME, strftime's %a/%b "
            "output, the tmSaneValues bounds and month lengths and the copy size are regenerated from the staged code every run; the "
            "real functions run under ASan/UBSan against the model and a direct oracle (independent closed-form calendar in python), "
            "every day of 1970..9999 in the thorough tier",
    "note": "trusted: Lean kernel (+propext/Classical.choice/Quot.sound as printed), dump program, C++ harness, python oracle; "
            "modelled not verified: the libc functions listed in the trusted base (C locale, glibc atoi/strftime behaviour)",
    "technique": "Lean 4 proof (induction over a recursive calendar, token-level lemmas, decide over regenerated tables) + table "
                 "translator + ASan/UBSan differential run",
}


def build_exe(stage):
    if "c35" in getattr(stage, "built", {}):
        return stage.built["c35"]
    objs = [stage.compile(os.path.join(VERIF, "harness", "c35.cc"))]
    exe = stage.link_like("tests/testHtmlQuote", objs, os.path.join(stage.work, "c35"))
    stage.built = getattr(stage, "built", {})
    stage.built["c35"] = exe
    return exe


def build(stage):
    return ProcHarness([build_exe(stage)])


# ---------------------------------------------------------------------------------------------------------------
# the oracle's own calendar (closed forms, python integers; independent of the Lean walk and of libc)
# ---------------------------------------------------------------------------------------------------------------
def days_from_civil(y, m, d):
    """days since 1970-01-01 of the proleptic Gregorian date y-m-d (m 1..12)"""
    y -= m <= 2
    era = y // 400
    yoe = y - era * 400
    doy = (153 * (m + (-3 if m > 2 else 9)) + 2) // 5 + d - 1
    doe = yoe * 365 + yoe // 4 - yoe // 100 + doy
    return era * 146097 + doe - 719468


def civil_from_days(z):
    z += 719468
    era = z // 146097
    doe = z - era * 146097
    yoe = (doe - doe // 1460 + doe // 36524 - doe // 146096) // 365
    y = yoe + era * 400
    doy = doe - (365 * yoe + yoe // 4 - yoe // 100)
    mp = (5 * doy + 2) // 153
    d = doy - (153 * mp + 2) // 5 + 1
    m = mp + 3 if mp < 10 else mp - 9
    return (y + (m <= 2), m, d)


def is_leap(y):
    return y % 4 == 0 and (y % 100 != 0 or y % 400 == 0)


def month_len(y, m):
    return [31, 29 if is_leap(y) else 28, 31, 30, 31, 30, 31, 31, 30, 31, 30, 31][m - 1]


MON = [b"Jan", b"Feb", b"Mar", b"Apr", b"May", b"Jun", b"Jul", b"Aug", b"Sep", b"Oct", b"Nov", b"Dec"]
WD = [b"Mon", b"Tue", b"Wed", b"Thu", b"Fri", b"Sat", b"Sun"]
WDL = [b"Monday", b"Tuesday", b"Wednesday", b"Thursday", b"Friday", b"Saturday", b"Sunday"]
T_END = 253402300800      # 10000-01-01 00:00:00
T_MIN = -62167219200
T_MAX = 3093527980799


def imf_of(t):
    """IMF-fixdate of t (RFC 9110 5.6.7), for years 0..9999"""
    days, sod = divmod(t, 86400)
    y, m, d = civil_from_days(days)
    return b"%s, %02d %s %04d %02d:%02d:%02d GMT" % (WD[(days + 3) % 7], d, MON[m - 1], y, sod // 3600, sod % 3600 // 60, sod % 60)


_MONRE = b"|".join(MON)
IMF_RE = re.compile(rb"(?:" + b"|".join(WD) + rb"), ([0-9]{2}) (" + _MONRE + rb") ([0-9]{4}) ([0-9]{2}):([0-9]{2}):([0-9]{2}) GMT\Z")
RFC850_RE = re.compile(rb"(?:" + b"|".join(WDL) + rb"), ([0-9]{2})-(" + _MONRE + rb")-([0-9]{2}) ([0-9]{2}):([0-9]{2}):([0-9]{2}) GMT\Z")
ASCTIME_RE = re.compile(rb"(?:" + b"|".join(WD) + rb") (" + _MONRE + rb") ([0-9]{2}| [0-9]) ([0-9]{2}):([0-9]{2}):([0-9]{2}) ([0-9]{4})\Z")

NOW = int(os.environ.get("VERIF_C35_NOW", "0")) or int(time.time())


def fields_of_time(t):
    days, sod = divmod(t, 86400)
    y, m, d = civil_from_days(days)
    return (y, m, d, sod // 3600, sod % 3600 // 60, sod % 60)


def rfc850_year(yy, rest, now):
    """RFC 9110 5.6.7: the latest year with these last two digits whose timestamp is not more than 50 years after now"""
    ny, nm, nd, nh, nmi, ns = fields_of_time(now)
    limit = (ny + 50, nm, nd, nh, nmi, ns)
    y = (ny + 50) - ((ny + 50 - yy) % 100)
    if (y,) + rest > limit:
        y -= 100
    return y


def classify_form(s):
    """-> (form, (yearspec, month 1..12, day, hh, mm, ss)) or (None, None); yearspec = ('y4', y) or ('y2', yy)"""
    m = IMF_RE.match(s)
    if m:
        return "imf", (("y4", int(m.group(3))), MON.index(m.group(2)) + 1, int(m.group(1)), int(m.group(4)), int(m.group(5)), int(m.group(6)))
    m = RFC850_RE.match(s)
    if m:
        return "rfc850", (("y2", int(m.group(3))), MON.index(m.group(2)) + 1, int(m.group(1)), int(m.group(4)), int(m.group(5)), int(m.group(6)))
    m = ASCTIME_RE.match(s)
    if m:
        return "asctime", (("y4", int(m.group(6))), MON.index(m.group(1)) + 1, int(m.group(2)), int(m.group(3)), int(m.group(4)), int(m.group(5)))
    return None, None


def denoted(fields, now):
    """-> ('time', t) | ('none', reason)"""
    (kind, yv), mo, d, hh, mm, ss = fields
    if hh > 23 or mm > 59 or ss > 59:
        return ("none", "time of day %02d:%02d:%02d does not exist (a leap second has no time_t)" % (hh, mm, ss))
    if d < 1:
        return ("none", "day 0")
    y = yv if kind == "y4" else rfc850_year(yv, (mo, d, hh, mm, ss), now)
    if d > month_len(y, mo):
        return ("none", "day %d does not exist in month %d of %d" % (d, mo, y))
    return ("time", (days_from_civil(y, mo, d) * 86400 + hh * 3600 + mm * 60 + ss))


def linear_time(y, mo, d, hh, mm, ss):
    return (days_from_civil(y, mo, 1) + d - 1) * 86400 + hh * 3600 + mm * 60 + ss


def judge_parse(s, t):
    """-> (why|None, class|None) for an accepted parse result t of the string s"""
    form, fields = classify_form(s)
    if form is None:
        return None, None
    den = denoted(fields, NOW)
    (kind, yv), mo, d, hh, mm, ss = fields
    if kind == "y2" and denoted(fields, NOW + 7200) != den:
        return None, None     # the sliding window moves over this very timestamp while the check runs
    if den[0] == "none":
        return "accepted a %s date that denotes no time: %s (returned %d)" % (form, den[1], t), None
    if t != den[1]:
        cls = None
        if kind == "y2":
            fy = 1900 + yv if yv >= 70 else 2000 + yv
            if d <= month_len(fy, mo) and t == linear_time(fy, mo, d, hh, mm, ss):
                cls = "window"
        return "accepted a %s date but returned %d, the string denotes %d" % (form, t, den[1]), cls
    return None, None


def hash_block(day0, n, seed):
    h = 0xcbf29ce484222325
    M = (1 << 64) - 1
    for day in range(day0, day0 + n):
        z = (seed + day * 0x9E3779B97F4A7C15) & M
        z = ((z ^ (z >> 30)) * 0xBF58476D1CE4E5B9) & M
        z = ((z ^ (z >> 27)) * 0x94D049BB133111EB) & M
        z ^= z >> 31
        for c in imf_of(day * 86400 + z % 86400) + b"\n":
            h = ((h ^ c) * 0x100000001b3) & M
    return h


def oracle(line, impl):
    w = line.split(" ")
    if impl.startswith("abort:"):
        return "sanitizer/abort: " + impl
    if impl == "bad-op":
        return None
    if w[0] == "f":
        t = int(w[1])
        if impl == "reject:domain":
            return None if not (T_MIN <= t <= T_MAX) else "harness refused a time inside its domain"
        out = impl.split(" ")
        if 0 <= t < T_END:
            if unhx(out[0]) != imf_of(t):
                return "FormatRfc1123(%d) is not the IMF-fixdate of that time: %r" % (t, unhx(out[0]))
            if int(out[1]) != t:
                return "ParseRfc1123(FormatRfc1123(%d)) = %s" % (t, out[1])
        return None
    if w[0] == "D":
        day0, n, seed = int(w[1]), int(w[2]), int(w[3])
        m = re.match(r"n=(\d+) mism=(\d+) first=(\S+) hash=([0-9a-f]{16})\Z", impl)
        if not m:
            return "unparsable output " + impl[:80]
        if 0 <= day0 and (day0 + n) * 86400 <= T_END:
            if int(m.group(1)) != n or int(m.group(2)) != 0:
                return "format/parse round trip failed for %s times of the block, first %s" % (m.group(2), m.group(3))
            if int(m.group(4), 16) != hash_block(day0, n, seed):
                return "the formatted strings of the block are not the IMF-fixdates of its times"
        return None
    if w[0] == "p":
        if impl == "reject:nul":
            return None
        t = int(impl.split(" ")[0])
        if t == -1:
            return None     # rejected (callers cannot tell 1969-12-31 23:59:59 from a failure)
        return judge_parse(unhx(w[1]), t)[0]
    return None


def classify(line, impl, why):
    w = line.split(" ")
    if w[0] != "p" or not why or impl.startswith("abort:") or impl.startswith("reject") or impl == "bad-op":
        return None
    t = int(impl.split(" ")[0])
    cls = judge_parse(unhx(w[1]), t)[1]
    if cls == "window":
        return "C35-rfc850-fixed-century-window"
    return None


def nontrivial(line, impl, model):
    w = line.split(" ")
    if w[0] == "f":
        return impl not in ("bad-op", "reject:domain") and 0 <= int(w[1]) < T_END
    if w[0] == "D":
        return impl.startswith("n=")
    if w[0] == "p":
        return not impl.startswith("-1 ") and not impl.startswith("reject") and impl != "bad-op"
    return False


def tag(line, impl, model):
    w = line.split(" ")
    if w[0] == "f":
        t = int(w[1])
        return "f " + ("domain-reject" if impl == "reject:domain" else "1970..9999" if 0 <= t < T_END else "before-1970" if t < 0 else "year>=10000")
    if w[0] == "D":
        return "D block"
    if w[0] == "p":
        s = unhx(w[1]) if w[1] != "-" else b""
        form = classify_form(s)[0] or ("long" if len(s) > 63 else "other")
        res = "reject" if impl.startswith("-1 ") else "nul" if impl.startswith("reject") else "accept"
        return "p %s %s" % (form, res)
    return "other"


def exhaustive(tier):
    return True   # every day of the tier's range of years (quick 1970..2399, thorough 1970..9999)


# ---------------------------------------------------------------------------------------------------------------
# generators
# ---------------------------------------------------------------------------------------------------------------
def rand_fields(rng, valid=True):
    k = rng.below(10)
    if k == 0:
        y = rng.range(0, 9999)
    elif k == 1:
        y = rng.choice([0, 1, 4, 69, 70, 99, 100, 400, 1582, 1600, 1899, 1900, 1901, 1968, 1969, 1970, 1971, 1999, 2000, 2001, 2037, 2038,
                        2069, 2070, 2100, 2400, 9996, 9999])
    else:
        y = rng.range(1970, 2100)
    mo = rng.range(1, 12)
    d = rng.range(1, month_len(y, mo)) if not rng.chance(1, 8) else rng.choice([1, 28, month_len(y, mo)])
    hh, mm, ss = rng.range(0, 23), rng.range(0, 59), rng.range(0, 59)
    if rng.chance(1, 10):
        hh, mm, ss = rng.choice([(0, 0, 0), (23, 59, 59), (0, 0, 59), (12, 0, 0), (23, 0, 0), (0, 59, 0)])
    return y, mo, d, hh, mm, ss


def wd_index(y, mo, d):
    return (days_from_civil(y, mo, 1) + d - 1 + 3) % 7


def fmt_imf(y, mo, d, hh, mm, ss, wd=None):
    wd = WD[wd_index(y, mo, d)] if wd is None else wd
    return b"%s, %02d %s %04d %02d:%02d:%02d GMT" % (wd, d, MON[mo - 1], y, hh, mm, ss)


def fmt_850(y, mo, d, hh, mm, ss, wd=None):
    wd = WDL[wd_index(y, mo, d)] if wd is None else wd
    return b"%s, %02d-%s-%02d %02d:%02d:%02d GMT" % (wd, d, MON[mo - 1], y % 100, hh, mm, ss)


def fmt_asc(y, mo, d, hh, mm, ss, wd=None, pad=b" "):
    wd = WD[wd_index(y, mo, d)] if wd is None else wd
    day = (b"%02d" % d) if d >= 10 or pad == b"0" else pad + b"%d" % d
    return b"%s %s %s %02d:%02d:%02d %04d" % (wd, MON[mo - 1], day, hh, mm, ss, y)


def near_window_edge(mo, d):
    """the RFC 850 window boundary passes over dates whose month/day is today's: keep generated cases a few days away"""
    ny, nm, nd = fields_of_time(NOW)[:3]
    a = days_from_civil(2001, mo, min(d, 28))
    b = days_from_civil(2001, nm, min(nd, 28))
    return abs(a - b) <= 3 or abs(a - b) >= 362


def lenient(rng, f):
    """variants outside the three grammars that parse_date still understands (or nearly)"""
    y, mo, d, hh, mm, ss = f
    mon = MON[mo - 1]
    k = rng.below(16)
    if k == 0:
        return b"%s, %d %s %d %02d:%02d:%02d GMT" % (rng.choice(WD), d, mon.lower(), y, hh, mm, ss)
    if k == 1:
        return b"%s,%02d %s %04d %02d:%02d:%02d" % (rng.choice(WD), d, mon.upper(), y, hh, mm, ss)
    if k == 2:
        return b"%s  ,, %02d   %s,%04d ,%02d:%02d:%02d   GMT  " % (rng.choice(WD), d, mon, y, hh, mm, ss)
    if k == 3:
        full = [b"January", b"February", b"March", b"April", b"May", b"June", b"July", b"August", b"September", b"October", b"November", b"December"][mo - 1]
        return b"%s, %02d %s %04d %02d:%02d:%02d GMT" % (rng.choice(WDL), d, full, y, hh, mm, ss)
    if k == 4:
        return b"%s, %02d %s %04d %02d:%02d GMT" % (rng.choice(WD), d, mon, y, hh, mm)
    if k == 5:
        return b"%s, %02d-%s-%04d %02d:%02d:%02d GMT" % (rng.choice(WDL), d, mon, y, hh, mm, ss)
    if k == 6:
        return b"%s, %02d-%s-%d %02d:%02d:%02d GMT" % (rng.choice(WDL), d, mon, 19000 + (y - 1900) if y >= 1900 else y, hh, mm, ss)
    if k == 7:
        return b"%s %02d:%02d:%02d %04d %s %02d" % (rng.choice(WD), hh, mm, ss, y, mon, d)    # order of tokens is free
    if k == 8:
        return b"%s %s %02d %04d %02d:%02d:%02d UTC" % (rng.choice(WD), mon, d, y, hh, mm, ss)
    if k == 9:
        return b"%s, %02d %s %d %02d:%02d:%02d GMT" % (rng.choice(WD), d, mon, y % 1000, hh, mm, ss)   # 1..3 digit years
    if k == 10:
        return b"%s, %02d %s %04d %d:%02d:%02d GMT" % (rng.choice(WD), d, mon, y, hh, mm, ss)    # make_num on a 1-digit hour
    if k == 11:
        return b"%s, %02d %s %04d %02d:\t%d:+%d GMT" % (rng.choice(WD), d, mon, y, hh, mm, ss)    # atoi white space / sign
    if k == 12:
        return b"%02d %s %04d %02d:%02d:%02d GMT" % (d, mon, y, hh, mm, ss)                       # no day name
    if k == 13:
        return b"x %02d-%s-%s%d %02d:%02d:%02d" % (d, mon, rng.choice([b"-", b"+", b"\t", b""]), y, hh, mm, ss)
    if k == 14:
        return b"%s, %02d %s %04d %02d:%02d:%02d GMT GMT" % (rng.choice(WD), d, mon, y, hh, mm, ss)
    return b"%s, %02d %s %04d %02d:%02d:%02d %s" % (rng.choice(WD), d, mon, y, hh, mm, ss, rng.choice([b"gmt", b"GMT+1", b"GM", b"Z", b"+0000"]))


MUT_ALPHA = b"0123456789:-, GMTJanFebSuy\t+\xe9/"


def mutate(rng, s):
    s = bytearray(s)
    for _ in range(rng.choice([1, 1, 1, 2, 3])):
        k = rng.below(9)
        if k == 0 and s:
            s[rng.below(len(s))] = rng.choice(MUT_ALPHA)
        elif k == 1 and s:
            s[rng.below(len(s))] ^= 1 << rng.below(8)
        elif k == 2 and s:
            del s[rng.below(len(s))]
        elif k == 3:
            s.insert(rng.below(len(s) + 1), rng.choice(MUT_ALPHA))
        elif k == 4 and s:
            s = s[:rng.below(len(s))]
        elif k == 5:
            toks = bytes(s).split(b" ")
            if len(toks) > 1:
                i, j = rng.below(len(toks)), rng.below(len(toks))
                toks[i], toks[j] = toks[j], toks[i]
            s = bytearray(b" ".join(toks))
        elif k == 6:
            toks = bytes(s).split(b" ")
            i = rng.below(len(toks))
            toks.insert(i, toks[i])
            s = bytearray(b" ".join(toks))
        elif k == 7 and s:
            i = rng.below(len(s))
            if 48 <= s[i] <= 57:
                s[i] = 48 + (s[i] - 48 + rng.choice([1, 9])) % 10
            else:
                s[i] = rng.choice(b"09")
        else:
            i = rng.below(len(s) + 1)
            s = s[:i] + bytearray(rng.choice([b" ", b",", b"  ", b", ", b"-", b":", b"00", b"1", b"99999999999", b"GMT", b"Jan"])) + s[i:]
    return bytes(s).replace(b"\0", b"0")


def boundary_strings():
    out = []
    base = (1994, 11, 6, 8, 49, 37)
    for f in (fmt_imf, fmt_850, fmt_asc):
        # every field at and beyond its limits
        for hh in (0, 23, 24, 25, 99):
            out.append(f(1994, 11, 6, hh, 49, 37, wd=WD[6] if f is not fmt_850 else WDL[6]))
        for mm in (0, 59, 60, 61, 99):
            out.append(f(1994, 11, 6, 8, mm, 37, wd=WD[6] if f is not fmt_850 else WDL[6]))
        for ss in (0, 59, 60, 61, 99):
            out.append(f(1994, 11, 6, 8, 49, ss, wd=WD[6] if f is not fmt_850 else WDL[6]))
        for y in (1900, 1970, 1972, 1999, 2000, 2023, 2024, 2068, 2069, 2100):
            for mo in range(1, 13):
                for d in (0, 1, 28, 29, 30, 31, 32, 99):
                    out.append(f(y, mo, d, 12, 0, 0, wd=WD[0] if f is not fmt_850 else WDL[0]))
    for y in (0, 1, 69, 70, 99, 100, 999, 1000, 1899, 1900, 1969, 1970, 9999):
        out.append(fmt_imf(y, 1, 1, 0, 0, 0, wd=b"Mon"))
        out.append(fmt_imf(y, 12, 31, 23, 59, 59, wd=b"Mon"))
        out.append(fmt_asc(y, 2, 29, 23, 59, 59, wd=b"Mon"))
        out.append(fmt_asc(y, 3, 1, 0, 0, 0, wd=b"Mon"))
        out.append(fmt_asc(y, 3, 1, 0, 0, 0, wd=b"Mon", pad=b"0"))
    for yy in range(100):
        out.append(b"Monday, 01-Jan-%02d 00:00:00 GMT" % yy)
        out.append(b"Friday, 31-Dec-%02d 23:59:59 GMT" % yy)
        out.append(b"Sunday, 15-Jun-%02d 12:30:30 GMT" % yy)
    # year field shapes: 1,2,3,4,5+ digits, the 19100 form, atoi overflow neighbours, signs
    for ys in ("0", "5", "69", "70", "99", "100", "199", "999", "1000", "01994", "19000", "19001", "19100", "19169", "99999", "2147483647", "2147483648",
               "2147502647", "4294967296", "4294969290", "9223372036854775807", "9223372036854775808", "99999999999999999999", "1e3", "19x4", "٣"):
        out.append(("Mon, 01 Jan %s 00:00:00 GMT" % ys).encode())
        out.append(("Monday, 01-Jan-%s 00:00:00 GMT" % ys).encode())
    for ys in ("-1", "-70", "-1900", "-2147483648", "-2147483649", "-9223372036854775809", "+70", "+1994", " 94", "\t94", "\n1994", "\v\f\r7", "", "-", "+-5"):
        out.append(("Monday, 01-Jan-%s 00:00:00 GMT" % ys).encode())
    for ds in ("1", "01", "001", "31", "32", "4294967297", "4294967327", "18446744073709551617", "9223372036854775807", "1x", "3 1"):
        out.append(("Mon, %s Jan 2000 00:00:00 GMT" % ds).encode())
    for ts in ("00:00", "0:0:0", "1:00:00", "9:59:59", "23:59", "23:59:", "23::59", ":23:59", "23:59:59:59", "24:00:00", "1\xe9:00:00", "2/:00:00", "0::", "00:-1:00",
               "00:00:-0", "00:\t59:\n59", "00:+59:+59", "00:4294967296:00", "00:00:4294967355", "0x:00:00", "07:08:09x"):
        out.append(("Mon, 01 Jan 2000 %s GMT" % ts).encode("latin1"))
    for ms in ("jan", "JAN", "jAN", "Janx", "Ja", "J", "", "January", "Jän", "Jan-", "Sept", "Dec."):
        out.append(("Mon, 01 %s 2000 00:00:00 GMT" % ms).encode("latin1"))
    for zs in ("GMT", "gmt", "GM", "GMTT", "UTC", "Z", "+0000", ""):
        out.append(("Mon, 01 Jan 2000 00:00:00 %s" % zs).encode())
    out.append(b"Wed, 31 Dec 1969 23:59:59 GMT")
    out.append(b"Thu, 01 Jan 1970 00:00:00 GMT")
    out.append(b"Fri, 31 Dec 9999 23:59:59 GMT")
    out.append(b"")
    out.append(b" ")
    out.append(b",,, ,")
    # the 63-byte copy: pad a valid date so that the cut falls on every position of its tail
    tail = b"Sun, 06 Nov 1994 08:49:37 GMT"
    for pad in range(20, 70):
        out.append(b" " * pad + tail)
        out.append(b"," * pad + tail + b" x y z")
    for pad in range(30, 45):
        out.append(b"Sun Nov  6 08:49:37" + b" " * pad + b"1994")
    return out


def known_region(s):
    """strings on which the known finding (fixed century window) shows (decided from the string alone)"""
    form, fields = classify_form(s)
    if form != "rfc850":
        return False
    (kind, yv), mo, d, hh, mm, ss = fields
    if hh > 23 or mm > 59 or ss > 59 or not (1 <= d <= 31):
        return False
    fixed = 1900 + yv if yv >= 70 else 2000 + yv
    sliding = rfc850_year(yv, (mo, d, hh, mm, ss), NOW)
    return fixed != sliding and d <= month_len(fixed, mo)


def cases(rng, tier):
    """Cases inside the region of the known finding are moved to the end of the stream (quick: a sample of 30 of them) so
    that they cannot crowd out anything else among the failing cases the framework minimises."""
    tail = []
    for line in all_cases(rng, tier):
        if line.startswith("p ") and line != "p -" and known_region(unhx(line[2:])):
            tail.append(line)
        else:
            yield line
    tail = sorted(set(tail))
    rng.fork("tail").shuffle(tail)
    for line in (tail[:30] if tier != "thorough" else tail):
        yield line


def all_cases(rng, tier):
    thorough = tier == "thorough"
    # ---- format -> parse over whole ranges of days
    last_day = T_END // 86400          # 2932897 days from 1970-01-01 to 10000-01-01
    quick_days = days_from_civil(2400, 1, 1)
    end = last_day if thorough else quick_days
    step = 1000
    for day0 in range(0, end, step):
        yield "D %d %d %d" % (day0, min(step, end - day0), rng.below(1 << 32))
    yield "D %d %d %d" % (last_day - 366, 366, rng.below(1 << 32))
    if not thorough:
        for _ in range(60):
            yield "D %d %d %d" % (rng.range(quick_days, last_day - 300), 300, rng.below(1 << 32))
    for _ in range(4):     # outside the property's range: model/implementation correspondence only
        yield "D %d %d %d" % (rng.range(-719528, -400), 200, rng.below(1 << 32))
        yield "D %d %d %d" % (rng.range(last_day, 35000000), 200, rng.below(1 << 32))
    # ---- single times
    bt = [0, 1, 59, 60, 3599, 3600, 86399, 86400, 86401, 2**31 - 2, 2**31 - 1, 2**31, 2**31 + 1, 2**32 - 1, 2**32, 2**32 + 1,
          T_END - 2, T_END - 1, T_END, T_END + 1, -1, -2, -86400, -86401, T_MIN, T_MIN + 1, T_MIN - 1, T_MAX, T_MAX - 1, T_MAX + 1,
          2**62, -2**62, 784111777, 951782400, 951868799, 951868800]
    for y in (1970, 1971, 1972, 1999, 2000, 2001, 2024, 2038, 2100, 2400, 9996, 9999, 10000, 0, 4, 100, 400, 999, 1000, 1969):
        for (mo, d) in ((1, 1), (2, 28), (2, 29), (3, 1), (12, 31)):
            if d <= month_len(y, mo):
                z = days_from_civil(y, mo, d) * 86400
                bt += [z - 1, z, z + 43200, z + 86399]
    for t in bt:
        yield "f %d" % t
    for _ in range(20000 if thorough else 3000):
        yield "f %d" % rng.range(0, T_END - 1)
    for _ in range(2000 if thorough else 300):
        yield "f %d" % rng.range(T_MIN, T_MAX)
    if thorough:       # every second of two days (one of them a leap day)
        for z in (days_from_civil(2024, 2, 29) * 86400, days_from_civil(9999, 12, 31) * 86400):
            for s in range(86400):
                yield "f %d" % (z + s)
    # ---- parse: boundary strings
    for s in boundary_strings():
        yield "p " + hx(s)
    # ---- parse: valid strings of the three forms
    n = 60000 if thorough else 4000
    for i in range(n):
        f = rand_fields(rng)
        k = rng.below(4)
        if k == 0:
            s = fmt_imf(*f)
        elif k == 1:
            while near_window_edge(f[1], f[2]):
                f = rand_fields(rng)
            s = fmt_850(*f)
        elif k == 2:
            s = fmt_asc(*f, pad=rng.choice([b" ", b" ", b"0"]))
        else:   # a day name that does not belong to the date
            s = rng.choice([fmt_imf(*f, wd=rng.choice(WD)), fmt_asc(*f, wd=rng.choice(WD))])
        yield "p " + hx(s)
    # ---- parse: lenient variants
    for i in range(20000 if thorough else 1500):
        yield "p " + hx(lenient(rng, rand_fields(rng)))
    # ---- parse: mutations
    for i in range(150000 if thorough else 8000):
        f = rand_fields(rng)
        base = rng.choice([fmt_imf, fmt_850, fmt_asc])(*f)
        if rng.chance(1, 10):
            other = rng.choice([fmt_imf, fmt_850, fmt_asc])(*rand_fields(rng))
            base = base[:rng.below(len(base) + 1)] + other[rng.below(len(other) + 1):]    # splice
        yield "p " + hx(mutate(rng, base))
    # ---- truncation at every offset of one string per form
    for f in (fmt_imf, fmt_850, fmt_asc):
        s = f(*rand_fields(rng))
        for i in range(len(s) + 1):
            yield "p " + hx(s[:i])
            yield "p " + hx(s[i:])
    # ---- small random strings
    for i in range(30000 if thorough else 1500):
        yield "p " + hx(rng.bytes(rng.range(0, 40), b"0123456789:-, GMTJanSu\t+"))
    for i in range(2000 if thorough else 300):
        yield "p " + hx(bytes(rng.range(1, 255) for _ in range(rng.range(0, 80))))
    if thorough:
        # exhaustive small scope: every month x every day number 0..32 x a set of years, in all three forms
        for y in (0, 4, 100, 1900, 1970, 1999, 2000, 2023, 2024, 2100, 9999):
            for mo in range(1, 13):
                for d in range(0, 33):
                    for f in (fmt_imf, fmt_850, fmt_asc):
                        if f is fmt_850 and near_window_edge(mo, d):
                            continue
                        yield "p " + hx(f(y, mo, d, 23, 59, 59, wd=WD[0] if f is not fmt_850 else WDL[0]))


KNOWN_MUST_MATCH_MODEL = True   # inside a known finding's region the observation must still equal the model's (which reproduces the listed defect); see lib/vf/run.py
