"""C38 PROXY protocol headers are parsed faithfully and incrementally."""
import os, re, socket
from vf.util import VERIF, hx, unhx
from vf.harness import ProcHarness

ID = "C38"
PROP_MODULE = "SquidModel.Properties.C38"
MODEL = "c38"
GEN = ["proxyp"]
RULE = ("a <hex>: ProxyProtocol::Parse on EVERY prefix of the bytes (run-length compressed outcomes); s <cuts> <hex>: on the listed "
        "prefix lengths (64 KB headers); p <hex>: one buffer; i <hex>: Ip::Address::GetHostByName on an address token. Streams: "
        "reference-encoder headers (v1 TCP4/TCP6/UNKNOWN in canonical and alternative spellings, v2 every command x family x "
        "transport with 0..6 TLVs, each followed by payload bytes), boundary headers (v1 line length 106/107/108, interior "
        "99/100/101, ports 0/65535/65536/2^63-1/2^63, v2 length field = address block size -1/0/+1, 0, 65535, TLV lengths "
        "0/1/255/256/65519), mutations (byte flips, insertions, deletions, duplications, splices of v1/v2, magic corruption; "
        "truncation at every offset is built into `a`), random bytes after each magic. thorough adds all 65536 "
        "(version/command, family/transport) octet pairs and every single-byte substitution of seed headers at 3 values per offset. "
        "non-trivial = some prefix yields a parsed header; distinct = distinct input lines")
TRUSTED = ["specified, not verified: SBuf primitives (Base/Tok.lean) and Ip::Address's storage (16 octets + port, map4to6) are given as "
           "list functions; libc getaddrinfo on numeric text is a model parameter whose driver instance (Proxyp/IpText.lean, modelled "
           "on glibc 2.36) is tied by the differential run only",
           "harness wraps getaddrinfo (forces AI_NUMERICHOST, records would-be name-service lookups)",
           "behaviour flags of Gen/Proxyp.lean (resolvesNames, v1ChecksLineEnd, unixIgnoresAddresses) are probed by running the staged parser on fixed inputs"]
ASSUMPTIONS = ["the address resolver is a function of the token (the same text resolves the same way at every parsing attempt)",
               "input buffers are shorter than SBuf::maxSize"]
MANIFEST = {
    "text": "full: the Lean model follows ProxyProtocol::Parse, One::Parse/ParseAddresses/ExtractIp/ExtractPort, Two::Parse/ParseAddresses/"
            "ParseTLVs, BinaryTokenizer and the Header predicates branch by branch (Tokenizer::prefix/skip/int64 are the shared models); "
            "proved for every byte string and every address resolver: a definite answer (header or rejection) never changes when more "
            "bytes arrive, so every prefix of an input asks for more or answers exactly like the complete input; the consumed size is "
            "at most the buffer, is 16+length for v2 and ends with CRLF within 107 octets for v1; reference-encoded v1 (TCP4/TCP6/"
            "UNKNOWN) and v2 (all families, commands, TLVs) headers decode to the encoded addresses, ports, command and TLVs with the "
            "exact header length; oversized v1 lines, ports above 65535, family mismatches, bad v2 version/command/family/transport "
            "and short address blocks/TLVs are rejected. Counterexamples proved for the places where the real code is laxer or "
            "stricter than the protocol (see known findings). The real parser runs under ASan/UBSan on every prefix against the model "
            "and against an independent python reference decoder",
    "note": "trusted: Lean kernel (+axioms as printed), translator (constants evaluated by staged code, probed flags), harness with wrapped "
            "getaddrinfo, python reference decoder; specified not verified: SBuf primitives, Ip::Address storage, libc numeric address parsing",
    "technique": "Lean 4 proof (extension-stability of each parsing phase, encoder round trip) + constants translator + all-prefix "
                 "ASan differential run with reference decoder",
    "engine": "inproc",
}

SIG2 = b"\r\n\r\n\x00\r\nQUIT\n"
SIG1 = b"PROXY"
IPCHARS = set(b".:0123456789abcdefABCDEF")
A_LIMIT = 420      # longest input run through every prefix
MAX_REPORT = 12     # unexplained failures minimised per run (one line already stands for hundreds of parses)
MINIMISE_BUDGET = 150


# initialiser expressions of function-local constants of Parser.cc: (name, kind, regex, how to turn the match into an expression)
GEN_EXPRS = [
    ("ipChars", "set", r"static\s+const\s+auto\s+ipChars\s*=\s*(.*?);", "%s"),
    ("addressFamilies", "set", r"static\s+const\s+CharacterSet\s+addressFamilies\s*\((.*?)\);", "CharacterSet(%s)"),
    ("maxHeaderLength", "num", r"static\s+const\s+SBuf::size_type\s+maxHeaderLength\s*=\s*(.*?);", "%s"),
    ("maxInteriorLength", "num", r"static\s+const\s+auto\s+maxInteriorLength\s*=\s*(.*?);", "%s"),
    ("interiorChars", "set", r"static\s+const\s+auto\s+interiorChars\s*=\s*(.*?);", "%s"),
    ("protoTcp", "bytes", r"static\s+const\s+SBuf\s+protoTcp\s*\((.*?)\);", "SBuf(%s)"),
    ("protoUnknown", "bytes", r"static\s+const\s+SBuf\s+protoUnknown\s*\((.*?)\);", "SBuf(%s)"),
    ("portMax", "num", r"if\s*\(port\s*>\s*(.*?)\)\s*\n", "%s"),
    ("unixAddrLen", "num", r"tok\.skip\((\d+),\s*\"unix_addr\"\)", "%s"),
]


def gen_inc(stage):
    """c38_gen.inc: a function that evaluates, inside namespace ProxyProtocol::One of the staged Parser.cc, the initialiser
    expressions cut out of the staged source text and prints their values"""
    text = stage.read("src/proxyp/Parser.cc")
    body = []
    for name, kind, rx, wrap in GEN_EXPRS:
        m = re.search(rx, text, re.S)
        if not m:
            body.append('    printf("%s missing\\n");' % name)
            continue
        expr = wrap % " ".join(m.group(1).split())
        typ = {"set": "const CharacterSet", "num": "const long long", "bytes": "const SBuf"}[kind]
        fn = {"set": "printSet", "num": "printNum", "bytes": "printBytes"}[kind]
        init = "static_cast<long long>(%s)" % expr if kind == "num" else expr
        body.append('    %s %s = %s; %s("%s", %s);' % (typ, name, init, fn, name, name))
    src = ("// GENERATED by props/C38.py from src/proxyp/Parser.cc\nnamespace ProxyProtocol { namespace One {\n"
           "static void DumpGenerated() {\n%s\n}\n} }\n" % "\n".join(body))
    path = os.path.join(stage.work, "c38_gen.inc")
    with open(path, "w") as f:
        f.write(src)
    return path


def build_exe(stage):
    if "c38" in getattr(stage, "built", {}):
        return stage.built["c38"]
    gen_inc(stage)
    # harness/c38.cc #includes proxyp/Parser.cc (the code under test is part of the sanitizer-built harness unit)
    objs = [stage.compile(os.path.join(VERIF, "harness", "c38.cc"), extra=["-I", stage.work]),
            stage.compile("src/proxyp/Header.cc"),
            stage.compile("src/proxyp/Elements.cc"),
            stage.compile("src/parser/BinaryTokenizer.cc")]
    exe = stage.link_like("tests/testTokenizer", objs, os.path.join(stage.work, "c38"),
                          extra=["-Wl,--wrap=getaddrinfo", "ip/libip.la", "SquidConfig.o", "tests/stub_tools.o",
                                 "tests/stub_HelperChildConfig.o", "String.o", "StrList.o", "sbuf/libsbuf.la", "base/libbase.la",
                                 "../compat/libcompatsquid.la"])
    stage.built = getattr(stage, "built", {})
    stage.built["c38"] = exe
    return exe


def build(stage):
    return ProcHarness([build_exe(stage)], env={"UBSAN_OPTIONS": "print_stacktrace=0:halt_on_error=1:exitcode=86"})


# ------------------------------------------------------------------ reference encoder

def enc_v1(fam, src, dst, sp, dp):
    """fam b'4'/b'6'; src/dst/sp/dp are the texts to send"""
    return b"PROXY TCP" + fam + b" " + src + b" " + dst + b" " + sp + b" " + dp + b"\r\n"


def enc_tlvs(tlvs):
    return b"".join(bytes([t]) + len(v).to_bytes(2, "big") + v for t, v in tlvs)


def enc_v2(cmd, fam, proto, block, tlvs=(), ver=2):
    body = block + enc_tlvs(tlvs)
    return SIG2 + bytes([(ver << 4) | cmd, (fam << 4) | proto]) + len(body).to_bytes(2, "big") + body


def block4(src, dst, sp, dp):
    return src + dst + sp.to_bytes(2, "big") + dp.to_bytes(2, "big")


MAPPED = b"\0" * 10 + b"\xff\xff"

# ------------------------------------------------------------------ reference decoder (the protocol, not squid)

V4_RE = re.compile(rb"(0|[1-9][0-9]{0,2})\.(0|[1-9][0-9]{0,2})\.(0|[1-9][0-9]{0,2})\.(0|[1-9][0-9]{0,2})")
PORT_RE = re.compile(rb"0|[1-9][0-9]{0,4}")


def strict_v4(tok):
    m = V4_RE.fullmatch(tok)
    if not m or any(int(g) > 255 for g in m.groups()):
        return None
    return bytes(int(g) for g in m.groups())


def strict_v6(tok):
    """what inet_pton(AF_INET6) accepts (hex groups, one '::', optional dotted-quad tail as inet_ntop prints for mapped addresses)"""
    if not tok or any(c not in IPCHARS for c in tok):
        return None
    try:
        return socket.inet_pton(socket.AF_INET6, tok.decode("latin-1"))
    except (OSError, ValueError):
        return None


def libc_numeric(tok):
    """numeric getaddrinfo as Ip::Address stores it (16 octets), for tokens over the ipChars alphabet"""
    if not tok or any(c not in IPCHARS for c in tok):
        return None
    try:
        return MAPPED + socket.inet_aton(tok.decode("latin-1"))
    except (OSError, ValueError):
        pass
    return strict_v6(tok)


def strict_port(tok):
    if not PORT_RE.fullmatch(tok) or int(tok) > 65535:
        return None
    return int(tok)


def ref_v1_interior(inter):
    """-> ("ok", expectation) | ("bad", reason)"""
    if not inter.startswith(b" "):
        return "bad", "v1-no-sp-after-magic"
    rest = inter[1:]
    if rest.startswith(b"UNKNOWN"):
        return "ok", {"ver": 1, "cmd": 1, "addrs": 0, "fwd": 0, "src": None, "dst": None, "tlvs": []}
    if not rest.startswith(b"TCP"):
        return "bad", "v1-proto"
    f = rest[3:].split(b" ")
    if f[0] not in (b"4", b"6"):
        return "bad", "v1-family"
    if len(f) < 5 or any(x == b"" for x in f[1:5]):
        return "bad", "v1-fields"
    fam, s, d, sp, dp = f[0], f[1], f[2], f[3], f[4]
    conv = strict_v4 if fam == b"4" else strict_v6
    sa, da = conv(s), conv(d)
    if sa is None or da is None:
        return "bad", "v1-address"
    spn = strict_port(sp)
    if spn is None:
        return "bad", "v1-port"
    dpn = strict_port(dp)
    if dpn is None or len(f) > 5:
        # distinguish a clean port followed by garbage from a plainly bad port
        m = re.match(rb"(0|[1-9][0-9]{0,4})(?![0-9])", dp)
        if m and int(m.group(1)) <= 65535:
            return "bad", "v1-trailing"
        return "bad", "v1-port"
    if fam == b"4":
        sa, da = MAPPED + sa, MAPPED + da
    return "ok", {"ver": 1, "cmd": 1, "addrs": 1, "fwd": 1, "src": (sa, spn), "dst": (da, dpn), "tlvs": []}


def ref_decode(b):
    """-> ("ok", size, expectation) | ("bad", reason) [complete and malformed: must be rejected] |
          ("open", reason) [not complete yet: `more` or an early rejection are both fine, a header is not]"""
    if b.startswith(SIG2):
        if len(b) < 16:
            return "open", "v2-short"
        vc, fp = b[12], b[13]
        n = int.from_bytes(b[14:16], "big")
        if len(b) < 16 + n:
            return "open", "v2-short"
        if vc >> 4 != 2:
            return "bad", "v2-version"
        cmd, fam, proto = vc & 15, fp >> 4, fp & 15
        if cmd > 1:
            return "bad", "v2-command"
        if fam > 3:
            return "bad", "v2-family"
        if proto > 2:
            return "bad", "v2-transport"
        body = b[16:16 + n]
        exp = {"ver": 2, "cmd": cmd, "addrs": None, "fwd": 0, "src": None, "dst": None, "tlvs": None}
        if cmd == 0:
            # LOCAL: "discard the protocol block including the family which is ignored"
            return "ok", 16 + n, exp
        if fam == 0 or proto == 0:
            exp["addrs"] = 0
            return "ok", 16 + n, exp
        alen = {1: 12, 2: 36, 3: 216}[fam]
        if n < alen:
            return "bad", "v2-short-address-block"
        if fam == 1:
            exp["src"] = (MAPPED + body[0:4], int.from_bytes(body[8:10], "big"))
            exp["dst"] = (MAPPED + body[4:8], int.from_bytes(body[10:12], "big"))
            exp["fwd"] = 1
        elif fam == 2:
            exp["src"] = (body[0:16], int.from_bytes(body[32:34], "big"))
            exp["dst"] = (body[16:32], int.from_bytes(body[34:36], "big"))
            exp["fwd"] = 1
        else:
            exp["fwd"] = 0      # AF_UNIX paths are not IP addresses: nothing to forward
        tl, i = [], alen
        while i < n:
            if i + 3 > n:
                return "bad", "v2-short-tlv"
            ln = int.from_bytes(body[i + 1:i + 3], "big")
            if i + 3 + ln > n:
                return "bad", "v2-short-tlv"
            tl.append((body[i], body[i + 3:i + 3 + ln]))
            i += 3 + ln
        exp["tlvs"] = tl
        return "ok", 16 + n, exp
    if b.startswith(SIG1):
        rest = b[5:]
        i = rest.find(b"\r")
        if i < 0:
            return ("bad", "v1-too-long") if len(rest) > 100 else ("open", "v1-no-cr")
        if i > 100:
            return "bad", "v1-too-long"
        if i == 0:
            return "bad", "v1-empty"
        if i + 1 >= len(rest):
            return "open", "v1-no-lf"
        if rest[i + 1] != 10:
            return "bad", "v1-cr-without-lf"
        k, e = ref_v1_interior(rest[:i])
        if k == "ok":
            return "ok", 5 + i + 2, e
        return "bad", e
    if len(b) >= 12:
        return "bad", "magic"
    return "open", "magic"


# ------------------------------------------------------------------ reading the implementation's observation

def parse_outcome(o):
    """'more' | ('reject', slug, dns) | ('ok', dict)"""
    parts = o.split(";")
    dns = None
    for p in parts[1:]:
        if p.startswith("dns="):
            dns = p[4:]
    if parts[0] == "more":
        return ("more", None, dns)
    if parts[0].startswith("reject:"):
        return ("reject", parts[0][7:], dns)
    if parts[0] == "ok":
        d = {}
        for p in parts[1:]:
            k, _, v = p.partition("=")
            d[k] = v
        def addr(s):
            h, _, port = s.partition(":")
            return (unhx(h), int(port))
        tl = []
        if d["tlvs"] != "-":
            for t in d["tlvs"].split(","):
                ty, _, v = t.partition(":")
                tl.append((int(ty), unhx(v)))
        return ("ok", {"size": int(d["size"]), "ver": int(d["ver"]) if d["ver"].isdigit() else -1, "cmd": int(d["cmd"]),
                       "addrs": int(d["addrs"]), "fwd": int(d["fwd"]), "src": addr(d["src"]), "dst": addr(d["dst"]), "tlvs": tl}, dns)
    raise ValueError("unparsable outcome " + o[:80])


def observations(line, impl):
    """-> (bytes, [(prefix length, outcome string)]) for a/s/p lines"""
    w = line.split(" ")
    if w[0] == "p":
        b = unhx(w[1])
        return b, [(len(b), impl)]
    if w[0] == "a":
        b = unhx(w[1])
        obs = []
        for seg in impl.split(" "):
            rng_, _, o = seg.partition(":")
            lo, _, hi = rng_.partition("-")
            for k in range(int(lo), int(hi) + 1):
                obs.append((k, o))
        if [k for k, _ in obs] != list(range(len(b) + 1)):
            raise ValueError("prefix lengths are not 0..n")
        return b, obs
    if w[0] == "s":
        b = unhx(w[2])
        obs = []
        for seg in impl.split(" "):
            k, _, o = seg.partition(":")
            obs.append((int(k), o))
        if [str(k) for k, _ in obs] != w[1].split(","):
            raise ValueError("cut list differs")
        return b, obs
    raise ValueError("bad op")


def check_ok(exp, size, got):
    """compare a parsed header with the reference expectation; -> None or reason"""
    if got["size"] != size:
        return "consumed size %d differs from the header length %d" % (got["size"], size)
    for k in ("ver", "cmd", "fwd", "addrs"):
        if exp[k] is not None and got[k] != exp[k]:
            return "field %s: parsed %s, encoded %s" % (k, got[k], exp[k])
    for k in ("src", "dst"):
        if exp[k] is not None and got[k] != exp[k]:
            return "%s address/port differs from the encoded one" % k
    if exp["tlvs"] is not None and got["tlvs"] != exp["tlvs"]:
        return "TLVs differ from the encoded ones"
    return None


def oracle(line, impl):
    if impl.startswith("abort:"):
        return "sanitizer/abort: " + impl
    w = line.split(" ")
    if w[0] == "i":
        ref = libc_numeric(unhx(w[1]))
        want = "none" if ref is None else "ip " + hx(ref)
        return None if impl == want else "address text conversion differs from libc: want " + want
    try:
        b, obs = observations(line, impl)
        parsed = [(k, o, parse_outcome(o)) for k, o in obs]
    except (ValueError, KeyError, IndexError) as e:
        return "unparsable output (%s)" % e
    # 1. incremental: a definite answer never changes when more bytes arrive; a header never claims more than the buffer
    first = None
    for k, o, po in parsed:
        if po[0] == "ok" and po[1]["size"] > min(k, len(b)):
            return "parsed size %d exceeds the %d available bytes" % (po[1]["size"], min(k, len(b)))
        if first is not None and o != first[1]:
            return "answer changed with more bytes: prefix %d gives %s, prefix %d gives %s" % (first[0], first[1].split(";")[0], k, o.split(";")[0])
        if first is None and po[0] != "more":
            first = (k, o)
    # 2. faithful: judge every observed prefix by the reference decoder
    for k, o, po in parsed:
        why = judge(b[:k], o, po)
        if why:
            return why + " [at=%d]" % k
    # 3. no name-service lookups while parsing
    for k, o, po in parsed:
        if po[2] is not None:
            return "dns: parsing consulted name services for the token %s [at=%d]" % (po[2], k)
    return None


def judge(b, o, po):
    ref = ref_decode(b)
    if ref[0] == "ok":
        size, exp = ref[1], ref[2]
        if po[0] != "ok":
            return "valid: well-formed header (%s) answered with %s" % (exp_kind(exp), o.split(";")[0])
        why = check_ok(exp, size, po[1])
        if why:
            return "unfaithful: " + why
    elif ref[0] == "bad":
        if po[0] == "ok":
            return "lax:%s: malformed header accepted" % ref[1]
        if po[0] == "more":
            return "stuck:%s: complete malformed header is not rejected" % ref[1]
    else:
        if po[0] == "ok":
            return "early:%s: incomplete input accepted" % ref[1]
    return None


def exp_kind(exp):
    return "v%d cmd=%d" % (exp["ver"], exp["cmd"])


# ------------------------------------------------------------------ known findings

def v1_fields(b):
    """fields of a complete v1 TCP line or None"""
    if not b.startswith(b"PROXY TCP"):
        return None
    i = b.find(b"\r\n")
    if i < 0:
        return None
    return b[9:i].split(b" ")


def classify(line, impl, why):
    if not why:
        return None
    w = line.split(" ")
    if w[0] == "i":
        return None
    try:
        b, obs = observations(line, impl)
    except Exception:
        return None
    m = re.search(r" \[at=(\d+)\]$", why)
    if not m:
        return None
    k = int(m.group(1))
    o = dict(obs).get(k)
    if o is None:
        return None
    b = b[:k]
    f = v1_fields(b)
    if why.startswith("dns:"):
        # only v1 lines whose looked-up token is an address field over the ipChars alphabet that libc does not accept as numeric
        tok = unhx(re.search(r"token (\S+) \[at=", why).group(1))
        if f and len(f) >= 3 and tok in (f[1], f[2]) and all(c in IPCHARS for c in tok) and libc_numeric(tok) is None:
            return "C38-v1-dns-lookup"
        return None
    if why.startswith("lax:v1-address:") and f and len(f) >= 5:
        conv = strict_v4 if f[0] == b"4" else strict_v6
        bad = [t for t in (f[1], f[2]) if conv(t) is None]
        # accepted although not in the declared family's text form: libc's lenient numeric forms
        if bad and all(libc_numeric(t) is not None for t in bad) and o.startswith("ok;"):
            return "C38-v1-lax-address"
        return None
    if why.startswith("lax:v1-trailing:") and f and len(f) >= 5 and o.startswith("ok;"):
        return "C38-v1-trailing-garbage"
    if why.startswith("lax:v1-port:") and f and len(f) >= 5 and o.startswith("ok;"):
        # digit runs with leading zeros, values in range (bytes after the destination port digits are the trailing-garbage finding)
        m = re.match(rb"[0-9]+", f[4])
        ports = [f[3], m.group(0) if m else b"x"]
        if all(re.fullmatch(rb"[0-9]+", p) and int(p) <= 65535 for p in ports) and any(p != b"0" and p.startswith(b"0") for p in ports):
            return "C38-v1-port-leading-zeros"
        return None
    if why.startswith("valid:") and f and len(f) == 5 and f[0] == b"6" and "families-mismatch" in o:
        sa, da = strict_v6(f[1]), strict_v6(f[2])
        if sa and da and (sa.startswith(MAPPED) or da.startswith(MAPPED)):
            return "C38-v1-tcp6-mapped-rejected"
        return None
    if why.startswith("unfaithful: field fwd") and b.startswith(SIG2) and len(b) >= 16 and b[12] == 0x21 and b[13] >> 4 == 3:
        return "C38-v2-unix-forwarded"
    if why.startswith("valid:") and b.startswith(SIG2) and len(b) >= 16 and b[12] == 0x20 and "check-failed-expectmore" in o:
        return "C38-v2-local-block-parsed"
    return None


# ------------------------------------------------------------------ generators

def rnd_v4(rng):
    k = rng.below(8)
    if k == 0:
        return bytes(rng.choice([0, 1, 9, 10, 99, 100, 127, 199, 200, 249, 250, 255]) for _ in range(4))
    if k == 1:
        return rng.choice([b"\0\0\0\0", b"\xff\xff\xff\xff", b"\x7f\0\0\1", b"\xc0\xa8\0\1", b"\x0a\0\0\1"])
    return rng.bytes(4)


def rnd_v6(rng):
    k = rng.below(10)
    if k == 0:
        return rng.choice([b"\0" * 16, b"\0" * 15 + b"\1", b"\xff" * 16, MAPPED + b"\x01\x02\x03\x04", b"\0" * 12 + b"\x01\x02\x03\x04",
                           b"\xfe\x80" + b"\0" * 13 + b"\1", b"\x20\x01\x0d\xb8" + b"\0" * 12])
    if k <= 3:   # zero runs
        g = [rng.below(65536) if rng.chance(1, 2) else 0 for _ in range(8)]
        return b"".join(x.to_bytes(2, "big") for x in g)
    if k == 4:
        return MAPPED + rnd_v4(rng)
    return rng.bytes(16)


def v4_text(a):
    return ".".join(str(x) for x in a).encode()


def v6_text(rng, a, canonical=False):
    """one of the spellings inet_pton accepts"""
    k = 0 if canonical else rng.below(5)
    if k == 0:
        return socket.inet_ntop(socket.AF_INET6, a).encode()
    g = [int.from_bytes(a[i:i + 2], "big") for i in range(0, 16, 2)]
    if k == 1:
        return ":".join("%x" % x for x in g).encode()
    if k == 2:
        return ":".join("%04X" % x for x in g).encode()
    if k == 3:
        t = socket.inet_ntop(socket.AF_INET6, a)
        return "".join(c.upper() if rng.chance(1, 2) else c for c in t).encode()
    # compress the first zero group only
    for i, x in enumerate(g):
        if x == 0:
            l = ":".join("%x" % y for y in g[:i])
            r = ":".join("%x" % y for y in g[i + 1:])
            return (l + "::" + r).encode()
    return ":".join("%x" % x for x in g).encode()


def rnd_port(rng):
    k = rng.below(6)
    if k == 0:
        return rng.choice([0, 1, 9, 10, 80, 99, 100, 999, 1000, 9999, 10000, 65534, 65535])
    return rng.below(65536)


def payload(rng):
    return rng.choice([b"", b"G", b"GET / HTTP/1.1\r\nHost: x\r\n\r\n", b"\r\n", b"PROXY ", SIG2, b"\x00\xff" * 3])


def valid_v1(rng):
    k = rng.below(10)
    if k < 4:
        return enc_v1(b"4", v4_text(rnd_v4(rng)), v4_text(rnd_v4(rng)), b"%d" % rnd_port(rng), b"%d" % rnd_port(rng))
    if k < 8:
        a, b = rnd_v6(rng), rnd_v6(rng)
        if rng.chance(3, 4):      # keep most TCP6 samples unmapped (mapped ones hit a known finding)
            if a.startswith(MAPPED):
                a = b"\x20\x01" + a[2:]
            if b.startswith(MAPPED):
                b = b"\x20\x01" + b[2:]
        return enc_v1(b"6", v6_text(rng, a), v6_text(rng, b), b"%d" % rnd_port(rng), b"%d" % rnd_port(rng))
    if k == 8:
        return b"PROXY UNKNOWN\r\n"
    tail = rng.bytes(rng.range(0, 90), b" abcXYZ019:.\n\t\x00\xff")
    return b"PROXY UNKNOWN" + tail + b"\r\n"


def rnd_tlvs(rng, room):
    tl = []
    n = rng.choice([0, 0, 1, 1, 2, 3, 6])
    for _ in range(n):
        ln = rng.choice([0, 1, 2, 3, 7, 16, 40, 255, 256])
        if 3 + ln > room:
            ln = max(0, min(ln, room - 3))
            if room < 3:
                break
        t = rng.choice([1, 2, 3, 4, 0x20, 0x21, 0x22, 0x30, 0xE0, 0xEE, 0, 255, rng.below(256)])
        tl.append((t, rng.bytes(ln)))
        room -= 3 + ln
    return tl


def valid_v2(rng, cmd=None, fam=None, proto=None):
    cmd = rng.choice([1, 1, 1, 0]) if cmd is None else cmd
    fam = rng.choice([1, 1, 2, 2, 3, 0]) if fam is None else fam
    proto = rng.choice([1, 1, 2, 0]) if proto is None else proto
    if fam == 1:
        block = block4(rnd_v4(rng), rnd_v4(rng), rnd_port(rng), rnd_port(rng))
    elif fam == 2:
        block = block4(rnd_v6(rng), rnd_v6(rng), rnd_port(rng), rnd_port(rng))
    elif fam == 3:
        block = (rng.bytes(rng.range(0, 20), b"/tmp.sock") + b"\0" * 108)[:108] + (b"/x" + b"\0" * 108)[:108]
    else:
        block = rng.bytes(rng.choice([0, 0, 12, 36, 5]))
    tl = rnd_tlvs(rng, 300 - len(block))
    if cmd == 0 and fam in (1, 2, 3) and rng.chance(1, 2):
        tl = []
    return enc_v2(cmd, fam, proto, block, tl)


def boundary(rng):
    k = rng.below(14)
    if k == 0:    # v1 line lengths around 107 through a long UNKNOWN tail / long addresses
        n = rng.choice([99, 100, 101, 98, 102])          # interior length
        inter = b" UNKNOWN" + rng.bytes(n - 8, b"x y")
        return b"PROXY" + inter + b"\r\n"
    if k == 1:    # longest TCP6 line (104 octets)
        full = b"ffff:ffff:ffff:ffff:ffff:ffff:ffff:ffff"
        return enc_v1(b"6", full, full, b"65535", b"65535")
    if k == 2:    # ports around the limits
        p = rng.choice([b"65535", b"65536", b"65537", b"99999", b"100000", b"4294967296", b"9223372036854775807", b"9223372036854775808",
                        b"18446744073709551616", b"0", b"00", b"080", b"0000000000000000000000080", b"", b"+80", b"-1", b"0x50", b"8 0"])
        q = b"%d" % rnd_port(rng)
        return enc_v1(b"4", b"1.2.3.4", b"5.6.7.8", *((p, q) if rng.chance(1, 2) else (q, p)))
    if k == 3:    # address spellings libc accepts and the protocol does not
        t = rng.choice([b"1", b"1.2", b"1.2.3", b"010.1.1.1", b"1.2.3.04", b"0", b"4294967295", b"4294967296", b"1.2.3.256", b"1.2.3.4.5",
                        b"1..2.3", b".1.2.3.4", b"1.2.3.4.", b"0377.1.1.1", b"08.1.1.1", b"1.65536", b"1.2.65535", b"::ffff:1.2.3.4",
                        b"::1.2.3.4", b"1:2:3:4:5:6:1.2.3.4", b"::", b":::", b"1::2::3", b"12345::", b"1:2:3:4:5:6:7:8:9", b"1:2:3:4:5:6:7::",
                        b":1:2:3:4:5:6:7", b"1:2:3:4:5:6:7:", b"::ffff:102:304", b"abc.de", b"dead.beef", b"fe.ed", b"a", b"f00d", b"::g"])
        fam = rng.choice([b"4", b"6"])
        other = b"9.8.7.6" if rng.chance(1, 2) else b"2001:db8::9"
        s, d = (t, other) if rng.chance(1, 2) else (other, t)
        if rng.chance(1, 3):
            s = d = t
        return enc_v1(fam, s, d, b"1", b"2")
    if k == 4:    # family mismatches
        a4, a6 = v4_text(rnd_v4(rng)), v6_text(rng, b"\x20\x01" + rng.bytes(14))
        s, d, fam = rng.choice([(a4, a4, b"6"), (a6, a6, b"4"), (a4, a6, b"4"), (a4, a6, b"6"), (a6, a4, b"4"), (a6, a4, b"6")])
        return enc_v1(fam, s, d, b"1", b"2")
    if k == 5:    # separators and trailing bytes of v1
        base = enc_v1(b"4", b"1.2.3.4", b"5.6.7.8", b"10", b"20")[:-2]
        return rng.choice([base + b" \r\n", base + b"x\r\n", base + b" 30\r\n", base + b"\n", base + b"\r", base + b"\r\r\n", base + b"\rX\n",
                           base.replace(b" ", b"  ", 1) + b"\r\n", base.replace(b"TCP4 ", b"TCP4"), b"PROXY\r\n", b"PROXY \r\n", b"PROXYTCP4 1.2.3.4 5.6.7.8 1 2\r\n",
                           b"PROXY TCP 1.2.3.4 5.6.7.8 1 2\r\n", b"PROXY TCP5 1.2.3.4 5.6.7.8 1 2\r\n", b"PROXY tcp4 1.2.3.4 5.6.7.8 1 2\r\n",
                           b"PROXY UNKNOWN\n", b"PROXY UNKNOW\r\n", b"proxy TCP4 1.2.3.4 5.6.7.8 1 2\r\n", b"PROXY TCP4 1.2.3.4 5.6.7.8 1\r\n",
                           b"PROXY TCP4 1.2.3.4 5.6.7.8\r\n", b"PROXY TCP4 1.2.3.4\r\n", b"PROXY TCP4\r\n", b"PROXY TCP4 \r\n"])
    if k == 6:    # v2 length field around the address block size
        fam = rng.choice([1, 2, 3])
        alen = {1: 12, 2: 36, 3: 216}[fam]
        n = max(0, alen + rng.choice([-1, 0, 1, 2, 3, 4, -alen, 1 - alen]))
        return enc_v2(rng.choice([0, 1]), fam, rng.choice([1, 2]), rng.bytes(n)) + payload(rng)
    if k == 7:    # TLV length fields around the end of the header
        fam = rng.choice([1, 2])
        block = block4(rnd_v4(rng), rnd_v4(rng), 1, 2) if fam == 1 else block4(rnd_v6(rng), rnd_v6(rng), 1, 2)
        good = enc_tlvs(rnd_tlvs(rng, 60))
        last = rng.choice([b"\x01", b"\x01\x00", b"\x01\x00\x00", b"\x01\x00\x01", b"\x01\x00\x01A", b"\x01\x00\x02A", b"\x01\xff\xff", b"\x04\x00\x00\x04"])
        return enc_v2(1, fam, 1, block + good + last) + payload(rng)
    if k == 8:    # v2 field values outside the enumerations
        vc = rng.choice([0x20, 0x21, 0x22, 0x2f, 0x11, 0x31, 0x01, 0xf1, 0x00])
        fp = rng.choice([0x00, 0x11, 0x12, 0x13, 0x21, 0x31, 0x41, 0xf1, 0x1f, 0x10, 0x01, 0x32, 0x33])
        block = block4(rnd_v4(rng), rnd_v4(rng), 1, 2)
        return SIG2 + bytes([vc, fp]) + len(block).to_bytes(2, "big") + block + payload(rng)
    if k == 9:    # magic neighbourhood
        m = bytearray(rng.choice([SIG2, SIG1 + b" TCP4 1"]))
        i = rng.below(len(m))
        m[i] = rng.choice([m[i] ^ 1, m[i] ^ 0x20, 0, 255])
        return bytes(m) + rng.choice([b"", b"\x21\x11\x00\x0c" + b"\1" * 12, b" 1.2.3.4 1 2\r\n"])
    if k == 10:   # short inputs
        return rng.choice([b"", b"P", b"\r", b"\r\n\r\n", SIG2[:11], SIG2, SIG2 + b"\x21", b"PROX", b"PROXY", b"GET / HTTP/1.1\r\n\r\n", b"\r\n\r\n\0\r\nQUIX\n....", b"PROXZ TCP4 1"])
    if k == 11:   # LOCAL with odd blocks, UNSPEC with data
        return enc_v2(0, rng.choice([0, 1, 2, 3]), rng.choice([0, 1, 2]), rng.bytes(rng.choice([0, 0, 1, 11, 12, 13, 36, 216, 220]))) + payload(rng)
    if k == 12:   # mapped addresses in v1 TCP6 (inet_ntop spelling) and in v2 INET6
        a, b = MAPPED + rnd_v4(rng), rng.choice([MAPPED + rnd_v4(rng), b"\x20\x01" + rng.bytes(14)])
        if rng.chance(1, 2):
            return enc_v1(b"6", v6_text(rng, a, True), v6_text(rng, b, True), b"1", b"2")
        return enc_v2(1, 2, 1, block4(a, b, 1, 2))
    # v1 interior with CR/LF in odd places
    base = bytearray(valid_v1(rng))
    i = rng.below(len(base))
    base[i:i] = rng.choice([b"\r", b"\n", b"\r\n", b"\0"])
    return bytes(base)


def mutate(rng, b):
    b = bytearray(b)
    for _ in range(rng.choice([1, 1, 1, 2, 3])):
        k = rng.below(7)
        if not b:
            b = bytearray(rng.bytes(3))
        i = rng.below(len(b))
        if k == 0:
            b[i] ^= 1 << rng.below(8)
        elif k == 1:
            b[i] = rng.choice([0, 13, 10, 32, 48, 57, 58, 46, 255, rng.below(256)])
        elif k == 2:
            del b[i]
        elif k == 3:
            b[i:i] = rng.choice([b" ", b"\r", b"0", b":", b".", b"\0", rng.bytes(1)])
        elif k == 4:
            j = rng.range(i, min(len(b), i + 8))
            b[i:i] = b[i:j]
        elif k == 5:
            j = rng.range(i, min(len(b), i + 8))
            del b[i:j]
        else:
            other = valid_v2(rng) if rng.chance(1, 2) else valid_v1(rng)
            b = b[:i] + bytearray(other[rng.below(len(other)):])
    return bytes(b)


def big_v2(rng):
    """headers near the 64 KB limit, observed at selected prefix lengths"""
    block = block4(rnd_v4(rng), rnd_v4(rng), 1, 2)
    k = rng.below(4)
    room = 65535 - len(block)
    if k == 0:
        tl = [(1, rng.bytes(room - 3))]
    elif k == 1:
        tl = [(2, rng.bytes(30000)), (3, rng.bytes(room - 30003 - 3))]
    elif k == 2:
        tl = [(4, b"")] * 1000 + [(5, rng.bytes(9))]
    else:
        tl = [(1, rng.bytes(room - 3 - rng.range(1, 5)))]
    b = enc_v2(1, 1, 1, block, tl)
    if k == 3:   # length field says 65535 but the last TLV is short of it: fix the length to 65535 => truncated TLV
        b = b[:14] + b"\xff\xff" + b[16:] + b"\0" * (16 + 65535 - len(b))
    b += b"GET"
    n = len(b)
    cuts = sorted(set([0, 1, 5, 11, 12, 13, 14, 15, 16, 17, 27, 28, 29, 31, 1000, n // 2, n - 5, n - 4, n - 3, n - 2, n - 1, n]))
    return "s %s %s" % (",".join(str(c) for c in cuts if 0 <= c <= n), hx(b))


def ip_token(rng):
    k = rng.below(6)
    if k == 0:
        return v4_text(rnd_v4(rng))
    if k == 1:
        return v6_text(rng, rnd_v6(rng))
    if k == 2:   # inet_aton shapes
        parts = rng.range(1, 5)
        return b".".join(rng.choice([b"%d" % rng.below(300), b"0%o" % rng.below(600), b"%d" % rng.choice([0, 255, 256, 65535, 65536, 16777215, 16777216, 4294967295, 4294967296]),
                                     b"08", b"00", b"0", b"", b"1a"]) for _ in range(parts))
    if k == 3:   # inet_pton6 shapes
        n = rng.range(1, 9)
        g = [rng.choice([b"", b"0", b"1", b"ffff", b"FFFF", b"10000", b"abcd", b"0000", b"00000", b"1.2.3.4", b"f"]) for _ in range(n)]
        return b":".join(g)
    if k == 4:
        return mutate(rng, ip_token_base(rng)).translate(None, bytes(c for c in range(256) if c not in IPCHARS)) or b"1"
    return rng.bytes(rng.range(1, 12), b".:0123456789abcdefABCDEF")


def ip_token_base(rng):
    return v4_text(rnd_v4(rng)) if rng.chance(1, 2) else v6_text(rng, rnd_v6(rng))


def emit(b):
    return ("a " if len(b) <= A_LIMIT else "p ") + hx(b)


def cases(rng, tier):
    thorough = tier == "thorough"
    # fixed regression set: one header of every v2 command x family x transport, every prefix
    for cmd in (0, 1):
        for fam in (0, 1, 2, 3):
            for proto in (0, 1, 2):
                yield emit(valid_v2(rng, cmd, fam, proto) + b"GET")
    nvalid = 6000 if thorough else 500
    for i in range(nvalid):
        b = valid_v1(rng) if i % 2 else valid_v2(rng)
        yield emit(b + payload(rng))
    nb = 6000 if thorough else 500
    for i in range(nb):
        yield emit(boundary(rng))
    nm = 8000 if thorough else 600
    for i in range(nm):
        seed = valid_v1(rng) if rng.chance(1, 2) else valid_v2(rng)
        if rng.chance(1, 6):
            seed = boundary(rng)
        yield emit(mutate(rng, seed + payload(rng)))
    nr = 2000 if thorough else 150
    for i in range(nr):
        m = rng.choice([SIG2, SIG2, SIG1, SIG1 + b" ", SIG1 + b" TCP4 ", SIG1 + b" TCP6 ", b""])
        yield emit(m + rng.bytes(rng.range(0, 60)))
    for i in range(12 if thorough else 3):
        yield big_v2(rng)
    for i in range(6000 if thorough else 500):
        yield "i " + hx(ip_token(rng))
    if thorough:
        # every (version/command, family/transport) octet pair in front of an INET-sized block with one TLV
        block = block4(b"\x0a\0\0\1", b"\x0a\0\0\2", 1000, 443) + enc_tlvs([(4, b"ab")])
        for vc in range(256):
            for fp in range(256):
                yield "p " + hx(SIG2 + bytes([vc, fp]) + len(block).to_bytes(2, "big") + block)
        # every offset of seed headers x 3 substituted values
        seeds = [enc_v1(b"4", b"192.168.0.1", b"10.0.0.255", b"56324", b"443"), enc_v1(b"6", b"2001:db8::1", b"::1", b"1", b"65535"),
                 b"PROXY UNKNOWN\r\n", enc_v2(1, 1, 1, block4(b"\1\2\3\4", b"\5\6\7\10", 1, 2), [(1, b"h2"), (0x30, b"")]),
                 enc_v2(1, 2, 2, block4(b"\x20\x01" + b"\0" * 13 + b"\1", b"\xfe\x80" + b"\0" * 13 + b"\2", 9, 8), [(3, b"\1\2\3\4")])]
        for sd in seeds:
            for i in range(len(sd)):
                for v in (0, sd[i] ^ 1, rng.below(256)):
                    m = bytearray(sd)
                    m[i] = v
                    yield emit(bytes(m))


def shrink(line):
    """byte-level delta debugging of the hex token; `s` lines are not shrunk (their cut list refers to offsets)"""
    w = line.split(" ")
    if w[0] not in ("a", "p", "i") or w[1] == "-":
        return
    tk = w[1]
    n = len(tk) // 2
    step = max(1, n // 2)
    while step >= 1:
        for off in range(0, n, step):
            cand = tk[:off * 2] + tk[(off + step) * 2:]
            yield w[0] + " " + (cand or "-")
        step //= 2


def nontrivial(line, impl, model):
    return ":ok;" in impl or impl.startswith("ok;") or impl.startswith("ip ")


def tag(line, impl, model):
    w = line.split(" ")
    if w[0] == "i":
        return "i " + impl.split(" ")[0]
    try:
        b = unhx(w[-1])
    except ValueError:
        return "bad"
    kind = "v2" if b.startswith(SIG2) else "v1" if b.startswith(SIG1) else "nomagic"
    last = impl.rsplit(" ", 1)[-1]
    last = last.split(":", 1)[1] if w[0] in ("a", "s") and ":" in last else last
    res = last.split(";")[0]
    if res.startswith("reject:"):
        res = res[:40]
    return "%s %s %s" % (w[0], kind, res)


def exhaustive(tier):
    return tier == "thorough"   # all 65536 (version/command, family/transport) octet pairs; every prefix of every generated header


KNOWN_MUST_MATCH_MODEL = True   # inside a known finding's region the observation must still equal the model's (which reproduces the listed defect); see lib/vf/run.py
