"""C23 Status-line parsing is correct and segmentation-independent."""
import os, re
from vf.util import VERIF, hx, unhx
from vf.harness import ProcHarness

ID = "C23"
PROP_MODULE = "SquidModel.Properties.C23"
MODEL = "c23"
GEN = ["charsets", "http1_resp"]
RULE = ("p <relaxed> <limit> <segments>: Http1::ResponseParser fed segment by segment as HttpStateData::processReplyHeader does, "
        "and once with the concatenation (grammar-generated, boundary and mutated response heads x split points; every single split "
        "point of every head, all pairs of split points for heads <= 64 bytes in thorough); s <relaxed> <bytes>: ParseResponseStatus "
        "alone (all strings <= 4 (5 in thorough) over a 10-symbol alphabet, all 000..999). non-trivial = the parser went past the "
        "magic prefix (status-line accepted, rejected or waiting inside it) or took the HTTP/0.9 decision on a non-empty input; "
        "distinct = distinct input lines")
TRUSTED = ["modelled, not verified: SBuf/Tokenizer primitives (startsWith, findFirstNotOf, consume, int64 for <= 3 decimal digits) are "
           "modelled as list functions; the C++ exception control flow of parseResponseStatusAndReason is modelled as a three-valued result",
           "python reference recogniser of the status-line grammar and of the header-block post-processing in props/C23.py (the direct oracle)"]
ASSUMPTIONS = ["Tokenizer::int64 is only called with limit 1 and 3, so its overflow branch is unreachable and not modelled",
               "Config.onoff.relaxed_header_parser and Config.maxReplyHeaderSize do not change while a response head is being parsed",
               "hackExpectsMime_ is false (nothing in the tree sets it for response parsers)"]
MANIFEST = {
    "text": "full: for every byte string, every segmentation, both parser modes and every reply-header limit the model of "
            "Http1::ResponseParser (parse, parseResponseFirstLine, parseResponseStatusAndReason, ParseResponseStatus, skipLineTerminator, "
            "grabMimeBlock with headersEnd/cleanMimePrefix/unfoldMime, firstLineSize) fed incrementally reports the one-shot outcome "
            "(theorem segmentation_independent; exact state equality incl. the unparsed rest unless the header-too-large error fired early); "
            "an accepted status line is exactly a word of the status-line grammar with the extracted fields, status 100..599 with exactly "
            "three digits; inputs without HTTP/1. or 'ICY ' prefix take the HTTP/0.9 branch without consuming anything. Constants and "
            "delimiter sets are regenerated from the staged tree every run; the real parser runs under ASan/UBSan against the model and "
            "against a direct incremental==one-shot + reference-grammar oracle",
    "note": "trusted: Lean kernel (+propext/Classical.choice/Quot.sound as printed), translator, C++ harness, python reference grammar; "
            "modelled not verified: SBuf/Tokenizer primitives as list functions (covered by the differential run under ASan only)",
    "technique": "Lean 4 proof (prefix-monotonicity of every parsing phase + checkpoint resumption, induction over the segment list) "
                 "+ constants translator + ASan differential run with a direct oracle",
}


def build_exe(stage):
    built = getattr(stage, "built", None)
    if built is None:
        built = stage.built = {}
    if "c23" in built:
        return built["c23"]
    objs = [stage.compile(os.path.join(VERIF, "harness", "c23.cc"))]
    objs += stage.compile_many(["src/http/one/ResponseParser.cc", "src/http/one/Parser.cc", "src/parser/Tokenizer.cc", "src/mime_header.cc"])
    exe = stage.link_like("tests/testHttp1Parser", objs, os.path.join(stage.work, "c23"), drop=("mime_header.o",))
    built["c23"] = exe
    return exe


def build(stage):
    return ProcHarness([build_exe(stage)])


# ----------------------------------------------------------------------------------------------------------------
# reference (direct oracle): the status-line grammar as regular expressions, written from RFC 9112 section 4 plus the
# tolerances documented in Parser.cc; deliberately not shaped like the parser (no tokenizer, no checkpoints)
# ----------------------------------------------------------------------------------------------------------------
PHRASE = rb"[\t \x21-\x7e\x80-\xff]"
DELIM = {0: rb" ", 1: rb"[ \t\x0b\x0c\r]"}
TERM = {0: rb"\r\n", 1: rb"(?:\n|\r\n)"}
STATUS_LINE = {}
VIABLE = {}
for _r in (0, 1):
    STATUS_LINE[_r] = re.compile(rb"(?:HTTP/1\.(?P<minor>[0-9])" + DELIM[_r] + rb"|(?P<icy>ICY ))(?P<status>[1-5][0-9][0-9])" + DELIM[_r] +
                                 rb"(?P<reason>" + PHRASE + rb"*)" + TERM[_r], re.S)
MAGICS = (b"HTTP/1.", b"ICY ")
FAKE_MIME = b"X-Transformed-From: HTTP/0.9\r\nMime-Version: 1.0\r\nExpires: -1\r\n\r\n"
HDR_END = re.compile(rb"(?:\A|\n)\r?\n", re.S)
LEADING_WS_LINES = re.compile(rb"\A(?:[ \t\x0b\x0c\r][^\n]*(?:\n|\Z))*", re.S)
OBS_FOLD = re.compile(rb"\r*\n[ \t]+", re.S)


def viable_prefix(relaxed, data):
    """is `data` a proper prefix of some word of the status-line grammar (so that the parser must not reject yet)?"""
    # try to complete: the grammar is simple enough to enumerate completions of the unfinished element
    dl = b" "
    tails = [b"", b"1", b"1" + dl, b"00" + dl + b"\r\n", b"0" + dl + b"\r\n", b"1" + dl + b"100" + dl + b"\r\n", dl + b"100" + dl + b"\r\n",
             b"100" + dl + b"\r\n", dl + b"\r\n", b"\r\n", b"\n", b"Y 100 \r\n", b" 100 \r\n", b"CY 100 \r\n"]
    for k in range(0, 8):
        tails.append(b"HTTP/1.1 100 \r\n"[k:])
    for t in tails:
        m = STATUS_LINE[relaxed].match(data + t)
        if m and m.end() > len(data):
            return True
    return False


def has_magic(data):
    return any(data.startswith(m) for m in MAGICS)


def magic_prefix(data):
    return any(len(data) < len(m) and m.startswith(data) for m in MAGICS)


def ref_mime(block):
    """header block post-processing: drop leading whitespace-led lines, replace obs-fold by one SP"""
    m = LEADING_WS_LINES.match(block)
    rest = block[m.end():]
    if rest == b"":
        rest = b"\r\n"
    return OBS_FOLD.sub(b" ", rest)


def ref_oneshot(relaxed, limit, data):
    """Expected report of one parse() of `data`: dict of the fields the reference determines."""
    if data == b"":
        return {"st": "N", "pr": "none/0.0", "sc": 0, "rp": b"", "mh": b"", "psc": 0, "rem": b"", "ok": 0}
    m = STATUS_LINE[relaxed].match(data)
    if m:
        icy = m.group("icy") is not None
        exp = {"pr": "icy/0.0" if icy else "http/1.%d" % int(m.group("minor")), "sc": int(m.group("status")), "rp": m.group("reason")}
        rest = data[m.end():]
        fls = (4 if icy else 7) + 1 + 5 + len(m.group("reason")) + 2     # the parser's own estimate of the line length
        exp["fls"] = fls
        e = HDR_END.search(rest)
        if e:
            hlen = e.end()
            if fls + hlen >= limit:
                exp.update({"st": "D", "psc": 601, "ok": 0, "mh": b"", "rem": rest[hlen:]})
            else:
                exp.update({"st": "D", "psc": 0, "ok": 1, "mh": ref_mime(rest[:hlen]), "rem": rest[hlen:]})
        elif len(rest) + fls >= limit:
            exp.update({"st": "D", "psc": 601, "ok": 0, "mh": b"", "rem": rest})
        else:
            exp.update({"st": "M", "psc": 0, "ok": 0, "mh": b"", "rem": rest})
        return exp
    if not has_magic(data) and not magic_prefix(data):
        return {"st": "D", "pr": "http/1.1", "sc": 200, "rp": b"Gatewaying", "mh": FAKE_MIME, "psc": 0, "rem": data, "ok": 1}
    if viable_prefix(relaxed, data):
        return {"st": "F", "psc": 0, "ok": 0, "rp": b"", "mh": b""}
    # not a word, not a prefix of a word: the parser may reject now or (e.g. "HTTP/1.1 99") keep waiting, never accept
    return {"notaccepted": True}


FIELD_RE = re.compile(r"st=(\S) pr=(\S+) sc=(\d+) rp=(\S+) mh=(\S+) psc=(\d+) rem=(\S+) ok=([01]) fls=(\d+)$")


def parse_outcome(s):
    m = FIELD_RE.match(s.strip())
    if not m:
        return None
    return {"st": m.group(1), "pr": m.group(2), "sc": int(m.group(3)), "rp": unhx(m.group(4)), "mh": unhx(m.group(5)),
            "psc": int(m.group(6)), "rem": unhx(m.group(7)), "ok": int(m.group(8)), "fls": int(m.group(9))}


def split_line(line):
    w = line.split(" ")
    return w[0], int(w[1]), w[2:]


def ref_status(relaxed, data):
    """ParseResponseStatus alone: 1-3 digits, one delimiter, value 100..599"""
    m = re.match(rb"([0-9]{1,3})" + DELIM[relaxed], data, re.S)
    if m:
        v = int(m.group(1))
        if 100 <= v <= 599:
            return "ok %d %s" % (v, hx(data[m.end():]))
        return "invalid %d" % v
    if re.fullmatch(rb"[0-9]{0,3}", data):
        return "insufficient 0"
    return "invalid 0"


def oracle(line, impl):
    if impl.startswith("abort:"):
        return "sanitizer/abort: " + impl
    op, relaxed, rest = split_line(line)
    if op == "s":
        exp = ref_status(relaxed, unhx(rest[0]))
        if impl != exp:
            return "ParseResponseStatus: expected '%s' by the grammar, got '%s'" % (exp, impl)
        return None
    if op != "p":
        return None
    limit = int(rest[0])
    segs = [unhx(x) for x in rest[1:]]
    data = b"".join(segs)
    parts = impl.split(" | ")
    if len(parts) != 2:
        return "unparsable output " + impl[:120]
    inc, one = parse_outcome(parts[0]), parse_outcome(parts[1])
    if inc is None or one is None:
        return "unparsable output " + impl[:120]
    # (1) segmentation independence: everything the parser exposes, except the unparsed rest after the fatal header-too-large error
    for k in ("st", "pr", "sc", "rp", "mh", "psc", "ok", "fls", "rem"):
        if k == "rem" and inc["psc"] == 601 and one["psc"] == 601:
            continue
        if inc[k] != one[k]:
            return "incremental parse differs from one-shot parse in %s: %r vs %r" % (k, inc[k], one[k])
    # (2) the one-shot outcome against the reference grammar
    exp = ref_oneshot(relaxed, limit, data)
    accepted = one["st"] in "MD" and one["psc"] != 600 and one["pr"] != "none/0.0" and not (one["st"] == "D" and one["rp"] == b"Gatewaying" and one["mh"] == FAKE_MIME and one["rem"] == data)
    if exp.get("notaccepted"):
        if one["st"] in "M" or (one["st"] == "D" and one["psc"] != 600):
            return "input is neither a status-line nor HTTP/0.9 but was not rejected: st=%s psc=%d" % (one["st"], one["psc"])
        return None
    for k, v in exp.items():
        if one[k] != v:
            return "one-shot outcome differs from the reference grammar in %s: got %r, expected %r" % (k, one[k], v)
    # (3) explicit range statement of the property
    if accepted and not (100 <= one["sc"] <= 599):
        return "accepted a status-line with status %d" % one["sc"]
    return None


# ----------------------------------------------------------------------------------------------------------------
# generators
# ----------------------------------------------------------------------------------------------------------------
PHRASE_BYTES = bytes([9, 32]) + bytes(range(0x21, 0x7f)) + bytes(range(0x80, 0x100))
RELAXED_DELIMS = b" \t\x0b\x0c\r"
REASONS = [b"OK", b"", b"Not Found", b"Moved Permanently", b" ", b"\t", b"OK ", b"  padded  ", b"\xc3\xa9t\xe9", b"Connection established",
           b"a" * 40, b"~!@#$%^&*()", b"200", b"HTTP/1.1 200 OK"]
STATUSES = [b"100", b"101", b"199", b"200", b"204", b"206", b"301", b"304", b"400", b"404", b"499", b"500", b"503", b"599"]
BAD_STATUSES = [b"000", b"099", b"600", b"601", b"999", b"99", b"9", b"1", b"", b"1000", b"2000", b"0200", b"20x", b"2 0", b"-200", b"+200", b"2e2",
                b"0x1", b"1.0", b"\xb2\xb0\xb0", b"20\r"]
FIELDS = [b"Content-Length: 0", b"Server: x", b"Date: Mon, 01 Jan 2024 00:00:00 GMT", b"X: y", b"Connection: close", b"A:", b"Set-Cookie: a=b; c=d",
          b"Transfer-Encoding: chunked", b"Via: 1.1 a", b"X-Long: " + b"v" * 30]


def gen_reason(rng):
    k = rng.below(10)
    if k < 6:
        return rng.choice(REASONS)
    return rng.bytes(rng.range(0, 12), PHRASE_BYTES)


def gen_block(rng, relaxed):
    """a header block incl. its terminating empty line (sometimes with folds, whitespace-led first lines, bare LF)"""
    out = b""
    if rng.chance(1, 8):
        for _ in range(rng.range(1, 2)):
            out += rng.choice([b" ", b"\t", b"\r", b"\x0b", b"\x0c"]) + rng.choice([b"", b"junk", b"X: y"]) + rng.choice([b"\r\n", b"\n"])
    for _ in range(rng.range(0, 4)):
        f = rng.choice(FIELDS)
        if rng.chance(1, 6):
            f += rng.choice([b"\r\n", b"\n", b"\r\r\n"]) + rng.choice([b" ", b"\t", b" \t "]) + b"folded"
        out += f + (b"\n" if rng.chance(1, 6) else b"\r\n")
    out += b"\n" if rng.chance(1, 6) else b"\r\n"
    return out


def gen_valid(rng, relaxed):
    d1 = bytes([rng.choice(RELAXED_DELIMS)]) if relaxed and rng.chance(1, 3) else b" "
    d2 = bytes([rng.choice(RELAXED_DELIMS)]) if relaxed and rng.chance(1, 3) else b" "
    term = b"\n" if relaxed and rng.chance(1, 3) else b"\r\n"
    if rng.chance(1, 6):
        head = b"ICY " + rng.choice(STATUSES) + d2
    else:
        head = b"HTTP/1." + bytes([48 + rng.below(10)]) + d1 + rng.choice(STATUSES) + d2
    if rng.chance(1, 4):
        st = b"%03d" % rng.range(100, 599)
        head = head[:-4] + st + head[-1:]
    line = head + gen_reason(rng) + term
    return line, gen_block(rng, relaxed), rng.choice([b"", b"", b"body", b"\r\n", b"HTTP/1.1 200 OK\r\n\r\n", bytes([rng.below(256)])])


def gen_boundary(rng, relaxed):
    k = rng.below(8)
    reason = rng.choice([b"OK", b"", b"x"])
    term = b"\r\n"
    blk = gen_block(rng, relaxed)
    if k == 0:   # status values around the limits and malformed status areas
        line = b"HTTP/1.1 " + rng.choice(BAD_STATUSES + STATUSES) + b" " + reason + term
    elif k == 1:  # every delimiter candidate in either position
        d = bytes([rng.choice(b" \t\x0b\x0c\r\n\x00\xa0_")])
        line = (b"HTTP/1.1" + d + b"200 OK" + term) if rng.chance(1, 2) else (b"HTTP/1.1 200" + d + b"OK" + term)
    elif k == 2:  # version area
        line = rng.choice([b"HTTP/1.", b"HTTP/1.10", b"HTTP/1.x", b"HTTP/1.1", b"HTTP/1. ", b"HTTP/1.\r\n", b"HTTP/1.1\r\n", b"HTTP/1.1  200 OK\r\n", b"HTTP/1.01 200 OK\r\n"]) + \
            rng.choice([b"", b" 200 OK\r\n"])
    elif k == 3:  # terminators
        line = b"HTTP/1.1 200 " + reason + rng.choice([b"\r", b"\n", b"\r\r\n", b"\r\n", b"\n\r", b"\r\x00", b"\x00", b"\x7f\r\n", b"\x01\r\n", b"\r \n"])
    elif k == 4:  # magic look-alikes -> HTTP/0.9
        line = rng.choice([b"HTTP/2.0 200 OK\r\n", b"HTTP/0.9 200 OK\r\n", b"http/1.1 200 OK\r\n", b"HTTP/1,1 200 OK\r\n", b"ICY\t200 OK\r\n", b"ICX 200 OK\r\n", b"icy 200 OK\r\n",
                           b" HTTP/1.1 200 OK\r\n", b"\r\nHTTP/1.1 200 OK\r\n", b"<html>", b"HTTP", b"HTT", b"IC", b"I", b"H", b"ICY", b"HTTP/1", b"HTTP/", b"HTTPS/1.1 200\r\n",
                           b"\x00", b"\xff\xfe", b"220 ftp ready\r\n", b"SSH-2.0-x\r\n", b"ICY200 OK\r\n", b"HTTP/1"])
        blk = rng.choice([b"", blk])
    elif k == 5:  # ICY
        line = b"ICY " + rng.choice(BAD_STATUSES + STATUSES) + rng.choice([b" ", b"\t", b""]) + reason + term
    elif k == 6:  # long reason
        line = b"HTTP/1.0 200 " + b"r" * rng.choice([100, 255, 256, 1000]) + term
    else:
        line = b"HTTP/1.1 200 OK" + term
        blk = rng.choice([b"\r\n", b"\n", b"\r\r\n", b" \r\n\r\n", b"\t\n\n", b"A: b\r\n \r\n\r\n", b"A: b\n\tc\n\n", b"\r", b"A: b\r\n\r", b"A: b\r\nC", b"A: b\r\n\rX\r\n\r\n",
                          b"\x0bgarbage\r\nA: b\r\n\r\n", b" a\r\n b\r\n\r\n", b"A: b\r\r\n c\r\n\r\n"])
    return line, blk, rng.choice([b"", b"", b"tail"])


def mutate(rng, data):
    data = bytearray(data)
    for _ in range(rng.range(1, 3)):
        k = rng.below(6)
        pos = rng.below(len(data) + 1)
        if k == 0 and data:
            data[pos % len(data)] = rng.below(256)
        elif k == 1 and data:
            data[pos % len(data)] ^= 1 << rng.below(8)
        elif k == 2:
            data[pos:pos] = bytes([rng.choice(b" \t\r\n\x0b\x0c0159:/.HICY\x00\x7f\x80")])
        elif k == 3 and data:
            del data[pos % len(data)]
        elif k == 4 and data:
            p = pos % len(data)
            data[p:p] = data[p:p + rng.range(1, 4)]
        else:
            del data[pos:]
    return bytes(data)


def limit_for(rng, line, blk):
    """mostly the default-sized limit; sometimes a limit within +-3 of the parser's size estimate"""
    if rng.chance(3, 4):
        return 65536
    est = len(line) + len(blk)
    return max(0, est + rng.range(-4, 4))


def case_line(relaxed, limit, segs):
    return "p %d %d %s" % (relaxed, limit, " ".join(hx(s) for s in segs) if segs else "-")


def splits_single(data):
    for i in range(0, len(data) + 1):
        yield [data[:i], data[i:]]


def splits_pairs(data):
    n = len(data)
    for i in range(0, n + 1):
        for j in range(i, n + 1):
            yield [data[:i], data[i:j], data[j:]]


def random_split(rng, data, ways):
    cuts = sorted(rng.below(len(data) + 1) for _ in range(ways - 1))
    segs, prev = [], 0
    for c in cuts:
        segs.append(data[prev:c])
        prev = c
    segs.append(data[prev:])
    return segs


SMALL_ALPHA = [b"0", b"1", b"5", b"6", b"9", b" ", b"\t", b"\r", b"\n", b"x"]


def cases(rng, tier):
    thorough = tier == "thorough"
    # ---- ParseResponseStatus alone: exhaustive small scopes ----
    maxlen = 5 if thorough else 4
    def rec(prefix, n):
        if n == 0:
            yield prefix
            return
        for c in SMALL_ALPHA:
            yield from rec(prefix + c, n - 1)
    for relaxed in (0, 1):
        for n in range(0, maxlen + 1):
            for s in rec(b"", n):
                yield "s %d %s" % (relaxed, hx(s))
        for v in range(0, 1000):
            for d in (b" ", b"\t", b"\r", b"x", b""):
                yield "s %d %s" % (relaxed, hx(b"%03d" % v + d + b"z"))
        for v in range(0, 100):
            yield "s %d %s" % (relaxed, hx(b"%d " % v))
    # ---- exhaustive first lines over a tiny alphabet after the magic (the status/reason/terminator area) ----
    tiny = [b"1", b"9", b" ", b"\r", b"\n", b"\t", b"a"]
    def rec2(prefix, n):
        if n == 0:
            yield prefix
            return
        for c in tiny:
            yield from rec2(prefix + c, n - 1)
    deep = 5 if thorough else 3
    for relaxed in (0, 1):
        for n in range(0, deep + 1):
            for s in rec2(b"", n):
                yield case_line(relaxed, 65536, [b"HTTP/1.1 20", s])
                yield case_line(relaxed, 65536, [b"HTTP/1.1 200 O", s + b"\n"])
    # ---- every prefix of the magic strings and one-byte deviations from them ----
    for relaxed in (0, 1):
        for magic in (b"HTTP/1.1 200 OK\r\n\r\n", b"ICY 200 OK\r\n\r\n"):
            for i in range(0, 10):
                for b in (range(256) if thorough or i < 8 else (0, 32, 49)):
                    yield case_line(relaxed, 65536, [magic[:i], bytes([b]) + magic[i + 1:]])
    # ---- structured heads x split points ----
    nheads = 1500 if thorough else 260
    for i in range(nheads):
        relaxed = rng.below(2)
        k = rng.below(10)
        if k < 5:
            line, blk, tail = gen_valid(rng, relaxed)
        elif k < 8:
            line, blk, tail = gen_boundary(rng, relaxed)
        else:
            line, blk, tail = gen_valid(rng, relaxed)
            line = mutate(rng, line)
            if rng.chance(1, 3):
                blk = mutate(rng, blk)
        if rng.chance(1, 10):   # fully random head
            line, blk, tail = rng.bytes(rng.range(1, 12)), b"", b""
        limit = limit_for(rng, line, blk)
        data = line + blk + tail
        yield case_line(relaxed, limit, [data])
        yield case_line(relaxed, limit, [bytes([c]) for c in data])            # byte by byte
        for segs in splits_single(data):
            yield case_line(relaxed, limit, segs)
        if thorough and len(data) <= 64:
            for segs in splits_pairs(data):
                yield case_line(relaxed, limit, segs)
        else:
            for _ in range(6 if thorough else 3):
                yield case_line(relaxed, limit, random_split(rng, data, rng.range(2, 8)))
        # truncation at every offset of the first line (+ a little of the block): the final states are the waiting ones
        if i % 2 == 0:
            for cut in range(0, min(len(data), len(line) + 6) + 1):
                yield case_line(relaxed, limit, [data[:cut // 2], data[cut // 2:cut]])
        # limits exactly around the estimate, fed in two pieces around the end of the first line
        if i % 4 == 0:
            for lim in range(max(0, len(data) - len(tail) - 4), len(data) - len(tail) + 5):
                yield case_line(relaxed, lim, [line, blk + tail])
                yield case_line(relaxed, lim, [data[:max(0, len(line) + len(blk) - 2)], data[max(0, len(line) + len(blk) - 2):]])


def nontrivial(line, impl, model):
    if line.startswith("s "):
        return not impl.startswith("insufficient")
    parts = impl.split(" | ")
    one = parse_outcome(parts[-1]) if parts else None
    if not one:
        return False
    return one["pr"] != "none/0.0" or one["st"] == "D"


def tag(line, impl, model):
    if line.startswith("s "):
        return "s " + impl.split(" ")[0]
    if impl.startswith("abort:"):
        return "abort"
    parts = impl.split(" | ")
    one = parse_outcome(parts[-1]) if len(parts) == 2 else None
    if not one:
        return "p ?"
    nseg = len(line.split(" ")) - 3
    segs = "1seg" if nseg <= 1 else "2seg" if nseg == 2 else "3seg" if nseg == 3 else ">3seg"
    if one["st"] == "D" and one["psc"] == 600:
        kind = "rejected"
    elif one["st"] == "D" and one["psc"] == 601:
        kind = "too-large"
    elif one["st"] == "D" and one["rp"] == b"Gatewaying" and one["mh"] == FAKE_MIME:
        kind = "http09"
    elif one["st"] == "D":
        kind = "accepted+headers"
    elif one["st"] == "M":
        kind = "accepted,headers-incomplete"
    elif one["st"] == "F":
        kind = "need-more(" + ("magic" if one["pr"] == "none/0.0" else "status" if one["sc"] == 0 else "reason") + ")"
    else:
        kind = "empty"
    return "p r=%s %s %s" % (line.split(" ")[1], segs, kind)


def classify(line, impl, why):
    return None


def shrink(line):
    """drop segments' bytes (keeping the segmentation), merge segments"""
    w = line.split(" ")
    if w[0] != "p":
        from vf.run import default_shrink
        yield from default_shrink(line)
        return
    head, segs = w[:3], [unhx(x) for x in w[3:]]
    # merge neighbouring segments
    for i in range(len(segs) - 1):
        yield " ".join(head + [hx(s) for s in segs[:i] + [segs[i] + segs[i + 1]] + segs[i + 2:]])
    # delete chunks from one segment
    for i, s in enumerate(segs):
        n = len(s)
        step = max(1, n // 2)
        while step >= 1:
            for off in range(0, n, step):
                cand = s[:off] + s[off + step:]
                yield " ".join(head + [hx(x) for x in segs[:i] + [cand] + segs[i + 1:]])
            step //= 2
    # a default-sized limit
    if w[2] != "65536":
        yield " ".join(w[:2] + ["65536"] + w[3:])


def exhaustive(tier):
    return True  # ParseResponseStatus over all short strings of the small alphabet and all 000..999; tiny-alphabet status-line tails
