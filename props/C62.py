"""C62 Header size limits are enforced before forwarding (end to end)."""
import time, threading
from concurrent.futures import ThreadPoolExecutor
from vf.harness import FuncHarness
from e2e import rig

ID = "C62"
PROP_MODULE = "SquidModel.Properties.C62"
MODEL = "c62"
GEN = []
LIMITS = [2048, 8192, 65536]
RULE = ("req L F M arrivals: a request whose request line is exactly F bytes and header block exactly M bytes, sent in the given cumulative segments to a squid "
        "configured with request_header_max_size L; rep R H: an origin reply head of exactly H bytes through a squid with reply_header_max_size R. "
        "Sizes are L-2..L+2 (and far below/above), with the excess in the request line or in the headers, delivered at once and in pieces. "
        "non-trivial = total head size within 4 bytes of the limit or above it; distinct = distinct scenario lines")
TRUSTED = ["modelled, not verified: the read sizing in ConnStateData (buffer never exceeds the limit without a verdict), error-page generation"]
ASSUMPTIONS = ["under-limit scenarios keep the URL below MAX_URL (8192), which has its own 400 rejection", "limits as configured per instance (2 KB, 8 KB, 64 KB); relaxed_header_parser default"]
MANIFEST = {
    "engine": "e2e",
    "text": "partial: for the limit decision logic (request line incomplete and buffer >= limit => 414; complete head with firstLine+headers >= limit => 431; unterminated "
            "headers with buffer+firstLine >= limit => 431; reply head >= reply_header_max_size => not relayed) and every segmentation: oversized_never_accepted, oversized_rejected, "
            "accepted_is_under_limit, undersized_accepted, oversized_reply_not_relayed. Tied to the rebuilt binary by scenarios sized around three configured limits; observed "
            "forwarded/rejected(status) and relayed/error must equal the model's verdict, and a direct oracle checks the property on the observation.",
    "note": "trusted: Lean kernel, python rig. Not modelled: connection read sizing, error page generation, pipelined leftovers",
    "technique": "Lean 4 proof about the limit decision model + end-to-end scenarios at limit-2..limit+2 against the rebuilt squid",
}


class Harness:
    def __init__(self, stage):
        self.origin = rig.Origin()
        self.sq = {}
        for L in LIMITS:
            self.sq[L] = rig.Squid(stage, conf="cache deny all\nrequest_header_max_size %d bytes\nreply_header_max_size %d bytes\n" % (L, L)).start()
        self.n = 0
        self.lock = threading.Lock()
        self.crashes = 0

    def sid(self):
        with self.lock:
            self.n += 1
            return "k%d" % self.n

    def req(self, L, F, M, arrivals):
        sid = self.sid()
        self.origin.on(sid, lambda r: [("send", rig.simple_response(200, b"ok"))])
        base = "http://127.0.0.1:%d/s%s/" % (self.origin.port, sid)
        line0 = "GET %s HTTP/1.1\r\n" % base
        if F < len(line0):
            return "bad-op"
        line = ("GET %s%s HTTP/1.1\r\n" % (base, "a" * (F - len(line0)))).encode()
        host = "Host: 127.0.0.1:%d\r\nConnection: close\r\n" % self.origin.port
        minM = len(host) + len("X-Pad: \r\n") + 2
        if M < minM:
            return "bad-op"
        hdr = (host + "X-Pad: " + "b" * (M - minM) + "\r\n\r\n").encode()
        data = line + hdr
        assert len(line) == F and len(hdr) == M
        c = rig.Client(self.sq[L].port, timeout=6)
        pos = 0
        for a in arrivals + [len(data)]:
            a = min(a, len(data))
            if a > pos:
                if not c.send(data[pos:a]):
                    break
                pos = a
                if a < len(data):
                    time.sleep(0.02 * rig.VERIF_SLOW)
        r = c.response()
        c.close()
        seen = self.origin.requests(sid)
        if not self.sq[L].alive():
            return "abort:squid-died"
        if seen:
            return "forwarded" + ("" if r and r["status"] == 200 else " status=%s" % (r["status"] if r else "none"))
        if r is None:
            return "rejected none"
        return "rejected %d" % r["status"]

    def rep(self, R, H):
        sid = self.sid()
        date = rig.date_now()
        fixed = "HTTP/1.1 200 OK\r\nDate: %s\r\nContent-Length: 2\r\nX-Pad: \r\n\r\n" % date
        if H < len(fixed):
            return "bad-op"
        head = ("HTTP/1.1 200 OK\r\nDate: %s\r\nContent-Length: 2\r\nX-Pad: %s\r\n\r\n" % (date, "c" * (H - len(fixed)))).encode()
        assert len(head) == H
        self.origin.on(sid, lambda r: [("send", head + b"ok")])
        r = rig.get(self.sq[R].port, self.origin.url(sid, "r"), timeout=6)
        if not self.sq[R].alive():
            return "abort:squid-died"
        if r is None:
            return "error none"
        pad = rig.hget(r["hdrs"], "x-pad")
        if r["status"] == 200 and pad is not None:
            return "relayed"
        return "error %d" % r["status"]

    def one(self, line):
        p = line.split(" ")
        try:
            if p[0] == "req":
                return self.req(int(p[1]), int(p[2]), int(p[3]), [int(x) for x in p[4].split(",")])
            if p[0] == "rep":
                return self.rep(int(p[1]), int(p[2]))
        except (ValueError, IndexError, KeyError):
            pass
        return "bad-op"

    def run(self, lines):
        with ThreadPoolExecutor(max_workers=8) as ex:
            return list(ex.map(rig.guarded(self.one, list(self.sq.values())), lines))

    def close(self):
        for s in self.sq.values():
            s.stop()
        self.origin.close()


def build(stage):
    return Harness(stage)


def arrivals(rng, total):
    k = rng.below(4)
    if k == 0:
        return [total]
    if k == 1:
        return sorted({rng.range(1, total) for _ in range(rng.range(1, 4))}) + [total]
    if k == 2:
        return [total - 1, total]
    return sorted({max(1, total - rng.range(1, 5)), max(1, total // 2)}) + [total]


def cases(rng, tier):
    n = 40 if tier == "thorough" else 8
    for L in LIMITS:
        for delta in (-3, -2, -1, 0, 1, 2, 3):
            for where in ("hdr", "line"):
                for _ in range(2 if tier == "thorough" else 1):
                    T = L + delta
                    if where == "hdr":
                        F = rng.range(60, 200)
                        M = T - F
                    else:
                        M = rng.range(70, 200)
                        F = T - M
                    if T < L and F > 8000:
                        continue   # a URL longer than MAX_URL (8192) is rejected as invalid (400) by another rule, outside this property
                    yield "req %d %d %d %s" % (L, F, M, ",".join(map(str, arrivals(rng, T))))
            yield "rep %d %d" % (L, L + delta)
        for _ in range(n):
            T = rng.choice([200, L // 2, L - 100, L + 100, 2 * L, rng.range(150, 3 * L)])
            if rng.chance(1, 2):
                F = rng.range(60, min(200, T - 70)); M = T - F
            else:
                M = rng.range(70, min(200, T - 60)); F = T - M
            if not (T < L and F > 8000):
                yield "req %d %d %d %s" % (L, F, M, ",".join(map(str, arrivals(rng, T))))
            yield "rep %d %d" % (L, rng.choice([100, L // 2, L - 5, L + 5, 2 * L, rng.range(100, 3 * L)]))


def oracle(line, impl):
    p = line.split(" ")
    if impl.startswith("abort") or impl == "bad-op":
        return "no usable observation: " + impl
    if p[0] == "req":
        L, F, M = int(p[1]), int(p[2]), int(p[3])
        if F + M > L:      # "exceed" in the property statement
            if impl.startswith("forwarded"):
                return "request head of %d bytes exceeds request_header_max_size %d but was forwarded" % (F + M, L)
            if impl not in ("rejected 414", "rejected 431"):
                return "oversized request answered with %s instead of 414/431" % impl
    else:
        R, H = int(p[1]), int(p[2])
        if H > R and impl == "relayed":
            return "reply head of %d bytes exceeds reply_header_max_size %d but was relayed as received" % (H, R)
    return None


def compare(line, impl, model):
    # the status code (414 vs 431) legitimately depends on how the kernel delivers the bytes to squid's reads, which the scenario
    # cannot control; the class (forwarded / rejected, relayed / error) is what is compared, the oracle checks 414/431 membership
    return impl.split(" ")[0] == model.split(" ")[0]


def nontrivial(line, impl, model):
    p = line.split(" ")
    if p[0] == "req":
        return int(p[2]) + int(p[3]) >= int(p[1]) - 4
    return int(p[2]) >= int(p[1]) - 4


def tag(line, impl, model):
    p = line.split(" ")
    L = int(p[1])
    T = int(p[2]) + int(p[3]) if p[0] == "req" else int(p[2])
    rel = "under" if T < L - 4 else "at" if T <= L + 4 else "over"
    return "%s L=%d %s -> %s" % (p[0], L, rel, impl)


MINIMISE_BUDGET = 20
MAX_REPORT = 5
