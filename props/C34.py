"""C34 Each transaction yields exactly one well-delimited log record."""
import os, re, subprocess, threading, time, base64
from concurrent.futures import ThreadPoolExecutor
from vf.util import VERIF, hx, unhx
from vf.harness import ProcHarness
from props.C33 import link_whole_squid

ID = "C34"


def build_exe(stage):
    built = getattr(stage, "built", None)
    if built is None:
        built = stage.built = {}
    if "c34" in built:
        return built["c34"]
    o2 = os.path.join(stage.work, "main_renamed34.o")
    subprocess.run(["objcopy", "--redefine-sym", "main=squid_main_unused", os.path.join(stage.repo, "src", "main.o"), o2], check=True)
    with ThreadPoolExecutor(max_workers=4) as ex:
        f1 = ex.submit(stage.compile, os.path.join(VERIF, "harness", "c34.cc"), None, True, ["-O0", "-g1"])
        f3 = ex.submit(stage.compile, "src/format/Quoting.cc")
        f4 = ex.submit(stage.compile, "lib/rfc1738.cc")
        f5 = ex.submit(stage.compile, "src/tools.cc")
        o1, o3, o4, o5 = f1.result(), f3.result(), f4.result(), f5.result()
    exe = link_whole_squid(stage, os.path.join(stage.work, "c34"), {"main.o": None, "tools.o": o5}, [o1, o2, o3, o4])
    built["c34"] = exe
    return exe


# ------------------------------------------------------------------------------------------------------------------ spec
from e2e import rig

PROP_MODULE = "SquidModel.Properties.C34"
MODEL = "c34"
GEN = ["log_quoting"]
RULE = ("q/m/s/u/n/p/f: the quoting functions on NUL-free byte strings (every single byte, all strings up to length 2 (quick) / 3 (thorough) over a "
        "24-symbol alphabet of quoting-relevant bytes, already-escaped look-alikes, random and long strings around the 1024/2048 buffer limits, all 32 flag sets); "
        "a: Format::AssembleOne of one %code per quoting style on a header / the user name; w: the rebuilt squid with a custom logformat using every "
        "quoting style, hostile header values / user names / methods, pipelined and aborted transactions, line count and field re-parse; "
        "non-trivial = the value needs quoting (output differs from input) or an end-to-end record was parsed; distinct = distinct lines")
TRUSTED = ["modelled, not verified: the copying loops (buffer sizes, static buffers) of the C functions are modelled as per-byte maps + concatenation "
           "(covered by the ASan differential run); the branch-by-branch byte models are proved equal to the graphs dumped from the running code"]
ASSUMPTIONS = ["values are C strings (no NUL)", "raw quoting (%'code) is by definition unquoted and outside the claim"]
MANIFEST = {
    "engine": "e2e",
    "text": "partial: theorems quoted_string_reversible, mime_blob_reversible, url_quoting_reversible, shell_quoting_reversible, quotings_injective, "
            "no_raw_CR_LF, record_is_one_line, no_raw_separator_default_url, mime_blob_bracket_delimited, quoted_string_quote_delimited, shell_word_delimited "
            "hold for every byte string in the model (per-byte codes regenerated from the source text and re-decided against the graphs dumped from the "
            "running functions; the quoting switch of Format::assemble); counterexamples raw_quoting_counterexample / default_unquoted_field_counterexample / "
            "default_quoting_not_injective are proved; the real functions run in-process under ASan/UBSan against the model and direct decoders; the rebuilt "
            "squid is driven with a custom logformat and every transaction must yield exactly one parsable record",
    "note": "trusted: Lean kernel, translator, harness, python reference decoders, rig; not modelled: log buffering/rotation, which transactions reach the logger "
            "(end-to-end scenarios only)",
    "technique": "Lean 4 proof (prefix-code induction + decide over regenerated tables) + translator + in-process differential run + end-to-end scenarios",
}

STATE = {}
ALPHA = b"\"\\\r\n\t %[]anrt25\x7f\x80\xff'<#&;/\x01"
LOGFORMAT = ('BEGIN id=%{X-Id}>h d=%{X-Evil}>h q="%{X-Evil}>h" m=[%{X-Evil}>h] u=%#{X-Evil}>h s=%/{X-Evil}>h '
             'qun="%un" mun=[%un] uun=%#un sun=%/un un=%un rm=%rm Hs=%>Hs END ru=%ru')


class Harness:
    def __init__(self, stage):
        self.exe = build_exe(stage)
        self.proc = ProcHarness([self.exe])
        self.stage = stage
        self.crashes = 0
        self.e2e = None
        STATE["stage"] = stage

    def run(self, lines):
        xs = [(i, l) for i, l in enumerate(lines) if not l.startswith("w ")]
        ws = [(i, l) for i, l in enumerate(lines) if l.startswith("w ")]
        out = [None] * len(lines)
        if xs:
            for (i, _), o in zip(xs, self.proc.run([l for _, l in xs])):
                out[i] = o
            self.crashes = self.proc.crashes
        if ws:
            if self.e2e is None:
                self.e2e = E2E(self.stage)
            for (i, l) in ws:
                out[i] = self.e2e.one(l)
        return out

    def close(self):
        if self.e2e is not None:
            self.e2e.close()
            self.e2e = None


def build(stage):
    return Harness(stage)


def rand_value(rng, tier):
    k = rng.below(7)
    if k == 0:
        return bytes(rng.range(1, 255) for _ in range(rng.range(0, 40)))
    if k == 1:
        return rng.bytes(rng.range(0, 60), ALPHA)
    if k == 2:    # text that already looks escaped
        parts = [b"\\n", b"\\r", b"\\t", b"\\\\", b"\\\"", b"%25", b"%0A", b"%0a", b"%", b"%2", b"%zz", b"\\", b"\"", b" ", b"a", b"%5B", b"[x]", b"\r\n", b"\t"]
        return b"".join(rng.choice(parts) for _ in range(rng.range(0, 14)))
    if k == 3:    # header-like text
        return rng.choice([b"Mozilla/5.0 (X11; \"Linux\") [en]", b"a=1; b=\"x y\"", b"text/html; charset=\"utf-8\"", b"x\r\nInjected: 1", b"1.2.3.4 - - [fake] \"GET /\" 200",
                           b"user name", b"dom\\user", b"caf\xc3\xa9", b"100%", b"a\tb"])
    if k == 4:    # around the buffer limits of Format::assemble (tmp[1024], quotedOut[2048])
        n = rng.choice([509, 510, 511, 512, 513, 1022, 1023, 1024, 1025, 2047, 2048, 2049]) if tier == "thorough" or rng.chance(1, 2) else rng.choice([100, 300])
        return rng.bytes(n, b"a\"\\\n %") if rng.chance(1, 2) else bytes(rng.range(1, 255) for _ in range(n))
    if k == 5:
        return bytes([rng.choice(ALPHA)]) * rng.range(1, 30)
    n = rng.choice([4096, 16384]) if tier == "thorough" else rng.choice([200, 3000])
    return bytes(rng.range(1, 255) for _ in range(n))


def cases(rng, tier):
    thorough = tier == "thorough"
    ops = ["q", "m", "s", "u", "n", "p"]
    for b in range(1, 256):
        for op in ops:
            yield "%s %s" % (op, hx(bytes([b])))
        for fl in range(32):
            flags = (fl & 7) | (128 if fl & 8 else 0) | (256 if fl & 16 else 0)
            yield "f %d %s" % (flags, hx(bytes([b])))
        for q in "dqmusr":
            yield "a %s h %s" % (q, hx(bytes([b])))
            yield "a %s n %s" % (q, hx(bytes([b])))
    maxlen = 3 if thorough else 2
    def rec(prefix, n):
        if n == 0:
            yield prefix
            return
        for c in ALPHA:
            yield from rec(prefix + bytes([c]), n - 1)
    for n in (0, 2, 3)[:maxlen]:
        for s in rec(b"", n):
            for op in ops:
                yield "%s %s" % (op, hx(s))
    for i in range(12000 if thorough else 1200):
        v = rand_value(rng, tier)
        yield "%s %s" % (rng.choice(ops), hx(v))
        if i % 3 == 0:
            yield "a %s %s %s" % (rng.choice("dqmusr"), rng.choice("hn"), hx(v))
        if i % 7 == 0:
            fl = rng.below(32)
            yield "f %d %s" % ((fl & 7) | (128 if fl & 8 else 0) | (256 if fl & 16 else 0), hx(v))
    for l in e2e_cases(rng, tier):
        yield l


# ---- reference decoders (written from the formats' definitions, independent of the model) ---------------------------------------------

def ref_unbackslash(s, pct):
    out, i = bytearray(), 0
    while i < len(s):
        c = s[i]
        if c == 92 and i + 1 < len(s):
            out.append({110: 10, 114: 13, 116: 9}.get(s[i + 1], s[i + 1]))
            i += 2
        elif pct and c == 37 and i + 2 < len(s) and re.fullmatch(rb"[0-9a-fA-F]{2}", s[i + 1:i + 3]):
            out.append(int(s[i + 1:i + 3], 16))
            i += 3
        else:
            out.append(c)
            i += 1
    return bytes(out)


def ref_pct(s):
    return re.sub(rb"%([0-9a-fA-F]{2})", lambda m: bytes([int(m.group(1), 16)]), s)


def unescaped_quotes(s):
    n, i = 0, 0
    while i < len(s):
        if s[i] == 92:
            i += 2
            continue
        if s[i] == 34:
            n += 1
        i += 1
    return n


def judge(style, needs, v, out):
    """is `out` an acceptable log field for value `v` under this quoting style? -> complaint or None"""
    if not v:
        return None if out == b"-" else "empty value not logged as -"
    if style == "r":
        return None if out == v else "raw quoting changed the value"
    if style == "d" and not needs:
        if re.search(rb"[ \r\n]", out):
            return "field separator (blank or line break) inside an unquoted field"
        if out == v:
            return None       # copied as it is and harmless; otherwise it must be a proper default-quoted field (below)
    if b"\n" in out or b"\r" in out:
        return "raw line break in the quoted field"
    if style in ("d", "u", "p"):
        if re.search(rb"[ \t\"]", out):
            return "blank or double quote inside a URL-quoted field"
        if style == "d":
            return None if ref_pct(out) == ref_pct(v) else "decoding the field does not give the (decoded) value"
        return None if ref_pct(out) == v else "decoding the field does not return the value"
    if style == "q":
        if unescaped_quotes(out) or b"\t" in out:
            return "unescaped double quote or TAB inside a quoted-string field"
        return None if ref_unbackslash(out, False) == v else "decoding the quoted-string field does not return the value"
    if style == "m":
        if b"[" in out or b"]" in out:
            return "bracket inside a mime-blob field"
        return None if ref_unbackslash(out, True) == v else "decoding the mime-blob field does not return the value"
    if style == "s":
        if b" " in v:
            if not (len(out) >= 2 and out[:1] == b'"' and out[-1:] == b'"') or unescaped_quotes(out[1:-1]):
                return "a word with a blank is not wrapped in (properly escaped) quotes"
            body = out[1:-1]
        else:
            if b" " in out or out[:1] == b'"':
                return "blank inside / quote in front of an unquoted shell word"
            body = out
        return None if ref_unbackslash(body, False) == v else "decoding the shell word does not return the value"
    return "unknown style"


def oracle(line, impl):
    if impl.startswith("abort"):
        return "sanitizer/abort: " + impl
    t = line.split(" ")
    if t[0] == "w":
        return e2e_oracle(line, impl)
    if impl in ("bad-op",):
        return "no usable observation: " + impl
    if impl.startswith("reject:"):
        return None
    v = unhx(t[-1])
    try:
        out = unhx(impl)
    except ValueError:
        return "unparsable output " + impl[:60]
    if t[0] == "a":
        return judge(t[1], t[2] == "h", v, out)
    if t[0] == "f":
        fl = int(t[1])
        if len(out) > 3 * len(v):
            return "output longer than the 3*len buffer"
        if fl & 2 and not fl & 256:
            return None if ref_pct(out) == v else "decoding does not return the value"
        return None if ref_pct(out) == ref_pct(v) else "decoding the output does not give the decoded value"
    if not v:
        return None if out == b"" else "empty string not mapped to empty"
    return judge({"q": "q", "m": "m", "s": "s", "u": "u", "n": "d", "p": "p"}[t[0]], True, v, out)


def nontrivial(line, impl, model):
    t = line.split(" ")
    if t[0] == "w":
        return impl.startswith("n=")
    return impl != t[-1] and not impl.startswith(("reject", "bad"))


def tag(line, impl, model):
    t = line.split(" ")
    if t[0] == "w":
        return "e2e %s %s" % (t[1], impl.split(" ")[0])
    n = 0 if t[-1] == "-" else len(t[-1]) // 2
    size = "0" if n == 0 else "1" if n == 1 else "2-3" if n <= 3 else "4-64" if n <= 64 else "65-1023" if n < 1024 else ">=1024"
    return "%s len=%s %s" % (" ".join(t[:-1]) if t[0] == "a" else t[0], size, "changed" if impl != t[-1] else "same")


def classify(line, impl, why):
    return None     # no known findings: C34-unquoted-user-field is fixed (a3f7a36); its witnesses stay as cases


def exhaustive(tier):
    return True


# ------------------------------------------------------------------------------------------------------------------ end to end

class E2E:
    """one squid, scenarios run one after the other so that the records each one adds can be counted"""
    def __init__(self, stage):
        self.origin = rig.Origin()
        conf = ("logformat vf %s\naccess_log stdio:{dir}/vf.log logformat=vf\n"
                "auth_param basic program {dir}/auth.py\nauth_param basic children 2\nauth_param basic realm vf\nauth_param basic casesensitive on\n"
                "acl authd proxy_auth REQUIRED\ncache deny all\n") % LOGFORMAT
        self.squid = rig.Squid(stage, conf=conf, access="http_access allow authd\nhttp_access deny all\n")
        d = self.squid.dir
        with open(d + "/auth.py", "w") as f:
            f.write("#!/usr/bin/python3 -u\nimport sys\nfor l in sys.stdin:\n    sys.stdout.write('OK\\n'); sys.stdout.flush()\n")
        os.chmod(d + "/auth.py", 0o755)
        self.squid.start(wait=90)   # a loaded machine needs more than the default 10 s
        self.log = d + "/vf.log"
        self.origin.on("e", lambda req: [("send", rig.simple_response(200, b"ok"))])
        self.lock = threading.Lock()

    def size(self):
        try:
            return os.path.getsize(self.log)
        except OSError:
            return 0

    def new_lines(self, start, expect):
        t0 = time.time()
        while time.time() - t0 < 5 * rig.VERIF_SLOW:
            with open(self.log, "rb") if os.path.exists(self.log) else open(os.devnull, "rb") as f:
                f.seek(start)
                data = f.read()
            if data.count(b"\n") >= expect:
                break
            time.sleep(0.01)
        time.sleep(0.05 * rig.VERIF_SLOW)     # anything more would show up now
        with open(self.log, "rb") if os.path.exists(self.log) else open(os.devnull, "rb") as f:
            f.seek(start)
            return f.read()

    def request(self, ident, v, u, method):
        h = [b"%s http://127.0.0.1:%d/se/%s HTTP/1.1" % (method, self.origin.port, ident), b"Host: 127.0.0.1:%d" % self.origin.port, b"X-Id: " + ident]
        if v is not None:
            h.append(b"X-Evil: " + v)
        if u is not None:
            h.append(b"Proxy-Authorization: Basic " + base64.b64encode(u + b":pw"))
        return b"\r\n".join(h) + b"\r\n\r\n"

    def one(self, line):
        try:
            _, kind, ident, v, u, m, st = line.split(" ")
            ident = unhx(ident)
            v = None if v == "." else unhx(v)
            u = None if u == "." else unhx(u)
            m = unhx(m)
        except ValueError:
            return "bad-op"
        with self.lock:
            start = self.size()
            c = rig.Client(self.squid.port, timeout=10)
            if kind == "abort":
                c.send(self.request(ident, v, u, m)[:-10])
                c.close()
                expect = 1
            elif kind == "pipe":
                c.send(self.request(ident, v, u, m) * 2)
                c.response(); c.response()
                c.close()
                expect = 2
            else:
                c.send(self.request(ident, v, u, m))
                c.response()
                c.close()
                expect = 1
            data = self.new_lines(start, expect)
            if not self.squid.alive():
                return "abort:squid-died " + " ".join(self.squid.problems())[:200]
        lines = data.split(b"\n")
        if lines and lines[-1] == b"":
            lines.pop()
        else:
            return "n=%d unterminated %s" % (len(lines), hx(data[-200:]))
        return "n=%d %s" % (len(lines), " ".join(hx(l) for l in lines))

    def close(self):
        self.squid.stop()
        self.origin.close()


def e2e_value(rng):
    """a header value as squid will see it: no CR/LF/NUL, no blank at either end"""
    v = rand_value(rng, "quick").replace(b"\r", b"").replace(b"\n", b"").replace(b"\0", b"")[:1500].strip(b" \t\x0b\x0c")      # squid trims isspace() bytes at both ends of a field value
    return v


def e2e_user(rng):
    u = rng.choice([b"user", b"sp ace", b"tab\tx", b"q\"uote", b"back\\slash", b"br[ack]et", b"per%cent", b"dom\\u ser", b"caf\xc3\xa9", b"a'b<c>&d",
                    bytes(rng.range(33, 255) for _ in range(rng.range(1, 20)))])
    return u.replace(b":", b";").replace(b"\r", b"").replace(b"\n", b"").strip(b" \t") or b"u"


def e2e_cases(rng, tier):
    n = 400 if tier == "thorough" else 70
    for i in range(n):
        kind = rng.choice(["hdr", "hdr", "user", "both", "pipe", "abort", "method"])
        ident = b"i%d" % i
        v = e2e_value(rng) if kind in ("hdr", "both", "pipe") else (None if rng.chance(1, 2) else b"plain")
        u = e2e_user(rng) if kind in ("user", "both") else b"user"
        m = rng.choice([b"GET", b"M'x&y", b"FOO~|", b"A!#$%^_`"]) if kind == "method" else b"GET"
        yield "w %s %s %s %s %s %s" % (kind, hx(ident), "." if not v else hx(v), hx(u), hx(m), hx(b"200"))


def split_record(rec):
    """cut a record of LOGFORMAT into its fields by the delimiters each style promises -> dict or None"""
    pos, out = 0, {}
    def lit(s):
        nonlocal pos
        if rec[pos:pos + len(s)] != s:
            raise ValueError("expected %r at %d" % (s, pos))
        pos += len(s)
    def word(name):
        nonlocal pos
        e = pos
        while e < len(rec) and rec[e] != 32:      # the format separates fields by single blanks
            e += 1
        out[name] = rec[pos:e]
        pos = e
    def quoted(name):
        nonlocal pos
        e = pos
        while e < len(rec) and rec[e] != 34:
            e += 2 if rec[e] == 92 else 1
        out[name] = rec[pos:e]
        pos = e
    def until(name, ch):
        nonlocal pos
        e = rec.index(ch, pos)
        out[name] = rec[pos:e]
        pos = e
    def shell(name):
        nonlocal pos
        if rec[pos:pos + 1] == b'"':
            pos += 1
            quoted("_")
            out[name] = b'"' + out.pop("_") + b'"'
            pos += 1
        else:
            word(name)
    lit(b"BEGIN id="); word("id"); lit(b" d="); word("d"); lit(b' q="'); quoted("q"); lit(b'" m=['); until("m", b"]"); lit(b"] u="); word("u")
    lit(b" s="); shell("s"); lit(b' qun="'); quoted("qun"); lit(b'" mun=['); until("mun", b"]"); lit(b"] uun="); word("uun"); lit(b" sun="); shell("sun")
    lit(b" un="); word("un"); lit(b" rm="); word("rm"); lit(b" Hs="); word("Hs"); lit(b" END ru=")
    out["ru"] = rec[pos:]
    return out


def e2e_oracle(line, impl):
    _, kind, ident, v, u, m, st = line.split(" ")
    v = b"" if v == "." else unhx(v)
    u = unhx(u)
    mm = re.match(r"n=(\d+)((?: [0-9a-f-]+)*)$", impl)
    if not mm:
        return "no usable observation: " + impl[:120]
    n = int(mm.group(1))
    want = 2 if kind == "pipe" else 1
    if n != want:
        return "%d records for %d finished transaction(s)" % (n, want)
    if kind == "abort":
        return None
    for h in mm.group(2).split():
        rec = unhx(h)
        try:
            f = split_record(rec)
        except ValueError as e:
            # the record does not follow the format: find out which field broke it
            if b" un=" in rec and b" " in u:
                try:
                    split_record(rec.replace(b" un=" + u, b" un=x", 1))
                    return "blank from the user name inside the unquoted un= field: the record has an extra field"
                except ValueError:
                    pass
            return "record cannot be cut into its fields: %s" % e
        if f["id"] != unhx(ident):
            return "record of another transaction"
        for name, style, needs, val in (("d", "d", True, v), ("q", "q", True, v), ("m", "m", True, v), ("u", "u", True, v), ("s", "s", True, v),
                                        ("qun", "q", False, u), ("mun", "m", False, u), ("uun", "u", False, u), ("sun", "s", False, u), ("un", "d", False, u)):
            why = judge(style, needs, val, f[name])
            if why:
                return "%s= field: %s" % (name, why)
        if f["Hs"] != unhx(st):
            return "status %r" % f["Hs"]
    return None


def compare(line, impl, model):
    t = line.split(" ")
    if t[0] != "w":
        return impl == model
    if t[1] == "abort":
        return impl.startswith("n=1 ")
    want = 2 if t[1] == "pipe" else 1
    recs = impl.split(" ")[1:]
    pred = model.split(" ")[1]
    return impl.startswith("n=%d " % want) and len(recs) == want and all(r.startswith(pred) for r in recs)


def shrink(line):
    """end-to-end scenarios are small and slow to re-run: only in-process lines are minimised (generic hex-token delta debugging)"""
    if line.startswith("w "):
        return
    from vf.run import default_shrink
    yield from default_shrink(line)
