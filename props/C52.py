"""C52 Overflow-safe arithmetic helpers are exact (src/SquidMath.h: Less, IncreaseSum, NaturalSum, SetToNaturalSumOrMax, NaturalCast)."""
import os, re, hashlib, shutil, subprocess
from vf.util import VERIF, log
from vf.harness import ProcHarness
from vf import stage as vstage

ID = "C52"
PROP_MODULE = "SquidModel.Properties.C52"
MODEL = "c52"
GEN = ["math_types"]
RULE = ("L A B a b: Less; I S s T t [U u]: IncreaseSum; N S T t [U u [V v]]: NaturalSum<S>; M S v0 T t [U u]: SetToNaturalSumOrMax; "
        "C R S s: NaturalCast; XL/XI/XJ: the same call on every point of a grid (one line = grid-size evaluations: the harness checks "
        "every result against a 128-bit reference, python re-derives the number of true/returned results in closed form and, for grids "
        "up to 2^17 points, the digest of all results from the mathematical definition). Types: the eight fixed-width types, char, "
        "long long, unsigned long long. non-trivial = the call was evaluated (not a rejected or unsupported line); distinct = distinct lines")
TRUSTED = ["modelled, not verified: the language rules themselves (integral promotion, usual arithmetic conversions, std::common_type, "
           "modular conversion, signed overflow = UB) are written down in SquidModel.Math.Types; their *results on types* are checked "
           "against the staged tree's compiler for all pairs of its 16 canonical integer types every run (Gen.MathTypes), their results on "
           "values only through the differential run",
           "std::optional, value_or and overload/template resolution are not modelled (the model passes 'nothing' as Option.none); "
           "which overload a call selects is checked through the AllUnsigned dump",
           "sweeps larger than 300000 points are evaluated by the harness only (reference: __int128 arithmetic inside harness/c52.cc, "
           "plus the closed-form count in props/C52.py)",
           "the harness executable is cached in /var/tmp/verif-c52-cache keyed by the hash of its preprocessed source (all staged headers "
           "included), the compiler version and flags (VERIF_C52_NOCACHE=1 rebuilds)"]
ASSUMPTIONS = ["two's-complement integer types without padding whose conversions wrap modulo 2^width (C++20; GCC before that)",
               "plain char is signed on the build platform (the compiler dump says so; python's table assumes it)",
               "the arguments of the templates are integer types accepted by AssertNaturalType (bool, enums, floating point are outside)"]
MANIFEST = {
    "text": "full: theorems less_is_mathematical_comparison, increaseSum2_exact, increaseSum_exact, naturalSum_exact, naturalSum_inRange, "
            "setToNaturalSumOrMax_exact, naturalCast_exact, overloads_agree hold for EVERY pair/tuple of integer types of any width and "
            "signedness (widths symbolic, any width of int), all values and any number of summands, in a model that follows SquidMath.h "
            "operator by operator (promotion, usual arithmetic conversions, modular conversion, signed overflow as explicit UB — shown "
            "unreachable); type_rules_match_compiler re-decides the model's type rules against the compiler dump of the staged tree; "
            "the real templates, instantiated for all pairs of 11 types and triples of the 8 fixed-width types, run under ASan/UBSan "
            "against the model and a python big-integer oracle: exhaustively for all 8-bit pairs/triples and (thorough) all 16-bit pairs, "
            "boundary-dense for 32/64-bit combinations and 3-argument sums",
    "note": "trusted: Lean kernel (+propext/Classical.choice/Quot.sound as printed), the C++ conversion rules as transcribed in "
            "Math/Types.lean, type dump program, harness, python oracle; not modelled: std::optional internals, template resolution, "
            "bool/enum/floating arguments, Math::intPercent & co (floating point)",
    "technique": "Lean 4 proof (symbolic widths, range lemmas + omega) + compiler-dump translator + ASan/UBSan differential run with exhaustive small scopes",
}

# ---------------------------------------------------------------------------------------------------------------
# types (python's own table: the oracle must not depend on the model or on the harness)
TYPES = {"i8": (8, True), "u8": (8, False), "i16": (16, True), "u16": (16, False), "i32": (32, True), "u32": (32, False),
         "i64": (64, True), "u64": (64, False), "ch": (8, True), "ll": (64, True), "ull": (64, False)}
ALL = list(TYPES)
FIXED = ALL[:8]
F4 = ["i32", "u32", "i64", "u64"]
SMALL = ALL[:4]


def tmin(t):
    b, s = TYPES[t]
    return -(1 << (b - 1)) if s else 0


def tmax(t):
    b, s = TYPES[t]
    return (1 << (b - 1)) - 1 if s else (1 << b) - 1


def inr(t, v):
    return tmin(t) <= v <= tmax(t)


# ---------------------------------------------------------------------------------------------------------------
# harness build: harness/c52.cc is compiled once per PART (thousands of template instantiations), in parallel; the
# executable depends on nothing but the preprocessed source, so it is cached under that hash
PARTS = 6
CACHE = "/var/tmp/verif-c52-cache"
FLAGS = ["-g0"]


def _key(stage):
    cmd = ["g++", "-std=c++17"] + stage.cppflags() + ["-D_REENTRANT", "-w", "-DPART=0", "-E", "-P", os.path.join(VERIF, "harness", "c52.cc")]
    r = subprocess.run(cmd, capture_output=True, text=True, cwd=os.path.join(stage.repo, "src"))
    if r.returncode != 0:
        raise vstage.BuildError("preprocessing harness/c52.cc failed:\n" + r.stderr[-3000:])
    ver = subprocess.run(["g++", "--version"], capture_output=True, text=True).stdout
    src = open(os.path.join(VERIF, "harness", "c52.cc")).read()   # PART 1..5 text is not in the -DPART=0 output
    h = hashlib.sha256()
    for part in (ver, " ".join(vstage.SAN + FLAGS), re.sub(r"/var/tmp/verif-[^/ \"]+", "STAGE", r.stdout), src):
        h.update(part.encode("utf-8", "replace"))
        h.update(b"\0")
    return h.hexdigest()[:32]


def build_exe(stage):
    built = getattr(stage, "built", None)
    if built is None:
        built = stage.built = {}
    if "c52" in built:
        return built["c52"]
    out = os.path.join(stage.work, "c52")
    key = _key(stage)
    cached = os.path.join(CACHE, key, "c52")
    if os.path.exists(cached) and not os.environ.get("VERIF_C52_NOCACHE"):
        shutil.copy2(cached, out)
        log("C52: harness taken from cache %s" % key)
    else:
        from concurrent.futures import ThreadPoolExecutor
        src = os.path.join(VERIF, "harness", "c52.cc")
        jobs = max(1, min(PARTS, int(os.environ.get("VERIF_JOBS", "16"))))
        with ThreadPoolExecutor(max_workers=jobs) as ex:
            objs = list(ex.map(lambda k: stage.compile(src, out=os.path.join(stage.work, "c52_part%d.o" % k),
                                                       extra=FLAGS + ["-DPART=%d" % k]), range(PARTS)))
        stage.link_plain(objs, out)
        try:
            os.makedirs(os.path.dirname(cached), exist_ok=True)
            tmp = cached + ".tmp%d" % os.getpid()
            shutil.copy2(out, tmp)
            os.replace(tmp, cached)
        except OSError:
            pass
    built["c52"] = out
    return out


UBSAN = {"UBSAN_OPTIONS": "print_stacktrace=0:halt_on_error=1:exitcode=86"}


def sweep_size(line):
    w = line.split(" ")
    try:
        if w[0] in ("XL", "XI") and len(w) == 7:
            return (int(w[4]) - int(w[3]) + 1) * (int(w[6]) - int(w[5]) + 1)
        if w[0] == "XJ" and len(w) == 10:
            return (int(w[5]) - int(w[4]) + 1) * (int(w[7]) - int(w[6]) + 1) * (int(w[9]) - int(w[8]) + 1)
    except ValueError:
        pass
    return 1


class ParallelHarness:
    """The big native sweeps are independent lines: they are spread over a few harness processes."""

    def __init__(self, exe):
        self.exe = exe
        self.workers = max(1, min(8, int(os.environ.get("VERIF_JOBS", "8"))))
        self.crashes = 0

    def run(self, lines):
        from concurrent.futures import ThreadPoolExecutor
        heavy = [i for i, l in enumerate(lines) if l.startswith("X") and sweep_size(l) >= (1 << 22)]
        hs = set(heavy)
        chunks = [[i for i in range(len(lines)) if i not in hs]]
        if len(heavy) >= 2 and self.workers > 1:
            heavy.sort(key=lambda i: -sweep_size(lines[i]))
            chunks += [c for c in (heavy[k::self.workers] for k in range(self.workers)) if c]
        else:
            chunks[0] = list(range(len(lines)))
        out = [None] * len(lines)

        def work(idx):
            h = ProcHarness([self.exe], env=UBSAN)
            return idx, h.run([lines[i] for i in idx]), h.crashes

        with ThreadPoolExecutor(max_workers=len(chunks)) as ex:
            for idx, res, crashes in ex.map(work, chunks):
                self.crashes += crashes
                for i, r in zip(idx, res):
                    out[i] = r
        return out


def build(stage):
    return ParallelHarness(build_exe(stage))


# ---------------------------------------------------------------------------------------------------------------
# generators
def boundary(t):
    """limits +-1, powers of two +-1 of every width, small numbers"""
    vs = {0, 1, 2, 3, -1, -2, -3, 10, 100, -100}
    for k in (7, 8, 15, 16, 31, 32, 63, 64):
        for d in (-2, -1, 0, 1, 2):
            vs.add((1 << k) + d)
            vs.add(-(1 << k) + d)
    for d in (0, 1, 2):
        vs.add(tmin(t) + d)
        vs.add(tmax(t) - d)
    return sorted(v for v in vs if inr(t, v))


def rand_value(rng, t):
    """magnitude-uniform: a random bit length first"""
    k = rng.below(6)
    if k == 0:
        return rng.choice(boundary(t))
    bits, sg = TYPES[t]
    n = rng.range(0, bits)
    v = rng.below(1 << n) if n else 0
    if sg and rng.chance(1, 3):
        v = -v
    if k == 1:
        v = tmax(t) - abs(v) if rng.chance(1, 2) else tmin(t) + abs(v)
    return min(max(v, tmin(t)), tmax(t))


def near_limit(rng, S, T, s):
    """a t that puts s + t next to a limit of S or next to a wrap-around point"""
    target = rng.choice([tmax(S), tmax(S), tmax(T), (1 << 64) - 1, (1 << 32) - 1, (1 << 63) - 1, (1 << 31) - 1, 255, 127, 65535, 32767, 0])
    t = target - s + rng.choice([-2, -1, 0, 0, 1, 1, 2])
    if not inr(T, t):
        t = rand_value(rng, T)
    return t


def window(rng, t, width):
    c = rng.choice(boundary(t))
    off = rng.range(0, width - 1)
    lo = c - off
    lo = max(tmin(t), min(lo, tmax(t) - width + 1))
    return lo, min(lo + width - 1, tmax(t))


def full(t):
    return "%d %d" % (tmin(t), tmax(t))


def valid_line(rng):
    """a grammar-directed valid single evaluation of any form"""
    op = rng.choice(["L", "L", "I2", "I2", "I3", "N1", "N2", "N2", "N3", "M1", "M2", "C"])
    if op == "L":
        A, B = rng.choice(ALL), rng.choice(ALL)
        a = rand_value(rng, A)
        b = rand_value(rng, B)
        if rng.chance(1, 3):   # neighbours: the comparison is decided by the last unit
            b2 = a + rng.choice([-1, 0, 1])
            if inr(B, b2):
                b = b2
        return "L %s %s %d %d" % (A, B, a, b)
    if op == "I2":
        S, T = rng.choice(ALL), rng.choice(ALL)
        s = rand_value(rng, S)
        t = near_limit(rng, S, T, s) if rng.chance(2, 3) else rand_value(rng, T)
        return "I %s %d %s %d" % (S, s, T, t)
    if op == "I3":
        S, T, U = rng.choice(FIXED), rng.choice(FIXED), rng.choice(FIXED)
        s = abs(rand_value(rng, S)) if rng.chance(3, 4) else rand_value(rng, S)
        s = min(s, tmax(S))
        t = abs(rand_value(rng, T)) if rng.chance(3, 4) else rand_value(rng, T)
        t = min(t, tmax(T))
        u = near_limit(rng, S, U, s + t) if rng.chance(2, 3) else rand_value(rng, U)
        return "I %s %d %s %d %s %d" % (S, s, T, t, U, u)
    if op == "N1":
        S, T = rng.choice(ALL), rng.choice(ALL)
        t = near_limit(rng, S, T, 0) if rng.chance(1, 2) else rand_value(rng, T)
        return "N %s %s %d" % (S, T, t)
    if op == "N2":
        S, T, U = rng.choice(FIXED), rng.choice(FIXED), rng.choice(FIXED)
        t = rand_value(rng, T)
        if rng.chance(3, 4):
            t = min(abs(t), tmax(T))
        u = near_limit(rng, S, U, t) if rng.chance(2, 3) else rand_value(rng, U)
        return "N %s %s %d %s %d" % (S, T, t, U, u)
    if op == "N3":
        S = rng.choice(FIXED)
        T, U, V = rng.choice(F4), rng.choice(F4), rng.choice(F4)
        t = min(abs(rand_value(rng, T)), tmax(T)) if rng.chance(3, 4) else rand_value(rng, T)
        u = min(abs(rand_value(rng, U)), tmax(U)) if rng.chance(3, 4) else rand_value(rng, U)
        v = near_limit(rng, S, V, t + u) if rng.chance(2, 3) else rand_value(rng, V)
        return "N %s %s %d %s %d %s %d" % (S, T, t, U, u, V, v)
    if op == "M1":
        S, T = rng.choice(ALL), rng.choice(ALL)
        t = near_limit(rng, S, T, 0) if rng.chance(1, 2) else rand_value(rng, T)
        return "M %s %d %s %d" % (S, rand_value(rng, S), T, t)
    if op == "M2":
        S, T, U = rng.choice(FIXED), rng.choice(F4), rng.choice(F4)
        t = min(abs(rand_value(rng, T)), tmax(T)) if rng.chance(3, 4) else rand_value(rng, T)
        u = near_limit(rng, S, U, t) if rng.chance(2, 3) else rand_value(rng, U)
        return "M %s %d %s %d %s %d" % (S, rand_value(rng, S), T, t, U, u)
    R, S = rng.choice(ALL), rng.choice(ALL)
    s = near_limit(rng, R, S, 0) if rng.chance(1, 2) else rand_value(rng, S)
    return "C %s %s %d" % (R, S, s)


def mutate(rng, line):
    w = line.split(" ")
    k = rng.below(7)
    idx_types = [i for i, x in enumerate(w) if x in TYPES]
    idx_nums = [i for i, x in enumerate(w) if re.fullmatch(r"-?\d+", x)]
    if k == 0 and idx_types:       # another type in the same place (value may fall out of range: reject expected)
        w[rng.choice(idx_types)] = rng.choice(ALL)
    elif k == 1 and idx_nums:      # negate
        i = rng.choice(idx_nums)
        w[i] = str(-int(w[i]))
    elif k == 2 and idx_nums:      # off by one / two
        i = rng.choice(idx_nums)
        w[i] = str(int(w[i]) + rng.choice([-2, -1, 1, 2]))
    elif k == 3 and idx_nums:      # far out of any range
        i = rng.choice(idx_nums)
        w[i] = str(rng.choice([1 << 64, -(1 << 63) - 1, 1 << 100, -(1 << 100), 10 ** 29, 10 ** 31]))
    elif k == 4 and len(idx_types) >= 2:   # swap two types
        i, j = rng.choice(idx_types), rng.choice(idx_types)
        w[i], w[j] = w[j], w[i]
    elif k == 5:                   # truncate / duplicate a token
        if rng.chance(1, 2) and len(w) > 1:
            w = w[:rng.range(1, len(w) - 1)]
        else:
            i = rng.below(len(w))
            w = w[:i] + [w[i]] + w[i:]
    else:                          # unknown type or malformed number
        if idx_types and rng.chance(1, 2):
            w[rng.choice(idx_types)] = rng.choice(["i7", "int", "u128", "I8", "b"])
        elif idx_nums:
            w[rng.choice(idx_nums)] = rng.choice(["+1", "1e3", "0x10", "--1", "-", "1.0"])
    return " ".join(w)


def cases(rng, tier):
    thorough = tier == "thorough"
    # ---- exhaustive small scopes -------------------------------------------------------------------------
    eight = ["i8", "u8"]
    for A in eight:
        for B in eight:
            yield "XL %s %s %s %s" % (A, B, full(A), full(B))      # model-compared (65536 points)
            yield "XI %s %s %s %s" % (A, B, full(A), full(B))
    # 8 x 16 bit pairs: native (2^24 points each)
    mixed = [(A, B) for A in SMALL for B in SMALL if (A in eight) != (B in eight)]
    for A, B in mixed:
        yield "XL %s %s %s %s" % (A, B, full(A), full(B))
        yield "XI %s %s %s %s" % (A, B, full(A), full(B))
    # 16 x 16 bit pairs: native, 2^32 points each: all in thorough; a quick run covers a random band of 8192 rows
    # (2^29 points) of one pair for each of the two operations
    sixteen = [(A, B) for A in ("i16", "u16") for B in ("i16", "u16")]
    if thorough:
        for A, B in sixteen:
            yield "XL %s %s %s %s" % (A, B, full(A), full(B))
            yield "XI %s %s %s %s" % (A, B, full(A), full(B))
    else:
        for op in ("XL", "XI"):
            A, B = rng.choice(sixteen)
            lo = tmin(A) + 8192 * rng.below(8)
            yield "%s %s %s %d %d %s" % (op, A, B, lo, lo + 8191, full(B))
    # three 8-bit summands: native 2^24 each
    triples8 = [(S, T, U) for S in eight for T in eight for U in eight]
    for S, T, U in (triples8 if thorough else [rng.choice(triples8), rng.choice(triples8)]):
        yield "XJ %s %s %s %s %s %s" % (S, T, U, full(S), full(T), full(U))
    # three small summands on model-sized grids around the limits
    for _ in range(60 if thorough else 10):
        S, T, U = rng.choice(SMALL), rng.choice(SMALL), rng.choice(SMALL)
        (a, b), (c, d), (e, f) = window(rng, S, 24), window(rng, T, 24), window(rng, U, 24)
        yield "XJ %s %s %s %d %d %d %d %d %d" % (S, T, U, a, b, c, d, e, f)
    # ---- sign grid: every type pair at the zero crossing and at the limits (always complete) -----------------
    for A in ALL:
        for B in ALL:
            va = [v for v in (tmin(A), -1, 0, 1, tmax(A)) if inr(A, v)]
            vb = [v for v in (tmin(B), -1, 0, 1, tmax(B)) if inr(B, v)]
            for a in va:
                for b in vb:
                    yield "L %s %s %d %d" % (A, B, a, b)
                    yield "I %s %d %s %d" % (A, a, B, b)
    # ---- boundary grid over all type pairs -----------------------------------------------------------------
    keep = 1 if thorough else 6    # quick: every 6th point of the cross product, phase chosen by the seed
    phase = rng.below(keep)
    n = 0
    for A in ALL:
        for B in ALL:
            for a in boundary(A):
                for b in boundary(B):
                    n += 1
                    if n % keep != phase:
                        continue
                    yield "L %s %s %d %d" % (A, B, a, b)
                    if a >= -3 and b >= -3:       # sums: negative operands are one branch only
                        yield "I %s %d %s %d" % (A, a, B, b)
    for S in ALL:
        for T in ALL:
            for t in boundary(T):
                yield "N %s %s %d" % (S, T, t)
                yield "C %s %s %d" % (S, T, t)
                yield "M %s %d %s %d" % (S, rng.choice(boundary(S)), T, t)
    # ---- dense windows around boundary points of 32/64-bit (and all other) combinations --------------------
    for i in range(1500 if thorough else 200):
        A, B = (rng.choice(F4), rng.choice(F4)) if i % 3 else (rng.choice(FIXED), rng.choice(FIXED))
        wa, wb = window(rng, A, 40), window(rng, B, 40)
        if i % 2 == 0:
            # make the windows overlap so that a < b flips inside the grid
            if rng.chance(2, 3) and inr(B, wa[0]) and inr(B, wa[1]):
                wb = wa
            yield "XL %s %s %d %d %d %d" % (A, B, wa[0], wa[1], wb[0], wb[1])
        else:
            # put the limit of S (or a wrap point) inside the grid of sums
            if rng.chance(2, 3):
                c = near_limit(rng, A, B, wa[0] + 20)
                lo = max(tmin(B), min(c - 20, tmax(B) - 39))
                wb = (lo, min(lo + 39, tmax(B)))
            yield "XI %s %s %d %d %d %d" % (A, B, wa[0], wa[1], wb[0], wb[1])
    # ---- grammar-directed valid lines (all forms, 2-4 types), then mutations -------------------------------
    valid = []
    for _ in range(60000 if thorough else 6000):
        l = valid_line(rng)
        valid.append(l)
        yield l
    for _ in range(6000 if thorough else 800):
        yield mutate(rng, rng.choice(valid))
    # a little fully random
    for _ in range(2000 if thorough else 300):
        op = rng.choice(["L", "I", "N", "M", "C"])
        toks = [op] + [rng.choice(ALL) if rng.chance(1, 2) else str(rng.range(-300, 300)) for _ in range(rng.range(2, 7))]
        yield " ".join(toks)


# ---------------------------------------------------------------------------------------------------------------
# the direct oracle: python big integers, the mathematical definition of the property
FNV0, FNVP, M64 = 1469598103934665603, 1099511628211, (1 << 64) - 1
NUM = re.compile(r"-?\d{1,30}$")


def parse(line):
    """-> (kind, payload) with kind in bad|reject|L|sum|set|cast|XL|XI|XJ ; mirrors the documented line grammar"""
    w = [x for x in line.split(" ") if x]
    if not w:
        return "bad", None

    def num(x):
        return int(x) if NUM.match(x) else None

    def typed(ws, names):
        if len(ws) % 2:
            return None
        out = []
        for i in range(0, len(ws), 2):
            v = num(ws[i + 1])
            if ws[i] not in names or v is None:
                return None
            out.append((ws[i], v))
        return out

    def ranged(args):
        return all(inr(t, v) for t, v in args)

    op = w[0]
    if op == "L" and len(w) == 5:
        args = typed([w[1], w[3], w[2], w[4]], ALL)
        if args is None:
            return "bad", None
        return ("L", args) if ranged(args) else ("reject", None)
    if op == "I" and len(w) in (5, 7):
        args = typed(w[1:], ALL if len(w) == 5 else FIXED)
        if args is None:
            return "bad", None
        return ("sum", (args[0][0], args[0][1], args[1:], True)) if ranged(args) else ("reject", None)
    if op == "N" and len(w) in (4, 6, 8):
        names = ALL if len(w) == 4 else FIXED
        args = typed(w[2:], F4 if len(w) == 8 else names)
        if w[1] not in names or args is None:
            return "bad", None
        return ("sum", (w[1], 0, args, False)) if ranged(args) else ("reject", None)
    if op == "M" and len(w) in (5, 7):
        names = ALL if len(w) == 5 else FIXED
        v0 = num(w[2])
        args = typed(w[3:], F4 if len(w) == 7 else names)
        if w[1] not in names or v0 is None or args is None:
            return "bad", None
        return ("set", (w[1], args)) if ranged([(w[1], v0)] + args) else ("reject", None)
    if op == "C" and len(w) == 4:
        args = typed(w[2:], ALL)
        if w[1] not in ALL or args is None:
            return "bad", None
        return ("cast", (w[1], args[0])) if ranged(args) else ("reject", None)
    if op in ("XL", "XI") and len(w) == 7:
        r = [num(x) for x in w[3:]]
        if w[1] not in FIXED or w[2] not in FIXED or None in r:
            return "bad", None
        ok = r[0] <= r[1] and r[2] <= r[3] and inr(w[1], r[0]) and inr(w[1], r[1]) and inr(w[2], r[2]) and inr(w[2], r[3])
        return (op, (w[1], w[2], r)) if ok else ("reject", None)
    if op == "XJ" and len(w) == 10:
        r = [num(x) for x in w[4:]]
        if w[1] not in SMALL or w[2] not in SMALL or w[3] not in SMALL or None in r:
            return "bad", None
        ok = all(r[2 * i] <= r[2 * i + 1] and inr(w[1 + i], r[2 * i]) and inr(w[1 + i], r[2 * i + 1]) for i in range(3))
        return ("XJ", (w[1], w[2], w[3], r)) if ok else ("reject", None)
    return "bad", None


def exact_sum(S, s, args, first_counts):
    """the property: the exact sum iff every argument is non-negative and the sum fits S"""
    vals = ([s] if first_counts else []) + [v for _, v in args]
    tot = s + sum(v for _, v in args)
    if all(v >= 0 for v in vals) and tot <= tmax(S):
        return tot
    return None


def fnv_bit(h, b):
    return ((h ^ (1 if b else 2)) * FNVP) & M64


def fnv_val(h, v):
    return ((h ^ (v & M64)) * FNVP) & M64


def expected_sweep(kind, p):
    """-> (n, k, digest or None) from the mathematical definition"""
    if kind == "XL":
        A, B, (alo, ahi, blo, bhi) = p
        n = (ahi - alo + 1) * (bhi - blo + 1)
        k = 0
        for a in range(alo, ahi + 1):
            k += max(0, bhi - max(blo, a + 1) + 1)
        h = None
        if n <= (1 << 17):
            h = FNV0
            for a in range(alo, ahi + 1):
                for b in range(blo, bhi + 1):
                    h = fnv_bit(h, a < b)
        return n, k, h
    if kind == "XI":
        S, T, (slo, shi, tlo, thi) = p
        n = (shi - slo + 1) * (thi - tlo + 1)
        k = 0
        for s in range(max(slo, 0), shi + 1):
            k += max(0, min(thi, tmax(S) - s) - max(tlo, 0) + 1)
        h = None
        if n <= (1 << 17):
            h = FNV0
            mx = tmax(S)
            for s in range(slo, shi + 1):
                for t in range(tlo, thi + 1):
                    if s >= 0 and t >= 0 and s + t <= mx:
                        h = fnv_val(fnv_bit(h, True), s + t)
                    else:
                        h = fnv_bit(h, False)
        return n, k, h
    S, T, U, (slo, shi, tlo, thi, ulo, uhi) = p
    n = (shi - slo + 1) * (thi - tlo + 1) * (uhi - ulo + 1)
    k = 0
    for s in range(max(slo, 0), shi + 1):
        for t in range(max(tlo, 0), thi + 1):
            k += max(0, min(uhi, tmax(S) - s - t) - max(ulo, 0) + 1)
    h = None
    if n <= (1 << 17):
        h = FNV0
        mx = tmax(S)
        for s in range(slo, shi + 1):
            for t in range(tlo, thi + 1):
                for u in range(ulo, uhi + 1):
                    if s >= 0 and t >= 0 and u >= 0 and s + t + u <= mx:
                        h = fnv_val(fnv_bit(h, True), s + t + u)
                    else:
                        h = fnv_bit(h, False)
    return n, k, h


SWEEP_OUT = re.compile(r"n=(\d+) k=(\d+) h=([0-9a-f]{16}) bad=(\d+)(?: first=(\S+))?$")


def oracle(line, impl):
    if impl.startswith("abort:"):
        return "sanitizer/abort: " + impl
    kind, p = parse(line)
    if kind == "bad":
        return None if impl == "bad-op" else "malformed line answered with " + impl[:60]
    if kind == "reject":
        return None if impl == "reject:range" else "a value outside its type's range was not rejected: " + impl[:60]
    if impl in ("bad-op", "reject:range"):
        return "well-formed line answered with " + impl
    if kind == "L":
        (A, a), (B, b) = p
        want = "1" if a < b else "0"
        return None if impl == want else "Less(%d, %d) returned %s" % (a, b, impl)
    if kind == "sum":
        S, s, args, first = p
        e = exact_sum(S, s, args, first)
        want = "none" if e is None else str(e)
        if impl == want:
            return None
        return "safe sum returned %s, exact answer is %s" % (impl, want)
    if kind == "set":
        S, args = p
        e = exact_sum(S, 0, args, False)
        v = tmax(S) if e is None else e
        return None if impl == "%d %d" % (v, v) else "SetToNaturalSumOrMax stored/returned %s, expected %d" % (impl, v)
    if kind == "cast":
        R, (S, s) = p
        want = str(s) if 0 <= s <= tmax(R) else "throws"
        return None if impl == want else "NaturalCast returned %s, expected %s" % (impl, want)
    m = SWEEP_OUT.match(impl)
    if not m:
        return "unparsable sweep output " + impl[:80]
    n, k, h, bad = int(m.group(1)), int(m.group(2)), int(m.group(3), 16), int(m.group(4))
    if bad:
        return "sweep: %d results differ from the wide-integer reference, first at %s" % (bad, m.group(5))
    en, ek, eh = expected_sweep(kind, p)
    if n != en:
        return "sweep covered %d points instead of %d" % (n, en)
    if k != ek:
        return "sweep: %d true/returned results, the definition gives %d" % (k, ek)
    if eh is not None and h != eh:
        return "sweep: digest of the results differs from the digest of the mathematical answers"
    return None


def compare(line, impl, model):
    if line.startswith("X"):
        if model == "skip":
            return True
        return impl.split(" bad=")[0] == model.split(" bad=")[0]
    return impl == model


def nontrivial(line, impl, model):
    return not (impl.startswith("reject") or impl.startswith("bad-") or impl.startswith("abort"))


def width_class(t):
    return "%s%d" % ("s" if TYPES[t][1] else "u", TYPES[t][0]) if t in TYPES else "?"


def tag(line, impl, model):
    w = line.split(" ")
    op = w[0]
    if impl.startswith("reject") or impl.startswith("bad-") or impl.startswith("abort"):
        return "%s %s" % (op, impl.split(":")[0] if impl.startswith("abort") else impl)
    if op.startswith("X"):
        n = sweep_size(line)
        size = "<=2^12" if n <= 4096 else "<=2^17" if n <= (1 << 17) else "2^24" if n <= (1 << 24) else "2^32"
        return "%s grid %s %s" % (op, size, "model" if model != "skip" else "native")
    types = [x for x in w[1:] if x in TYPES]
    res = "true" if impl == "1" else "false" if impl == "0" else "none" if impl == "none" else "throws" if impl == "throws" else "value"
    if op == "M":
        res = "max" if impl.split(" ")[0] == str(tmax(w[1])) else "sum"
    return "%s/%d %s %s" % (op, len(types), "+".join(sorted(set(width_class(t)[0] + ("8-16" if TYPES[t][0] <= 16 else "32-64") for t in types))), res)


def classify(line, impl, why):
    return None


def shrink(line):
    """values are decimal: replace a grid by its first failing point, then move numbers towards zero"""
    w = line.split(" ")
    if w[0].startswith("X"):
        return
    idx = [i for i, x in enumerate(w) if re.fullmatch(r"-?\d+", x)]
    for i in idx:
        v = int(w[i])
        for c in (0, 1, -1, v // 2, v // 16, v // 256, v // 65536, v - 1 if v > 0 else v + 1):
            if c != v and len(str(c)) <= len(w[i]):
                yield " ".join(w[:i] + [str(c)] + w[i + 1:])
    # fewer summands
    if w[0] in ("I", "N", "M") and len(w) >= 7:
        yield " ".join(w[:-2])


def exhaustive(tier):
    return True   # all 8-bit pairs and 8 x 16-bit pairs in both tiers; all 16-bit pairs and all 8-bit triples in thorough
