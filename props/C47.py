"""C47 Helper replies reach the request that asked (end to end + in-process)."""
import os, re, threading, shutil, time
from concurrent.futures import ThreadPoolExecutor
from vf.util import hx, unhx, VERIF, log
from vf.harness import ProcHarness

ID = "C47"
PROP_MODULE = "SquidModel.Properties.C47"
MODEL = "c47"
GEN = ["helper_read"]
RULE = ("scenario = helper kind (url_rewrite / external_acl / in-process) x concurrency x first channel id x N waiting requests x a byte stream of reply "
        "lines (own ids in any order, unknown, duplicate, huge, signed, malformed ids; LF / CR LF) x a fragmentation of that stream into reads "
        "(random cuts, cuts inside / right after the channel id, around the terminator, byte-wise, every single cut of fixed streams in thorough); "
        "E lines run through the rebuilt squid with a relay helper (one write(2) per read, acknowledged when Squid has consumed it), U lines through the "
        "real helper.cc in-process; non-trivial = at least one reply was applied or dropped after a multi-read line; distinct = distinct scenario lines")
TRUSTED = ["modelled, not verified: Comm I/O and the event loop (one write of the stub = one helperHandleRead, checked by the stub through the socket's queue "
           "length), Helper::Reply::finalize beyond the BH decision, redirect.cc / external_acl.cc interpretation of the reply (the e2e tokens are compared "
           "through a python reading of well-formed payloads only)",
           "in-process harness: Comm::Write / comm_read / Connection::close replaced by recording stubs; reads are completed through the stored AsyncCall"]
ASSUMPTIONS = ["one helper process per helper program, no helper timeout configured, replies shorter than the 128 KiB read buffer",
               "channel ids stay below 2^63 (the 64-bit request counter does not wrap)"]
MANIFEST = {
    "engine": "e2e",
    "text": "partial: the Lean model follows helperHandleRead / helperReturnBuffer / popRequest / submit-queue branch by branch (the behaviour before and after the "
            "fixes ad6fd97 / 42be5de / e4eb057, selected by flags dumped by running the staged code); theorems for the tree as it is: reply_to_own_channel and "
            "any_fragmentation_same_result (conforming helper output, every fragmentation, unbounded: every callback goes to the request waiting on the channel its line "
            "names; splitting reads changes nothing), unknown_channel_never_applied, never_aborts (no bytes trip an assertion), fifo_when_not_concurrent; the pre-fix "
            "behaviour is kept as labelled pre_fix_* counterexamples; the model is tied to the real helper.cc in-process (exact state and payload equality) and to the "
            "rebuilt squid end to end (url_rewrite and external_acl relay helpers, out-of-order answers, scripted fragmentation); the runtime behaviour the model "
            "cannot exhibit is the Comm event loop, process spawning and the HTTP side of the transactions",
    "note": "trusted: Lean kernel, python rig (origin/client/relay stubs), loopback sockets; not modelled: reply size limit, helper timeouts, several helper processes",
    "technique": "Lean 4 proofs about the reader/dispatcher state machine + in-process and end-to-end scenario correspondence",
}

WRAP = "_ZN6Helper5Reply8finalizeEv"
CONC = 60
INT_MAX = 2 ** 31 - 1


# ------------------------------------------------------------------------------------------------- building

def build_unit(stage):
    """the real helper.cc + helper/Reply.cc in-process, linked like tests/testStore with the comm stubs"""
    exe = os.path.join(stage.work, "c47_unit")
    if os.path.exists(exe):
        return exe
    src = stage.read("src/tests/stub_libcomm.cc")
    keep = [l for l in src.splitlines() if not re.search(r"Comm::IsConnOpen\(|comm_read_base\(|Comm::Connection::close\(|void Comm::Write\(const Comm::ConnectionPointer &, const char \*", l)]
    stub = os.path.join(stage.work, "c47_stub_libcomm.cc")
    with open(stub, "w") as f:
        f.write("\n".join(keep) + "\n")
    with ThreadPoolExecutor(max_workers=6) as ex:
        fh = ex.submit(stage.compile, os.path.join(VERIF, "harness", "c47.cc"), os.path.join(stage.work, "c47.o"))
        fo = [ex.submit(stage.compile, s) for s in ("src/helper/Reply.cc", "src/helper/ChildConfig.cc", "src/helper/ReservationId.cc")]
        fs = ex.submit(stage.compile, stub, os.path.join(stage.work, "c47_stub_libcomm.o"), False)
        objs = [fh.result()] + [f.result() for f in fo] + [fs.result()]
    drop = ["tests/stub_helper.o", "tests/stub_HelperChildConfig.o", "tests/stub_libcomm.o", "tests/testPackableStream.o", "tests/testStoreController.o",
            "tests/testStoreHashIndex.o", "tests/testStoreSupport.o", "tests/TestSwapDir.o", "tests/stub_libtime.o", "-lcppunit"]
    fast = ["-fuse-ld=lld"] if shutil.which("ld.lld") else ["-fuse-ld=gold"] if shutil.which("ld.gold") else []
    stage.link_like("tests/testStore", objs, exe + ".tmp", drop=drop, extra=fast + ["time/libtime.la", "-Wl,--wrap=" + WRAP])
    os.replace(exe + ".tmp", exe)
    return exe


def unit_harness(stage):
    return ProcHarness([build_unit(stage)], env={"ASAN_OPTIONS": "detect_leaks=0:abort_on_error=0:exitcode=86:allocator_may_return_null=1"})


class Harness:
    def __init__(self, stage):
        from harness import c47_e2e
        self.unit = unit_harness(stage)
        self.e2e = c47_e2e.E2E(stage, per_key=2)
        self.crashes = 0

    def e2e_one(self, line):
        out = self.e2e.one(line)
        # flake guard: an observation the property rejects, or one with a request left waiting, must repeat to count
        tries = 0
        while tries < 2 and oracle(line, out):
            again = self.e2e.one(line)
            tries += 1
            if again == out:
                break          # reproducible
            out = again
        return out

    def run(self, lines):
        outs = [None] * len(lines)
        ui = [i for i, l in enumerate(lines) if not l.startswith("E ")]
        ei = [i for i, l in enumerate(lines) if l.startswith("E ")]
        if ui:
            for i, o in zip(ui, self.unit.run([lines[i] for i in ui])):
                outs[i] = canon_unit(o)
            self.crashes = self.unit.crashes
        if ei:
            # scenarios sharing an instance run in ascending base order so that the helper session is reused while ids grow
            ei.sort(key=lambda i: (lines[i].split(" ")[1:3], int(lines[i].split(" ")[3][2:]) if lines[i].split(" ")[3][2:].isdigit() else 0))
            with ThreadPoolExecutor(max_workers=8) as ex:
                for i, o in zip(ei, ex.map(lambda i: self.e2e_one(lines[i]), ei)):
                    outs[i] = o
        return outs

    def close(self):
        self.e2e.close()


def canon_unit(o):
    if o.startswith("abort:") and "assertion_failed" in o:
        m = re.search(r'helper\.cc:\d+:_"(.*?)"', o)
        return "abort:assert " + (m.group(1) if m else "?")
    return o


def build(stage):
    return Harness(stage)


# ------------------------------------------------------------------------------------------------- scenario lines

def mkline(impl, kind, conc, base, n, reads):
    return "%s %s c=%d b=%d n=%d %s" % (impl, kind, conc, base, n, ",".join(r.hex() for r in reads if r) if any(reads) else "-")


def parse(line):
    impl, kind, c, b, n, rs = line.split(" ")
    reads = [] if rs == "-" else [bytes.fromhex(x) for x in rs.split(",")]
    return impl, kind, int(c[2:]), int(b[2:]), int(n[2:]), reads


URL = b"http://127.0.0.1:PPPPP/sXXXXXX/r"


def payload(kind, tag, rng):
    """a well-formed reply body whose effect names `tag`"""
    if kind == "acl":
        return (b"OK log=" if rng.chance(2, 3) else b"ERR log=") + tag
    return b"OK rewrite-url=" + URL + tag


def cut(stream, points):
    pts = sorted(set(p for p in points if 0 < p < len(stream)))
    out, last = [], 0
    for p in pts:
        out.append(stream[last:p])
        last = p
    out.append(stream[last:])
    return [r for r in out if r]


def line_starts(stream):
    s, res = 0, []
    while s < len(stream):
        res.append(s)
        e = stream.find(b"\n", s)
        if e < 0:
            break
        s = e + 1
    return res


def id_cut_points(stream):
    """positions inside or right after the leading channel id of every line, and around the terminators"""
    inside, after, term = [], [], []
    for s in line_starts(stream):
        m = re.match(rb"[ \t\r\x0b\x0c]*[+-]?[0-9]*", stream[s:])
        e = s + m.end()
        inside += list(range(s + 1, e))
        after += [e, e + 1]
        nl = stream.find(b"\n", s)
        if nl >= 0:
            term += [nl, nl + 1] + ([nl - 1] if nl > s and stream[nl - 1:nl] == b"\r" else [])
    return inside, after, term


def fragment(rng, stream, mode=None):
    if not stream:
        return []
    inside, after, term = id_cut_points(stream)
    mode = mode if mode is not None else rng.below(8)
    if mode == 0:
        return [stream]
    if mode == 1:       # one read per line
        return cut(stream, [s for s in line_starts(stream)])
    if mode == 2:       # random cuts
        return cut(stream, [rng.below(len(stream)) for _ in range(rng.range(1, 6))])
    if mode == 3 and inside:   # inside channel ids
        return cut(stream, [rng.choice(inside) for _ in range(rng.range(1, 3))] + ([rng.below(len(stream))] if rng.chance(1, 3) else []))
    if mode == 4:       # right after ids / separators
        return cut(stream, [rng.choice(after) for _ in range(rng.range(1, 3))])
    if mode == 5 and term:     # around terminators
        return cut(stream, [rng.choice(term) for _ in range(rng.range(1, 4))])
    if mode == 6 and len(stream) <= 60:   # byte-wise
        return cut(stream, range(len(stream)))
    pool = inside + after + term
    return cut(stream, [rng.choice(pool) for _ in range(rng.range(1, 5))] + [rng.below(len(stream))])


def scenario(rng, impl, kind, conc, wild=False, chain=None):
    """-> line. wild: also ids/separators/terminators a conforming helper would not write (in-process lines only).
    chain: [next free channel id]: end-to-end scenarios that do not need the first channels take increasing bases, so that one
    helper session serves many of them (its channel counter only grows)"""
    if conc:
        n = rng.range(1, 14) if rng.chance(3, 4) else rng.range(10, 22 if impl == "U" else 16)
        if impl == "E":
            if rng.chance(1, 3) or chain is None:
                base, n = 0, (n if rng.chance(1, 3) else rng.range(10, 14))       # channel 1 and channels 10.. wait together
            else:
                base = chain[0] + rng.choice([0, 0, 1, 2, 5])
                if rng.chance(1, 5):
                    base += (rng.choice([8, 9]) - base) % 10          # the ids cross a power-of-ten boundary sooner
                chain[0] = base + n + 2 if base < 150 else 3
        else:
            base = rng.choice([0, 0, 0, 1, 7, 8, 9, 10, 89, 98, 99, 100, 995, 999, 1000, 99999, 2147483640])
        if impl == "U" and rng.chance(1, 8):
            conc = rng.choice([1, 2, 3, 5])      # requests wait in the client queue
    else:
        base = 0 if impl == "E" else rng.choice([0, 5, 99])
        n = rng.range(1, 6)
    ids = [base + j + 1 for j in range(n)]
    order = list(ids)
    rng.shuffle(order)
    if rng.chance(1, 6):
        order = order[:rng.range(0, len(order))]          # some requests stay unanswered
    lines = []
    k = 0
    for i in order:
        k += 1
        lines.append((i, b"%d" % k))
        if rng.chance(1, 6):      # extra line: unknown / duplicate / already answered channel
            k += 1
            which = rng.below(4)
            j = rng.choice(ids) if which == 0 else base + n + rng.range(1, 30) if which == 1 else rng.choice([0, base]) if which == 2 else rng.choice([i * 10 + rng.below(10), i // 10])
            lines.append((j, b"%d" % k))
    stream = b""
    for (i, tag) in lines:
        body = payload(kind, b"t" + tag, rng) if rng.chance(5, 6) else rng.choice([b"ERR", b"OK"])
        idtext = b"%d" % i
        sep, term = b" ", b"\n"
        if wild:
            r = rng.below(24)
            if r == 0: idtext = b"+" + idtext
            elif r == 1: idtext = b"0" + idtext
            elif r == 2: idtext = rng.choice([b" ", b"\t", b"  "]) + idtext
            elif r == 3: idtext = b"%d" % (i + rng.choice([2 ** 32, 2 ** 33, 2 ** 64, 2 ** 63]))
            elif r == 4: idtext = b"-%d" % rng.choice([i, 2 ** 32 - i, 2 ** 63, 2 ** 64])
            elif r == 5: sep = rng.choice([b"  ", b"\t", b" \t "])
            elif r == 6: body = rng.choice([b"BH", b"BH msg", b"TT ", b"TT tok", b"AF u", b"NA x", b"B", b"", b"BHX", b"foo bar"])
            elif r == 7: body = body + rng.choice([b" ", b"\r", b" x=y"])
            if rng.chance(1, 8): term = b"\r\n"
        if not conc:
            stream += body + term
        else:
            stream += idtext + sep + body + term
    if wild and rng.chance(1, 6) and stream:
        # mutations: truncation, byte flip, duplication, NUL / non-numeric line insertion
        r = rng.below(6)
        p = rng.below(len(stream))
        if r == 0: stream = stream[:p]
        elif r == 1: stream = stream[:p] + bytes([stream[p] ^ (1 << rng.below(8))]) + stream[p + 1:]
        elif r == 2: stream = stream[:p] + stream[p:p + rng.range(1, 8)] + stream[p:]
        elif r == 3: stream = stream[:p] + rng.choice([b"\n", b"\r\n", b" ", b"-", b"x"]) + stream[p:]
        elif r == 4:
            ls = line_starts(stream)
            s = rng.choice(ls)
            stream = stream[:s] + rng.choice([b"OK\n", b"ERR x\n", b"12x y\n", b"\n", b" \n", b"+\n", b"\x00", b"7\x00 OK\n"]) + stream[s:]
        else: stream = stream + rng.choice([b"\x00", b"\n", b"5", b" "])
    reads = fragment(rng, stream)
    if impl == "E" and not conc:
        # end to end a non-concurrent helper is asked again only after its previous answer: every reply ends its read, so that
        # the stub can wait for the next question before it goes on (otherwise the observation depends on request arrival times)
        bounds, p = [], 0
        for r in reads[:-1]:
            p += len(r)
            bounds.append(p)
        reads = cut(stream, bounds + line_starts(stream))
    return mkline(impl, kind, conc, base, n, reads)


def fixed_stream(kind, base, n):
    """reply lines for ids base+n .. base+1 (reverse order) plus an unknown and a duplicate channel"""
    s = b""
    for k, i in enumerate(list(range(base + n, base, -1)) + [base + n + 3, base + 1]):
        s += b"%d " % i + (b"OK log=t%d" % k if kind == "acl" else b"OK rewrite-url=" + URL + b"t%d" % k) + b"\n"
    return s


def cases(rng, tier):
    thorough = tier == "thorough"
    # --- in-process lines: many, cheap
    nu = 20000 if thorough else 3000
    for i in range(nu):
        conc = CONC if rng.chance(5, 6) else 0
        yield scenario(rng, "U", "rw", conc, wild=rng.chance(1, 2))
    # boundary: every single cut of fixed streams (ids 1..12: 1 is a prefix of 10, 11, 12; ids 10..12 behind base 9)
    for (base, n) in ([(0, 12), (9, 3), (98, 3)] if thorough else [(0, 12)]):
        s = fixed_stream("rw", base, n)
        inside, after, term = id_cut_points(s)
        pts = range(1, len(s)) if thorough else sorted(set(inside + after + term))
        for p in pts:
            yield mkline("U", "rw", CONC, base, n, cut(s, [p]))
    if thorough:
        s = fixed_stream("rw", 0, 3)
        for p in range(1, len(s)):
            for q in range(p + 1, len(s), 3):
                yield mkline("U", "rw", CONC, 0, 3, cut(s, [p, q]))
    # --- end-to-end lines
    ne = 700 if thorough else 110
    chain = [3]
    for i in range(ne):
        kind = "rw" if rng.chance(2, 3) else "acl"
        conc = CONC if rng.chance(5, 6) else 0
        yield scenario(rng, "E", kind, conc, chain=chain)
    for kind in ("rw", "acl"):
        for (base, n) in [(0, 12), (9, 3)]:
            s = fixed_stream(kind, base, n)
            inside, after, term = id_cut_points(s)
            pts = sorted(set(inside + after + term))
            if not thorough:
                pts = [p for p in pts if rng.chance(1, 4)]
            for p in pts:
                yield mkline("E", kind, CONC, base, n, cut(s, [p]))


# ------------------------------------------------------------------------------------------------- the property, judged directly

SPACE = b" \t\n\x0b\x0c\r"


def split_lines(stream):
    """complete lines of the stream (without LF and without the CR of a CR LF) and the unterminated tail"""
    parts = stream.split(b"\n")
    return [p[:-1] if p.endswith(b"\r") else p for p in parts[:-1]], parts[-1]


def carried(line):
    """(channel id the line carries as a python int | None, body after the id and the whitespace behind it)"""
    m = re.match(rb"[ \t\x0b\x0c\r]*([+-]?[0-9]+)(?=[ \t\x0b\x0c\r]|$)[ \t\x0b\x0c\r]*", line)
    if not m:
        return None, line
    return int(m.group(1)), line[m.end():]


def norm(p):
    return p.strip(SPACE)


def conforming(stream):
    """what a helper following the protocol writes: '<digits> SP <body without leading space/CR/NUL>' LF, all lines complete"""
    if b"\x00" in stream or b"\r" in stream or (stream and not stream.endswith(b"\n")):
        return False
    return all(re.fullmatch(rb"[0-9]{1,9} [!-~][ -~]*", l) for l in stream.split(b"\n")[:-1])


def retry_codes(stream):
    return re.search(rb"BH|TT ", stream) is not None


def tag_of(kind, body):
    """the observable token a well-formed body produces, or None"""
    if kind == "rw":
        m = re.fullmatch(rb"OK rewrite-url=" + re.escape(URL) + rb"(\w+)", body)
        return "r" + m.group(1).decode() if m else "=" if body in (b"ERR", b"OK", b"") else None
    m = re.fullmatch(rb"(OK|ERR) log=(\w+)", body)
    if m:
        return ("a" if m.group(1) == b"OK" else "x") + m.group(2).decode()
    return "=" if body == b"OK" else "e403" if body == b"ERR" else None


def oracle(l, impl):
    try:
        which, kind, conc, base, n, reads = parse(l)
    except ValueError:
        return None
    if impl.startswith("abort"):
        return "helper output aborted Squid: " + impl[:120]
    if impl in ("bad-op",) or not impl.startswith("d:"):
        return "no usable observation: " + impl[:80]
    toks = impl.split(" ")[0][2:].split(",") if n else []
    if len(toks) != n:
        return "observation has %d requests, scenario has %d" % (len(toks), n)
    stream = b"".join(reads)
    lines, tail = split_lines(stream)
    if any(t.startswith("dup!") for t in toks):
        return "a request was called back twice"
    if conc:
        own = {}          # id -> bodies of the lines carrying it, in order
        for ln in lines:
            i, body = carried(ln)
            if i is not None:
                own.setdefault(i, []).append(body)
        retried = which == "U" and retry_codes(stream)
        if retried and conc < n:
            return None      # a BH answer re-dispatches the request on whatever channel number is next: not judged here
        for j, t in enumerate(toks):
            rid = base + j + 1
            if t == ".":
                if conforming(stream) and rid in own and conc >= n and not retried:
                    return "request %d (channel %d) never received the reply written for its channel" % (j + 1, rid)
                continue
            cands = list(own.get(rid, []))
            if retried:    # a BH answer re-dispatches the request on a fresh channel
                for i, bs in own.items():
                    if i > base + n:
                        cands += bs
            if which == "U":
                got = norm(unhx(t))
                if not any(norm(b) == got for b in cands):
                    return "request %d (channel %d) was given a reply that no line for its channel carries: %r" % (j + 1, rid, got[:60])
                if conforming(stream) and not retried and conc >= n and own[rid][0] != unhx(t):
                    return "request %d (channel %d) did not get the first reply written for its channel" % (j + 1, rid)
            else:
                ok = [tag_of(kind, b) for b in cands]
                if t not in ok and not (None in ok and t != "."):
                    return "request %d (channel %d) acted on %s but the replies for its channel say %s" % (j + 1, rid, t, ok or "nothing")
                if conforming(stream) and tag_of(kind, own[rid][0]) not in (t, None):
                    return "request %d (channel %d) did not act on the first reply for its channel" % (j + 1, rid)
    else:
        # non-concurrent: the k-th complete line answers the k-th dispatched request
        if which == "U" and (retry_codes(stream) or b"\x00" in stream):
            return None
        for k, t in enumerate(toks):
            if t == ".":
                if k < len(lines) and which == "U":
                    return "request %d was not answered although %d complete replies arrived" % (k + 1, len(lines))
                continue
            if k >= len(lines):
                return "request %d was answered but only %d replies arrived" % (k + 1, len(lines))
            if which == "U":
                if norm(unhx(t)) != norm(lines[k]):
                    return "request %d received %r, reply %d is %r" % (k + 1, unhx(t)[:40], k + 1, lines[k][:40])
            else:
                exp = tag_of(kind, lines[k])
                if exp is not None and exp != t:
                    return "request %d acted on %s, reply %d says %s" % (k + 1, t, k + 1, exp)
    return None


def compare(l, impl, model):
    if l.startswith("E "):
        try:
            which, kind, conc, base, n, reads = parse(l)
        except ValueError:
            return impl == model
        if model.startswith("abort"):
            return impl.startswith("abort:squid-died")
        if not impl.startswith("d:") or not model.startswith("d:"):
            return impl == model
        it = impl[2:].split(",") if n else []
        mt = model.split(" ")[0][2:].split(",") if n else []
        if len(it) != len(mt):
            return False
        for a, m in zip(it, mt):
            if m == ".":
                if a != ".":
                    return False
                continue
            exp = tag_of(kind, unhx(m).rstrip(b"\r"))
            if a == "." or (exp is not None and exp != a):
                return False
        return True
    if model.startswith("abort:assert"):
        return impl.startswith("abort:assert")
    return impl == model


def nontrivial(l, impl, model):
    return impl.startswith("d:") and re.search(r"d:.*[0-9a-z=-]", impl.split(" ")[0]) is not None and "," in l.split(" ")[5]


def tag(l, impl, model):
    try:
        which, kind, conc, base, n, reads = parse(l)
    except ValueError:
        return "bad"
    stream = b"".join(reads)
    inside, after, term = id_cut_points(stream)
    bounds, p = set(), 0
    for r in reads[:-1]:
        p += len(r)
        bounds.add(p)
    where = "cut-in-id" if bounds & set(inside) else "cut-after-id" if bounds & set(after) else "cut-at-eom" if bounds & set(term) else "cut-body" if bounds else "one-read"
    res = "abort" if impl.startswith("abort") else "all-answered" if "." not in impl.split(" ")[0] else "some-waiting"
    return "%s/%s %s %s %s -> %s" % (which, kind, "conc" if conc else "fifo", "conforming" if conforming(stream) else "wild", where, res)


# ------------------------------------------------------------------------------------------------- known findings

def classify(l, impl, why):
    """no known findings: the four defects found while building this check (known_findings.d/C47.json) are fixed in the tree
    (ad6fd97, 42be5de, e4eb057); their witnesses stay in corpus/C47 as regression cases that must pass"""
    return None


SHRINK_BUDGET = [25]


def shrink(l):
    # bounded: most failing cases of a run are instances of one class; a replay need not be minimal.
    # End-to-end lines are not shrunk at all: every candidate costs a scenario with requests left waiting (timeouts).
    if SHRINK_BUDGET[0] <= 0 or l.startswith("E "):
        return
    SHRINK_BUDGET[0] -= 1
    try:
        which, kind, conc, base, n, reads = parse(l)
    except ValueError:
        return
    for i in range(len(reads)):          # drop a read
        yield mkline(which, kind, conc, base, n, reads[:i] + reads[i + 1:])
    for i in range(len(reads) - 1):      # merge two reads
        yield mkline(which, kind, conc, base, n, reads[:i] + [reads[i] + reads[i + 1]] + reads[i + 2:])
    stream = b"".join(reads)
    ls = line_starts(stream)
    bounds, p = [], 0
    for r in reads[:-1]:
        p += len(r)
        bounds.append(p)
    for a, b in zip(ls, ls[1:] + [len(stream)]):   # drop a whole line, keeping the cut positions that survive
        ns = stream[:a] + stream[b:]
        nb = [q if q <= a else q - (b - a) for q in bounds if not (a < q < b)]
        yield mkline(which, kind, conc, base, n, cut(ns, nb))
    if n > 1:
        yield mkline(which, kind, conc, base, n - 1, reads)
